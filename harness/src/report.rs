//! Events, coverage counters, violations and the panic guard shared by all monitors.
use serde_json::{json, Map, Value};
use std::cell::RefCell;
use std::collections::BTreeMap;
use std::panic::{catch_unwind, AssertUnwindSafe};
use std::sync::Once;

use crate::gen::Rng;

#[derive(Clone, Copy, PartialEq, Eq, Debug)]
pub enum Tier {
    Quick,
    Thorough,
}

/// Run configuration handed to every monitor.
#[derive(Clone, Debug)]
pub struct Cfg {
    pub tier: Tier,
    pub seed: u64,
    /// `lite` = the reduced workload used under Miri / memcheck / ASan (small sizes, no FFI under Miri).
    pub lite: bool,
    /// worker threads for `par_cases`
    pub threads: usize,
    /// name of the layer for the result file (native, miri, memcheck, asan, release)
    pub layer: String,
    /// (k, n): this process runs only the cases with index % n == k of every `par_cases` call
    /// (sanitizer layers are sharded over processes; the driver merges the shard results)
    pub shard: (usize, usize),
}

impl Cfg {
    pub fn thorough(&self) -> bool {
        self.tier == Tier::Thorough
    }
    /// `q` in the quick tier, `t` in the thorough tier, `l` in lite layers (l defaults to something small).
    pub fn pick(&self, q: usize, t: usize, l: usize) -> usize {
        if self.lite {
            if cfg!(miri) {
                l
            } else {
                // memcheck / asan: native-size inputs but fewer of them
                (l * 4).min(q)
            }
        } else if self.thorough() {
            t
        } else {
            q
        }
    }
    pub fn miri(&self) -> bool {
        cfg!(miri)
    }
}

#[derive(Clone, Debug)]
pub struct Violation {
    pub assertion: String,
    pub regime: String,
    pub count: u64,
    pub first: Value,
}

#[derive(Default, Clone, Debug)]
pub struct AssertStat {
    pub checked: u64,
    pub failed: u64,
}

/// Mergeable record of what one monitor run observed.
#[derive(Default)]
pub struct Report {
    pub evaluations: u64,
    /// (regime, count); small linear tables: a BTreeMap<String,_> lookup costs ~5 ms under Miri
    pub regimes: Vec<(String, u64)>,
    last_regime: usize,
    pub assertions: Vec<(String, AssertStat)>,
    last_assert: usize,
    pub hooks: BTreeMap<String, u64>,
    /// hashes of non-trivial cases (deduplicated when the report is finalised)
    pub distinct: Vec<u64>,
    distinct_compact_at: usize,
    pub samples: Vec<Value>,
    pub violations: BTreeMap<String, Violation>,
    pub inconclusive: Vec<String>,
    pub assumptions: Vec<String>,
    pub required: BTreeMap<String, u64>,
    pub notes: Map<String, Value>,
    /// keys written through `note_max` (merged by maximum whatever their name)
    max_keys: Vec<String>,
    pub rule: String,
    pub exhaustive: Option<bool>,
    /// seed of the case currently running (copied into violation records)
    pub case_seed: u64,
}

pub const MAX_SAMPLES: usize = 6;

impl Report {
    pub fn new() -> Self {
        Self::default()
    }
    /// One generated case / execution under the named regime (a class, not an instance).
    pub fn case(&mut self, regime: &str) {
        self.evaluations += 1;
        self.seen(regime, 1);
    }
    /// Count extra observations of a regime without counting an evaluation.
    pub fn seen(&mut self, regime: &str, n: u64) {
        if let Some(e) = self.regimes.get_mut(self.last_regime) {
            if e.0 == regime {
                e.1 += n;
                return;
            }
        }
        match self.regimes.iter().position(|e| e.0 == regime) {
            Some(i) => {
                self.regimes[i].1 += n;
                self.last_regime = i;
            }
            None => {
                self.regimes.push((regime.to_string(), n));
                self.last_regime = self.regimes.len() - 1;
            }
        }
    }
    pub fn regime_count(&self, regime: &str) -> u64 {
        self.regimes.iter().find(|e| e.0 == regime).map(|e| e.1).unwrap_or(0)
    }
    pub fn assert_stat(&mut self, assertion: &str) -> &mut AssertStat {
        let hit = matches!(self.assertions.get(self.last_assert), Some(e) if e.0 == assertion);
        if !hit {
            self.last_assert = match self.assertions.iter().position(|e| e.0 == assertion) {
                Some(i) => i,
                None => {
                    self.assertions.push((assertion.to_string(), AssertStat::default()));
                    self.assertions.len() - 1
                }
            };
        }
        &mut self.assertions[self.last_assert].1
    }
    /// Register the hash of a case; only non-trivial ones are counted as distinct.
    pub fn distinct(&mut self, key: u64, nontrivial: bool) {
        if nontrivial {
            self.distinct.push(key);
            // compact now and then; the threshold doubles with the number of truly distinct keys
            if self.distinct.len() > self.distinct_compact_at.max(1 << 20) {
                self.distinct.sort_unstable();
                self.distinct.dedup();
                self.distinct_compact_at = 2 * self.distinct.len();
            }
        }
    }
    /// Evaluate one named assertion. Returns `ok`.
    pub fn check(
        &mut self,
        assertion: &str,
        regime: &str,
        ok: bool,
        detail: impl FnOnce() -> Value,
    ) -> bool {
        let st = self.assert_stat(assertion);
        st.checked += 1;
        if !ok {
            st.failed += 1;
            let sig = format!("{}|{}", assertion, regime);
            let case_seed = self.case_seed;
            match self.violations.get_mut(&sig) {
                Some(v) => v.count += 1,
                None => {
                    let mut d = detail();
                    if let Value::Object(m) = &mut d {
                        m.insert("case_seed".into(), json!(case_seed));
                    }
                    self.violations.insert(
                        sig,
                        Violation {
                            assertion: assertion.to_string(),
                            regime: regime.to_string(),
                            count: 1,
                            first: d,
                        },
                    );
                }
            }
        }
        ok
    }
    pub fn sample(&mut self, v: impl FnOnce() -> Value) {
        // evidence samples evaluate library code too: a panic there must not take the report (and the
        // verdicts already recorded in it) down with it
        if self.samples.len() < MAX_SAMPLES {
            match guard(v) {
                Ok(x) => self.samples.push(x),
                Err(e) => self.samples.push(serde_json::json!({"sample_panicked": e})),
            }
        }
    }
    /// The run is inconclusive unless `regime` was observed at least `min` times.
    pub fn require(&mut self, regime: &str, min: u64) {
        let e = self.required.entry(regime.to_string()).or_insert(0);
        *e = (*e).max(min);
    }
    /// A hook site the workload is expected to reach at least `min` times. Unlike `require` this is
    /// evidence, not a verdict: the tick lines are instrumentation inside the library's *current*
    /// algorithms and routes, and a correct rewrite (another sampler, another factorisation route) has no
    /// such branch. The driver lists the sites that stayed below expectation in the evidence file.
    pub fn expect_site(&mut self, site: &str, min: u64) {
        let key = format!("expected_hook_site.{}", site);
        let cur = self.notes.get(&key).and_then(|x| x.as_f64()).unwrap_or(0.0);
        self.notes.insert(key.clone(), json!(cur.max(min as f64)));
        if !self.max_keys.iter().any(|x| x == &key) {
            self.max_keys.push(key);
        }
    }
    pub fn assume(&mut self, s: &str) {
        if !self.assumptions.iter().any(|a| a == s) {
            self.assumptions.push(s.to_string());
        }
    }
    pub fn inconclusive(&mut self, reason: String) {
        if self.inconclusive.len() < 20 {
            self.inconclusive.push(reason);
        }
    }
    pub fn note(&mut self, key: &str, v: Value) {
        self.notes.insert(key.to_string(), v);
    }
    /// Add `v` to a numeric note (evidence counters such as RNG draws).
    pub fn note_add(&mut self, key: &str, v: f64) {
        let cur = self.notes.get(key).and_then(|x| x.as_f64()).unwrap_or(0.0);
        self.notes.insert(key.to_string(), json!(cur + v));
    }
    /// Keep the max of a numeric note (e.g. worst observed error ratio).
    pub fn note_max(&mut self, key: &str, v: f64) {
        if !self.max_keys.iter().any(|k| k == key) {
            self.max_keys.push(key.to_string());
        }
        let cur = self.notes.get(key).and_then(|x| x.as_f64()).unwrap_or(f64::NEG_INFINITY);
        if v > cur || cur.is_nan() {
            self.notes.insert(key.to_string(), json!(v));
        }
    }
    /// Move this thread's hook counters into the report and zero them.
    pub fn absorb_hooks(&mut self) {
        for (k, v) in compute::verif_hooks::snapshot() {
            if v > 0 {
                *self.hooks.entry(k.to_string()).or_insert(0) += v;
            }
        }
        compute::verif_hooks::reset();
    }
    pub fn merge(&mut self, o: Report) {
        self.evaluations += o.evaluations;
        for (k, v) in o.regimes {
            self.seen(&k, v);
        }
        for (k, v) in o.assertions {
            let e = self.assert_stat(&k);
            e.checked += v.checked;
            e.failed += v.failed;
        }
        for (k, v) in o.hooks {
            *self.hooks.entry(k).or_insert(0) += v;
        }
        // the final count sorts a copy (see `to_json`); here only compact when the vector has grown large
        self.distinct.extend(o.distinct);
        if self.distinct.len() > self.distinct_compact_at.max(1 << 20) {
            self.distinct.sort_unstable();
            self.distinct.dedup();
            self.distinct_compact_at = 2 * self.distinct.len();
        }
        for s in o.samples {
            if self.samples.len() < MAX_SAMPLES {
                self.samples.push(s);
            }
        }
        for (k, v) in o.violations {
            match self.violations.get_mut(&k) {
                Some(e) => e.count += v.count,
                None => {
                    self.violations.insert(k, v);
                }
            }
        }
        for s in o.inconclusive {
            self.inconclusive(s);
        }
        for a in o.assumptions {
            self.assume(&a);
        }
        for (k, v) in o.required {
            self.require(&k, v);
        }
        for k in &o.max_keys {
            if !self.max_keys.iter().any(|x| x == k) {
                self.max_keys.push(k.clone());
            }
        }
        for (k, v) in o.notes {
            // numeric notes: maximum for keys written by `note_max` (or named *max* / *worst*), sum otherwise
            match (self.notes.get(&k).and_then(|x| x.as_f64()), v.as_f64()) {
                (Some(a), Some(b)) => {
                    let is_max = k.contains("max") || k.contains("worst") || self.max_keys.iter().any(|x| x == &k);
                    let r = if is_max { a.max(b) } else { a + b };
                    self.notes.insert(k, json!(r));
                }
                _ => {
                    self.notes.insert(k, v);
                }
            }
        }
        if self.rule.is_empty() {
            self.rule = o.rule;
        }
        if o.exhaustive.is_some() {
            self.exhaustive = o.exhaustive;
        }
    }
    pub fn to_json(&self, prop: &str, cfg: &Cfg, wall_s: f64) -> Value {
        let inconclusive = self.inconclusive.clone();
        let ndistinct = {
            let mut d = self.distinct.clone();
            d.sort_unstable();
            d.dedup();
            d.len()
        };
        let viol: Vec<Value> = self
            .violations
            .iter()
            .map(|(sig, v)| {
                json!({"signature": sig, "assertion": v.assertion, "regime": v.regime, "count": v.count, "first": v.first})
            })
            .collect();
        json!({
            "property": prop,
            "tier": if cfg.thorough() {"thorough"} else {"quick"},
            "seed": cfg.seed,
            "layer": cfg.layer,
            "lite": cfg.lite,
            "evaluations": self.evaluations,
            "distinct_nontrivial": ndistinct,
            "rule": self.rule,
            "exhaustive": self.exhaustive,
            "samples": self.samples,
            "regimes": self.regimes.iter().map(|(k, v)| (k.clone(), json!(v))).collect::<Map<String, Value>>(),
            "assertions": self.assertions.iter().map(|(k,v)| (k.clone(), json!({"checked": v.checked, "failed": v.failed}))).collect::<Map<String,Value>>(),
            "hooks": self.hooks,
            "required": self.required,
            "shard": [cfg.shard.0, cfg.shard.1],
            "notes": self.notes,
            "violations": viol,
            "inconclusive": inconclusive,
            "assumptions": self.assumptions,
            "wall_s": wall_s,
        })
    }
}

// ---------------------------------------------------------------------------------------------
// panic guard

thread_local! {
    static LAST_PANIC: RefCell<Option<String>> = const { RefCell::new(None) };
}
static HOOK: Once = Once::new();

pub fn install_panic_hook() {
    HOOK.call_once(|| {
        std::panic::set_hook(Box::new(|info| {
            let msg = if let Some(s) = info.payload().downcast_ref::<&str>() {
                s.to_string()
            } else if let Some(s) = info.payload().downcast_ref::<String>() {
                s.clone()
            } else {
                "<non-string panic payload>".to_string()
            };
            let loc = info.location().map(|l| format!(" @ {}:{}", l.file(), l.line())).unwrap_or_default();
            LAST_PANIC.with(|p| *p.borrow_mut() = Some(format!("{}{}", msg, loc)));
        }));
    });
}

/// Run `f`, turning a panic into `Err(message @ file:line)`. Nothing is printed.
pub fn guard<T>(f: impl FnOnce() -> T) -> Result<T, String> {
    install_panic_hook();
    match catch_unwind(AssertUnwindSafe(f)) {
        Ok(v) => Ok(v),
        Err(_) => Err(LAST_PANIC.with(|p| p.borrow_mut().take()).unwrap_or_else(|| "<panic>".into())),
    }
}

/// True if the panic message is the iteration-budget panic raised by the `verif-hooks` feature.
pub fn is_budget_panic(msg: &str) -> bool {
    msg.contains(compute::verif_hooks::BUDGET_PANIC)
}

// ---------------------------------------------------------------------------------------------
// helpers

/// FNV-1a over u64 words: cheap, deterministic hash for "distinct case" accounting.
#[derive(Clone, Copy)]
pub struct Hasher(pub u64);
impl Hasher {
    pub fn new() -> Self {
        Hasher(0xcbf29ce484222325)
    }
    pub fn u(mut self, x: u64) -> Self {
        for b in x.to_le_bytes() {
            self.0 ^= b as u64;
            self.0 = self.0.wrapping_mul(0x100000001b3);
        }
        self
    }
    pub fn f(self, x: f64) -> Self {
        self.u(x.to_bits())
    }
    pub fn fs(mut self, xs: &[f64]) -> Self {
        for &x in xs {
            self = self.f(x);
        }
        self
    }
    pub fn s(mut self, s: &str) -> Self {
        for b in s.bytes() {
            self.0 ^= b as u64;
            self.0 = self.0.wrapping_mul(0x100000001b3);
        }
        self
    }
    pub fn finish(self) -> u64 {
        self.0
    }
}

/// JSON for a float slice that keeps NaN/inf readable and truncates long inputs.
pub fn jf(xs: &[f64]) -> Value {
    // replay aid: VHARNESS_FULL_ARRAYS=1 writes arrays in full (default: the first 64 values)
    let cap = if std::env::var_os("VHARNESS_FULL_ARRAYS").is_some() { usize::MAX } else { 64 };
    let n = xs.len().min(cap);
    let mut v: Vec<Value> = xs[..n].iter().map(|&x| jnum(x)).collect();
    if xs.len() > n {
        v.push(json!(format!("... ({} values total)", xs.len())));
    }
    Value::Array(v)
}
pub fn jnum(x: f64) -> Value {
    if x.is_finite() {
        json!(x)
    } else {
        json!(format!("{}", x))
    }
}

/// Bitwise equality with all NaNs identified.
pub fn same_bits(a: f64, b: f64) -> bool {
    (a.is_nan() && b.is_nan()) || a.to_bits() == b.to_bits()
}
pub fn same_bits_slice(a: &[f64], b: &[f64]) -> bool {
    a.len() == b.len() && a.iter().zip(b).all(|(x, y)| same_bits(*x, *y))
}

/// Deterministic per-case seed.
pub fn case_seed(seed: u64, stream: u64, i: u64) -> u64 {
    let mut z = seed ^ stream.wrapping_mul(0x9E3779B97F4A7C15) ^ i.wrapping_mul(0xD1B54A32D192ED03);
    z = (z ^ (z >> 30)).wrapping_mul(0xBF58476D1CE4E5B9);
    z = (z ^ (z >> 27)).wrapping_mul(0x94D049BB133111EB);
    z ^ (z >> 31)
}

/// Run `n` independent cases, fanned out over `cfg.threads` workers. Case `i` gets an `Rng`
/// seeded from (cfg.seed, stream, i) and the library RNG (`alea`) is seeded with the same
/// value before the case, so results do not depend on scheduling. Hook counters are absorbed
/// after every case.
pub fn par_cases<F>(cfg: &Cfg, rep: &mut Report, stream: u64, n: usize, f: F)
where
    F: Fn(usize, &mut Rng, &mut Report) + Sync,
{
    install_panic_hook();
    let threads = cfg.threads.max(1).min(n.max(1));
    let run_range = |lo: usize, hi: usize, step: usize| -> Report {
        let mut local = Report::new();
        compute::verif_hooks::reset();
        let mut i = lo;
        while i < hi {
            if i % cfg.shard.1.max(1) != cfg.shard.0 {
                i += step;
                continue;
            }
            let cs = case_seed(cfg.seed, stream, i as u64);
            let mut rng = Rng::new(cs);
            alea::set_seed(cs | 1);
            local.case_seed = cs;
            let r = guard(|| f(i, &mut rng, &mut local));
            if let Err(msg) = r {
                // a panic that escaped the monitor itself is a harness error, never a verdict
                local.inconclusive(format!("harness panic in case {} (stream {}): {}", i, stream, msg));
            }
            local.absorb_hooks();
            i += step;
        }
        local
    };
    if threads == 1 {
        let r = run_range(0, n, 1);
        rep.merge(r);
        return;
    }
    let results: Vec<Report> = std::thread::scope(|s| {
        let hs: Vec<_> = (0..threads)
            .map(|t| {
                let run_range = &run_range;
                s.spawn(move || run_range(t, n, threads))
            })
            .collect();
        hs.into_iter().map(|h| h.join().expect("worker thread")).collect()
    });
    for r in results {
        rep.merge(r);
    }
}
