//! vharness <ID> --tier quick|thorough --seed N --layer NAME [--lite] [--threads N] --out FILE
//!
//! Runs the monitor of one property against the real library and writes a JSON result file.
//! Nothing is reported on stdout/stderr (the library itself prints there); the driver `./check`
//! reads the result file and prints the verdict lines.
#![allow(clippy::needless_range_loop, clippy::too_many_arguments, clippy::type_complexity)]

pub mod gen;
pub mod oracle;
pub mod props;
pub mod report;

use report::{Cfg, Report, Tier};
use std::time::Instant;

fn main() {
    let args: Vec<String> = std::env::args().collect();
    if args.len() < 2 {
        eprintln!("usage: vharness <ID> --tier quick|thorough --seed N --layer NAME [--lite] [--threads N] --out FILE");
        std::process::exit(2);
    }
    let id = args[1].clone();
    let mut tier = Tier::Quick;
    let mut seed: u64 = 1;
    let mut layer = "native".to_string();
    let mut lite = cfg!(miri);
    let mut threads: usize = if cfg!(miri) { 1 } else { std::thread::available_parallelism().map(|n| n.get()).unwrap_or(4).min(16) };
    let mut out: Option<String> = None;
    let mut shard = (0usize, 1usize);
    let mut i = 2;
    while i < args.len() {
        match args[i].as_str() {
            "--tier" => {
                i += 1;
                tier = if args[i] == "thorough" { Tier::Thorough } else { Tier::Quick };
            }
            "--seed" => {
                i += 1;
                seed = args[i].parse().expect("seed");
            }
            "--layer" => {
                i += 1;
                layer = args[i].clone();
            }
            "--lite" => lite = true,
            "--threads" => {
                i += 1;
                threads = args[i].parse().expect("threads");
            }
            "--shard" => {
                i += 1;
                let (k, n) = args[i].split_once('/').expect("--shard k/n");
                shard = (k.parse().expect("shard k"), n.parse().expect("shard n"));
                assert!(shard.1 >= 1 && shard.0 < shard.1);
            }
            "--out" => {
                i += 1;
                out = Some(args[i].clone());
            }
            other => {
                eprintln!("unknown argument {}", other);
                std::process::exit(2);
            }
        }
        i += 1;
    }
    let cfg = Cfg { tier, seed, lite, threads, layer, shard };
    report::install_panic_hook();
    let t0 = Instant::now();
    let mut rep = Report::new();
    match oracle::selftest() {
        Ok(()) => {
            let r = report::guard(|| {
                let mut rep = Report::new();
                let known = props::run(&id, &cfg, &mut rep);
                (known, rep)
            });
            match r {
                Ok((true, r)) => rep.merge(r),
                Ok((false, _)) => rep.inconclusive(format!("unknown property id {}", id)),
                Err(msg) => rep.inconclusive(format!("harness panic outside a case: {}", msg)),
            }
        }
        Err(e) => rep.inconclusive(format!("oracle self-test failed: {}", e)),
    }
    let wall = t0.elapsed().as_secs_f64();
    let js = rep.to_json(&id, &cfg, wall);
    let text = serde_json::to_string_pretty(&js).unwrap();
    match out {
        Some(p) => std::fs::write(&p, text).expect("write result file"),
        None => println!("{}", text),
    }
}
