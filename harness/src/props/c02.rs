//! C02 — densities and mass functions are proper and match the stated mean and variance
//! (DESIGN §3 C02).
//!
//! Events: every `pdf` / `pmf` / `ln_pdf` / `Normal::cdf` / `mean()` / `var()` return value or panic.
//! Oracle: (a) independent closed forms evaluated in log space with glibc `lgamma`; (b) total mass,
//! mean and variance by Gauss–Kronrod integration / summation of the *library's own* pdf/pmf,
//! compared with `mean()`/`var()` when those are finite (the same integrator is first run on the
//! reference density: if it cannot reproduce the textbook moments the setting is inconclusive, so
//! an integrator problem can never become a verdict); (c) `Normal::cdf` vs quadrature of
//! `Normal::pdf` and vs `erfc`; (d) exact 0 and no panic strictly outside the support, "no panic,
//! no NaN, >= 0" on the boundary; (e) MVN pdf vs the harness's own Cholesky in double-double.
//! (f) the MVN in other units and with structured covariances (`run_mvn_scaled`): the unit in which a
//! covariance is expressed and the position of its exact zeros are irrelevant to the property, so the
//! same reference judges covariances D·Σ·D with D = diag(units), standard deviations 1e-20..1e20, and
//! hub / band / block / graph / sparse-precision / diagonal-plus-rank-one patterns; `ln_pdf` is also
//! compared with the reference log-density directly (`C02.ln_pdf.formula`).
#[cfg(miri)]
pub fn run(_cfg: &crate::report::Cfg, rep: &mut crate::report::Report) {
    rep.inconclusive("C02 needs the glibc oracle (FFI) and has no Miri layer".to_string());
}
#[cfg(not(miri))]
pub use native::run;

#[cfg(not(miri))]
mod native {
    use crate::gen::Rng;
    use crate::oracle::dd::Dd;
    use crate::oracle::linref;
    use crate::oracle::special as sp;
    use crate::report::{guard, jf, jnum, par_cases, Cfg, Hasher, Report};
    use compute::distributions::{
        Bernoulli, Beta, Binomial, ChiSquared, Continuous, Discrete, DiscreteUniform, Exponential, Gamma, Gumbel, Mean, Normal, Pareto, Poisson, Uniform, Variance, MVN, T,
    };
    use compute::linalg::Matrix;
    use serde_json::json;

    // -----------------------------------------------------------------------------------------
    // Gauss–Kronrod 21 (QUADPACK qk21 nodes), three moments at once, adaptive bisection

    const XGK: [f64; 11] = [
        0.995_657_163_025_808_080_735_527_280_689_003,
        0.973_906_528_517_171_720_077_964_012_084_452,
        0.930_157_491_355_708_226_001_207_180_059_508,
        0.865_063_366_688_984_510_732_096_688_423_493,
        0.780_817_726_586_416_897_063_717_578_345_042,
        0.679_409_568_299_024_406_234_327_365_114_874,
        0.562_757_134_668_604_683_339_000_099_272_694,
        0.433_395_394_129_247_190_799_265_943_165_784,
        0.294_392_862_701_460_198_131_126_603_103_866,
        0.148_874_338_981_631_210_884_826_001_129_720,
        0.0,
    ];
    const WGK: [f64; 11] = [
        0.011_694_638_867_371_874_278_064_396_062_192,
        0.032_558_162_307_964_727_478_818_972_459_390,
        0.054_755_896_574_351_996_031_381_300_244_580,
        0.075_039_674_810_919_952_767_043_140_916_190,
        0.093_125_454_583_697_605_535_065_465_083_366,
        0.109_387_158_802_297_641_899_210_590_325_805,
        0.123_491_976_262_065_851_077_958_109_585_166,
        0.134_709_217_311_473_325_928_054_001_771_707,
        0.142_775_938_577_060_080_797_094_273_138_717,
        0.147_739_104_901_338_491_374_841_515_972_068,
        0.149_445_554_002_916_905_664_936_468_389_821,
    ];
    /// 10-point Gauss weights for the nodes XGK[1], XGK[3], …, XGK[9]
    const WG: [f64; 5] = [
        0.066_671_344_308_688_137_593_568_809_893_332,
        0.149_451_349_150_580_593_145_776_339_657_697,
        0.219_086_362_515_982_043_995_534_934_228_163,
        0.269_266_719_309_996_355_091_226_921_569_469,
        0.295_524_224_714_752_870_173_815_619_188_769,
    ];

    /// ∫ f, ∫ u f, ∫ u² f over [a,b] with u = (x−c)/s: (Kronrod value, |Kronrod − Gauss|)
    fn gk_panel(f: &mut dyn FnMut(f64) -> f64, a: f64, b: f64, c: f64, s: f64) -> ([f64; 3], [f64; 3]) {
        let mid = 0.5 * (a + b);
        let half = 0.5 * (b - a);
        let mut k = [0.0f64; 3];
        let mut g = [0.0f64; 3];
        let mut add = |x: f64, wk: f64, wg: f64| {
            let fx = f(x);
            let u = (x - c) / s;
            let m = [fx, fx * u, fx * u * u];
            for i in 0..3 {
                k[i] += wk * m[i];
                g[i] += wg * m[i];
            }
        };
        for j in 0..10 {
            let dx = half * XGK[j];
            let wg = if j % 2 == 1 { WG[j / 2] } else { 0.0 };
            add(mid - dx, WGK[j], wg);
            add(mid + dx, WGK[j], wg);
        }
        add(mid, WGK[10], 0.0);
        let mut e = [0.0; 3];
        for i in 0..3 {
            k[i] *= half;
            g[i] *= half;
            e[i] = (k[i] - g[i]).abs();
        }
        (k, e)
    }

    pub struct Integral {
        /// ∫f, ∫u f, ∫u² f (u = (x−c)/s)
        pub m: [f64; 3],
        pub evals: u64,
        pub converged: bool,
    }

    /// Adaptive GK21 over the panels between consecutive breakpoints; a panel is bisected while its
    /// error estimate exceeds `tol` (absolute, in units where the three moments are O(1)).
    fn integrate(f: &mut dyn FnMut(f64) -> f64, bps: &[f64], c: f64, s: f64, tol: f64, nmom: usize) -> Integral {
        let mut m = [Dd::ZERO; 3];
        let mut evals = 0u64;
        let mut converged = true;
        let mut stack: Vec<(f64, f64, u32)> = Vec::new();
        for w in bps.windows(2) {
            if !(w[1] > w[0]) {
                continue;
            }
            stack.push((w[0], w[1], 0));
            while let Some((a, b, depth)) = stack.pop() {
                let (k, e) = gk_panel(f, a, b, c, s);
                evals += 21;
                let bad = e[..nmom].iter().any(|x| !(*x <= tol));
                let mid = 0.5 * (a + b);
                if bad && depth < 48 && evals < 4_000_000 && mid > a && mid < b && k[..nmom].iter().all(|x| x.is_finite()) {
                    stack.push((mid, b, depth + 1));
                    stack.push((a, mid, depth + 1));
                } else {
                    if bad {
                        converged = false;
                    }
                    for i in 0..3 {
                        m[i] = m[i] + Dd::new(k[i]);
                    }
                }
            }
        }
        Integral { m: [m[0].f(), m[1].f(), m[2].f()], evals, converged }
    }

    /// Self-test of nodes and weights: Kronrod exact to degree 31, Gauss to 19.
    fn gk_selftest() -> Result<(), String> {
        for deg in [0u32, 2, 10, 18, 30] {
            let mut f = |x: f64| x.powi(deg as i32);
            let (k, e) = gk_panel(&mut f, -1.0, 1.0, 0.0, 1.0);
            let want = 2.0 / (deg as f64 + 1.0);
            if (k[0] - want).abs() > 1e-14 {
                return Err(format!("GK21 fails on x^{}: {:e} vs {:e}", deg, k[0], want));
            }
            if deg <= 18 && e[0] > 1e-14 {
                return Err(format!("G10 fails on x^{}: diff {:e}", deg, e[0]));
            }
        }
        let mut f = |x: f64| (-x * x / 2.0).exp() / (2.0 * std::f64::consts::PI).sqrt();
        let bps: Vec<f64> = (-40..=40).map(|i| i as f64).collect();
        let r = integrate(&mut f, &bps, 0.0, 1.0, 1e-14, 3);
        if (r.m[0] - 1.0).abs() > 1e-13 || r.m[1].abs() > 1e-13 || (r.m[2] - 1.0).abs() > 1e-13 || !r.converged {
            return Err(format!("integrator fails on the standard normal: {:?}", r.m));
        }
        Ok(())
    }

    // -----------------------------------------------------------------------------------------
    // small helpers

    fn next_up(x: f64) -> f64 {
        if x.is_nan() || x == f64::INFINITY {
            return x;
        }
        if x == 0.0 {
            return f64::from_bits(1);
        }
        let b = x.to_bits();
        f64::from_bits(if x > 0.0 { b + 1 } else { b - 1 })
    }
    fn next_down(x: f64) -> f64 {
        -next_up(-x)
    }

    /// p-quantile of a reference CDF by bisection, bracket grown geometrically from (c, s)
    fn quantile(cdf: &dyn Fn(f64) -> f64, p: f64, lo: f64, hi: f64, c: f64, s: f64) -> f64 {
        let mut a = if lo.is_finite() { lo } else { c - s };
        let mut b = if hi.is_finite() { hi } else { c + s };
        let mut k = 0;
        while !lo.is_finite() && cdf(a) > p && k < 200 {
            a = c - (c - a) * 2.0;
            k += 1;
        }
        k = 0;
        while !hi.is_finite() && cdf(b) < p && k < 200 {
            b = c + (b - c) * 2.0;
            k += 1;
        }
        for _ in 0..200 {
            let m = 0.5 * (a + b);
            if !(m > a && m < b) {
                break;
            }
            if cdf(m) < p {
                a = m;
            } else {
                b = m;
            }
        }
        0.5 * (a + b)
    }

    const LADDER: [f64; 41] = [
        1e-12, 1e-9, 1e-6, 1e-4, 1e-3, 0.005, 0.01, 0.025, 0.05, 0.1, 0.15, 0.2, 0.25, 0.3, 0.35, 0.4, 0.45, 0.5, 0.55, 0.6, 0.65, 0.7, 0.75, 0.8, 0.85, 0.9, 0.95, 0.975, 0.99, 0.995, 0.999,
        0.9999, 0.999999, 0.999999999, 0.999999999999, 0.03, 0.97, 0.125, 0.875, 0.333, 0.667,
    ];

    pub const FORMULA_TOL: f64 = 1e-11;
    pub const MOMENT_TOL: f64 = 1e-8;
    pub const CDF_TOL: f64 = 2e-7;

    /// ln(f64::MAX) = 709.78, ln(f64::MIN_POSITIVE) = -708.40
    const LN_MAX_EDGE: f64 = 709.7;
    const LN_MIN_EDGE: f64 = -708.0;

    /// x with p·ln x = t for t on both sides of the order-free limit (700) up to the f64 range
    fn power_edge_points(p: f64) -> Vec<f64> {
        if !(p > 0.0) {
            return Vec::new();
        }
        [680.0, 695.0, 699.5, 700.5, 703.0, 706.0, 708.5, 709.6].iter().map(|t| (t / p).exp()).filter(|x| x.is_finite()).collect()
    }

    fn close_rel(got: f64, want: f64, tol: f64) -> (bool, f64) {
        let err = (got - want).abs();
        let bound = tol * want.abs() + 1e-300;
        (err <= bound, if err.is_nan() { f64::INFINITY } else { err / bound })
    }

    // -----------------------------------------------------------------------------------------
    // continuous laws

    #[derive(Clone, Copy, Debug, PartialEq)]
    enum CLaw {
        Normal,
        Gamma,
        Beta,
        Chi2,
        T,
        Pareto,
        Gumbel,
        Exponential,
        Uniform,
    }

    #[derive(Clone, Copy, Debug)]
    struct CSpec {
        law: CLaw,
        a: f64,
        b: f64,
    }

    /// First argument at which the library's Lanczos gamma overflows (see C09): a fixed number that
    /// only names the regime, never read from the library.
    const GAMMA_RANGE: f64 = 142.57;
    const EULER: f64 = 0.577_215_664_901_532_9;
    const LN_2PI: f64 = 1.837_877_066_409_345_5;

    fn shape_class(x: f64) -> &'static str {
        if x < 1.0 {
            "shape<1"
        } else if x == 1.0 {
            "shape=1"
        } else {
            "shape>1"
        }
    }

    impl CSpec {
        fn regime(&self) -> String {
            let (a, b) = (self.a, self.b);
            match self.law {
                CLaw::Normal => "normal".into(),
                CLaw::Gamma => {
                    if a >= GAMMA_RANGE {
                        "gamma:shape>=142.57".into()
                    } else {
                        format!("gamma:{}", shape_class(a))
                    }
                }
                CLaw::Beta => {
                    if a + b >= GAMMA_RANGE {
                        "beta:a+b>=142.57".into()
                    } else if a < 1.0 || b < 1.0 {
                        "beta:shape<1".into()
                    } else if a == 1.0 || b == 1.0 {
                        "beta:shape=1".into()
                    } else {
                        "beta:shape>1".into()
                    }
                }
                CLaw::Chi2 => {
                    if a == 1.0 {
                        "chi2:dof=1".into()
                    } else if a == 2.0 {
                        "chi2:dof=2".into()
                    } else {
                        "chi2:dof>2".into()
                    }
                }
                CLaw::T => "t".into(),
                CLaw::Pareto => "pareto".into(),
                CLaw::Gumbel => "gumbel".into(),
                CLaw::Exponential => "exponential".into(),
                CLaw::Uniform => "uniform".into(),
            }
        }
        fn name(&self) -> &'static str {
            match self.law {
                CLaw::Normal => "normal",
                CLaw::Gamma => "gamma",
                CLaw::Beta => "beta",
                CLaw::Chi2 => "chi2",
                CLaw::T => "t",
                CLaw::Pareto => "pareto",
                CLaw::Gumbel => "gumbel",
                CLaw::Exponential => "exponential",
                CLaw::Uniform => "uniform",
            }
        }
    }

    struct CModel {
        pdf: Box<dyn Fn(f64) -> f64>,
        ln_pdf: Box<dyn Fn(f64) -> f64>,
        mean: f64,
        var: f64,
        /// reference log-density (valid inside the support)
        ref_ln: Box<dyn Fn(f64) -> f64>,
        /// logs of the individual textbook factors at x (representability filter)
        ln_factors: Box<dyn Fn(f64) -> Vec<f64>>,
        /// logs of every intermediate result of the textbook formula evaluated as it is printed
        /// (left to right, a quotient of products formed on its own): laws whose factors can come
        /// within a factor e^10 of the f64 range inside the parameter grid of the quantifier
        stages: Option<Box<dyn Fn(f64) -> Vec<f64>>>,
        /// evaluation points aimed at the edge of the f64 range of a single power factor
        edge_pts: Vec<f64>,
        cdf: Box<dyn Fn(f64) -> f64>,
        lo: f64,
        hi: f64,
        c: f64,
        s: f64,
        heavy: bool,
        /// textbook moments, only where finite *and* reachable by the truncated integration
        tmean: Option<f64>,
        tvar: Option<f64>,
        /// false where the density is singular at a non-zero support end: f64 arguments cannot
        /// resolve the singularity (Beta with b < 1 puts 1e-5 of its mass within one ulp of 1)
        moments_reachable: bool,
    }

    fn cmodel(sp_: &CSpec) -> Result<CModel, String> {
        let (a, b) = (sp_.a, sp_.b);
        let inf = f64::INFINITY;
        macro_rules! lib {
            ($d:expr) => {{
                let d = guard(|| $d)?;
                let m = guard(|| d.mean())?;
                let v = guard(|| d.var())?;
                (Box::new(move |x: f64| d.pdf(x)) as Box<dyn Fn(f64) -> f64>, Box::new(move |x: f64| d.ln_pdf(x)) as Box<dyn Fn(f64) -> f64>, m, v)
            }};
        }
        Ok(match sp_.law {
            CLaw::Normal => {
                let (pdf, ln_pdf, mean, var) = lib!(Normal::new(a, b));
                CModel {
                    pdf,
                    ln_pdf,
                    mean,
                    var,
                    ref_ln: Box::new(move |x| {
                        let z = (x - a) / b;
                        -0.5 * z * z - b.ln() - 0.5 * LN_2PI
                    }),
                    ln_factors: Box::new(move |x| {
                        let z = (x - a) / b;
                        vec![-b.ln() - 0.5 * LN_2PI, -0.5 * z * z]
                    }),
                    cdf: Box::new(move |x| sp::norm_cdf(x, a, b)),
                    lo: -inf,
                    hi: inf,
                    c: a,
                    s: b,
                    heavy: false,
                    tmean: Some(a),
                    tvar: Some(b * b),
                    moments_reachable: true,
                    stages: None,
                    edge_pts: Vec::new(),
                }
            }
            CLaw::Gamma => {
                let (pdf, ln_pdf, mean, var) = lib!(Gamma::new(a, b));
                let lg = sp::lgamma(a);
                CModel {
                    pdf,
                    ln_pdf,
                    mean,
                    var,
                    ref_ln: Box::new(move |x| a * b.ln() - lg + (a - 1.0) * x.ln() - b * x),
                    ln_factors: Box::new(move |x| vec![a * b.ln(), -lg, (a - 1.0) * x.ln(), -b * x]),
                    cdf: Box::new(move |x| sp::gamma_cdf(x, a, b)),
                    lo: 0.0,
                    hi: inf,
                    c: a / b,
                    s: a.sqrt().max(a) / b,
                    heavy: false,
                    tmean: Some(a / b),
                    tvar: Some(a / (b * b)),
                    moments_reachable: true,
                    // β^α / Γ(α) · x^(α−1) · e^(−βx)
                    stages: Some(Box::new(move |x| {
                        let (s0, p, e) = (a * b.ln(), (a - 1.0) * x.ln(), -b * x);
                        vec![s0, lg, s0 - lg, p, s0 - lg + p, e, s0 - lg + p + e]
                    })),
                    edge_pts: power_edge_points(a - 1.0),
                }
            }
            CLaw::Beta => {
                let (pdf, ln_pdf, mean, var) = lib!(Beta::new(a, b));
                let lb = sp::lbeta(a, b);
                let (la, lbb, lab) = (sp::lgamma(a), sp::lgamma(b), sp::lgamma(a + b));
                CModel {
                    pdf,
                    ln_pdf,
                    mean,
                    var,
                    ref_ln: Box::new(move |x| (a - 1.0) * x.ln() + (b - 1.0) * sp::log1p(-x) - lb),
                    ln_factors: Box::new(move |x| vec![(a - 1.0) * x.ln(), (b - 1.0) * sp::log1p(-x), -la, -lbb, lab]),
                    cdf: Box::new(move |x| sp::beta_cdf(x, a, b)),
                    lo: 0.0,
                    hi: 1.0,
                    c: a / (a + b),
                    s: 1.0,
                    heavy: false,
                    tmean: Some(a / (a + b)),
                    tvar: Some(a * b / ((a + b) * (a + b) * (a + b + 1.0))),
                    moments_reachable: b >= 1.0,
                    // x^(a-1) (1-x)^(b-1) / B(a,b), B(a,b) = Γ(a) Γ(b) / Γ(a+b)
                    stages: Some(Box::new(move |x| {
                        let (p, q) = ((a - 1.0) * x.ln(), (b - 1.0) * sp::log1p(-x));
                        vec![p, q, p + q, la, lbb, la + lbb, lab, la + lbb - lab, p + q - (la + lbb - lab)]
                    })),
                    edge_pts: Vec::new(),
                }
            }
            CLaw::Chi2 => {
                let k = a;
                let (pdf, ln_pdf, mean, var) = lib!(ChiSquared::new(k as usize));
                let h = k / 2.0;
                let lg = sp::lgamma(h);
                let ln2 = std::f64::consts::LN_2;
                CModel {
                    pdf,
                    ln_pdf,
                    mean,
                    var,
                    ref_ln: Box::new(move |x| -h * ln2 - lg + (h - 1.0) * x.ln() - x / 2.0),
                    ln_factors: Box::new(move |x| vec![-h * ln2, -lg, (h - 1.0) * x.ln(), -x / 2.0]),
                    cdf: Box::new(move |x| sp::chi2_cdf(x, k)),
                    lo: 0.0,
                    hi: inf,
                    c: k,
                    s: (2.0 * k).sqrt(),
                    heavy: false,
                    tmean: Some(k),
                    tvar: Some(2.0 * k),
                    moments_reachable: true,
                    // 1 / (2^(k/2) Γ(k/2)) · x^(k/2−1) · e^(−x/2)
                    stages: Some(Box::new(move |x| {
                        let (n, p, e) = (h * ln2 + lg, (h - 1.0) * x.ln(), -x / 2.0);
                        vec![h * ln2, lg, n, -n, p, p - n, e, p - n + e]
                    })),
                    edge_pts: power_edge_points(h - 1.0),
                }
            }
            CLaw::T => {
                let nu = a;
                let (pdf, ln_pdf, mean, var) = lib!(T::new(nu));
                let (l1, l2) = (sp::lgamma((nu + 1.0) / 2.0), sp::lgamma(nu / 2.0));
                CModel {
                    pdf,
                    ln_pdf,
                    mean,
                    var,
                    ref_ln: Box::new(move |x| l1 - l2 - 0.5 * (nu * std::f64::consts::PI).ln() - (nu + 1.0) / 2.0 * sp::log1p(x * x / nu)),
                    ln_factors: Box::new(move |x| vec![l1, -l2, -(nu + 1.0) / 2.0 * sp::log1p(x * x / nu)]),
                    cdf: Box::new(move |x| sp::t_cdf(x, nu)),
                    lo: -inf,
                    hi: inf,
                    c: 0.0,
                    s: 1.0,
                    heavy: true,
                    // tail of x^w f beyond 2^110 is X^(w−ν): negligible only with exponent margin >= 1/2
                    tmean: if nu >= 1.5 { Some(0.0) } else { None },
                    tvar: if nu >= 2.5 { Some(nu / (nu - 2.0)) } else { None },
                    moments_reachable: true,
                    stages: None,
                    edge_pts: Vec::new(),
                }
            }
            CLaw::Pareto => {
                let (al, xm) = (a, b);
                let (pdf, ln_pdf, mean, var) = lib!(Pareto::new(al, xm));
                CModel {
                    pdf,
                    ln_pdf,
                    mean,
                    var,
                    ref_ln: Box::new(move |x| al.ln() + al * xm.ln() - (al + 1.0) * x.ln()),
                    ln_factors: Box::new(move |x| vec![al * xm.ln(), -(al + 1.0) * x.ln()]),
                    cdf: Box::new(move |x| sp::pareto_cdf(x, al, xm)),
                    lo: xm,
                    hi: inf,
                    c: xm,
                    s: xm,
                    heavy: true,
                    tmean: if al >= 1.5 { Some(al * xm / (al - 1.0)) } else { None },
                    tvar: if al >= 2.5 { Some(xm * xm * al / ((al - 1.0) * (al - 1.0) * (al - 2.0))) } else { None },
                    moments_reachable: true,
                    stages: None,
                    edge_pts: Vec::new(),
                }
            }
            CLaw::Gumbel => {
                let (pdf, ln_pdf, mean, var) = lib!(Gumbel::new(a, b));
                CModel {
                    pdf,
                    ln_pdf,
                    mean,
                    var,
                    ref_ln: Box::new(move |x| {
                        let z = (x - a) / b;
                        -b.ln() - z - (-z).exp()
                    }),
                    ln_factors: Box::new(move |_x| vec![-b.ln()]),
                    cdf: Box::new(move |x| sp::gumbel_cdf(x, a, b)),
                    lo: -inf,
                    hi: inf,
                    c: a,
                    s: b,
                    heavy: false,
                    tmean: Some(a + b * EULER),
                    tvar: Some(std::f64::consts::PI * std::f64::consts::PI / 6.0 * b * b),
                    moments_reachable: true,
                    stages: None,
                    edge_pts: Vec::new(),
                }
            }
            CLaw::Exponential => {
                let (pdf, ln_pdf, mean, var) = lib!(Exponential::new(a));
                CModel {
                    pdf,
                    ln_pdf,
                    mean,
                    var,
                    ref_ln: Box::new(move |x| a.ln() - a * x),
                    ln_factors: Box::new(move |x| vec![a.ln(), -a * x]),
                    cdf: Box::new(move |x| sp::exp_cdf(x, a)),
                    lo: 0.0,
                    hi: inf,
                    c: 1.0 / a,
                    s: 1.0 / a,
                    heavy: false,
                    tmean: Some(1.0 / a),
                    tvar: Some(1.0 / (a * a)),
                    moments_reachable: true,
                    stages: None,
                    edge_pts: Vec::new(),
                }
            }
            CLaw::Uniform => {
                let (pdf, ln_pdf, mean, var) = lib!(Uniform::new(a, b));
                CModel {
                    pdf,
                    ln_pdf,
                    mean,
                    var,
                    ref_ln: Box::new(move |_x| -(b - a).ln()),
                    ln_factors: Box::new(move |_x| vec![-(b - a).ln()]),
                    cdf: Box::new(move |x| sp::unif_cdf(x, a, b)),
                    lo: a,
                    hi: b,
                    c: 0.5 * (a + b),
                    s: b - a,
                    heavy: false,
                    tmean: Some(0.5 * (a + b)),
                    tvar: Some((b - a) * (b - a) / 12.0),
                    moments_reachable: true,
                    stages: None,
                    edge_pts: Vec::new(),
                }
            }
        })
    }

    impl CModel {
        /// all textbook factors individually representable at x (or the density is below 1e-300 and
        /// no factor overflows, in which case 0 is the right answer to absolute 1e-300)
        fn representable(&self, x: f64) -> bool {
            let f = (self.ln_factors)(x);
            if f.iter().any(|v| v.is_nan()) {
                return false;
            }
            // every partial product of the textbook factors must be representable, whatever the
            // order of evaluation: sum of the positive logs and sum of the negative logs
            let pos: f64 = f.iter().filter(|v| **v > 0.0).sum();
            let neg: f64 = f.iter().filter(|v| **v < 0.0).sum();
            pos <= 700.0 && (neg >= -700.0 || (self.ref_ln)(x) <= -700.0)
        }
        /// Edge of the f64 range. The order-free rule above stops a factor e^10 short of the range
        /// on purpose; between there and the range itself a point is still judged when every
        /// intermediate result of the textbook formula *as printed* is a finite normal f64 (log in
        /// [-708, 709.7]; results may underflow when the density itself is below e^-700, where 0 is
        /// the right answer to absolute 1e-300). Superset of `representable`.
        fn representable_as_written(&self, x: f64) -> bool {
            let st = match &self.stages {
                Some(f) => f(x),
                None => return false,
            };
            if st.iter().any(|v| v.is_nan()) {
                return false;
            }
            st.iter().all(|v| *v <= LN_MAX_EDGE) && (st.iter().all(|v| *v >= LN_MIN_EDGE) || (self.ref_ln)(x) <= -700.0)
        }
        /// None = not judged; Some(false) = judged under the order-free rule; Some(true) = judged
        /// only under the as-printed rule (regime `<law>:factor-edge`)
        fn judged(&self, x: f64) -> Option<bool> {
            if self.representable(x) {
                Some(false)
            } else if self.representable_as_written(x) {
                Some(true)
            } else {
                None
            }
        }
        fn inside(&self, x: f64) -> bool {
            x > self.lo && x < self.hi
        }
        /// breakpoints for the moment integrals (see module docs): geometric towards finite support
        /// ends, doubling panels outwards from the centre; light tails are cut where the reference
        /// density is e^-80 below its largest value on the grid, heavy tails at 2^110 scale units.
        fn breakpoints(&self) -> Vec<f64> {
            let mut pts: Vec<f64> = vec![self.c];
            let kmax: i32 = if self.heavy { 110 } else { 12 };
            for k in -1000..=kmax {
                let d = self.s * 2f64.powi(k);
                if !(d >= 1e-305) {
                    continue;
                }
                // panels narrower than 2^10 ulp of the endpoint would have coinciding nodes
                if self.lo.is_finite() && d >= 1024.0 * f64::EPSILON * self.lo.abs() {
                    pts.push(self.lo + d);
                }
                if self.hi.is_finite() && d >= 1024.0 * f64::EPSILON * self.hi.abs() {
                    pts.push(self.hi - d);
                }
                if k >= -6 {
                    pts.push(self.c + d);
                    pts.push(self.c - d);
                    pts.push(self.c + 1.5 * d);
                    pts.push(self.c - 1.5 * d);
                }
            }
            // a support end at 0 may carry an integrable singularity (shape < 1): the ladder stops
            // at 1e-305 scale units, below which even x^-0.8 holds less than 1e-60 of the mass
            if self.lo.is_finite() && self.lo != 0.0 {
                pts.push(self.lo);
            }
            if self.hi.is_finite() {
                pts.push(self.hi);
            }
            pts.retain(|x| x.is_finite() && *x >= self.lo && *x <= self.hi);
            pts.sort_by(|p, q| p.partial_cmp(q).unwrap());
            pts.dedup();
            if !self.heavy {
                // proxy for the mass near a breakpoint: density × distance between its neighbours
                let n = pts.len();
                let w: Vec<f64> = (0..n)
                    .map(|i| {
                        let x = pts[i];
                        if !self.inside(x) {
                            return f64::NEG_INFINITY;
                        }
                        let span = pts[(i + 1).min(n - 1)] - pts[i.saturating_sub(1)];
                        (self.ref_ln)(x) + span.ln()
                    })
                    .collect();
                let peak = w.iter().cloned().filter(|v| v.is_finite()).fold(f64::NEG_INFINITY, f64::max);
                let keep: Vec<bool> = w.iter().map(|&l| l >= peak - 80.0).collect();
                let first = keep.iter().position(|&k| k).unwrap_or(0);
                let last = keep.iter().rposition(|&k| k).unwrap_or(n - 1);
                // one extra panel on each side so the cut sits below the threshold
                let lo_i = first.saturating_sub(1);
                let hi_i = (last + 1).min(n - 1);
                pts = pts[lo_i..=hi_i].to_vec();
            }
            pts
        }
    }

    fn cont_points(m: &CModel) -> (Vec<f64>, Vec<f64>, Vec<f64>) {
        let mut inside: Vec<f64> = LADDER.iter().map(|&p| quantile(&*m.cdf, p, m.lo, m.hi, m.c, m.s)).collect();
        for k in [50.0, 1e3, 1e6] {
            inside.push(m.c + k * m.s);
            inside.push(m.c - k * m.s);
        }
        inside.push(m.c);
        inside.extend(m.edge_pts.iter().cloned());
        let mut boundary = Vec::new();
        let mut outside = Vec::new();
        if m.lo.is_finite() {
            boundary.push(m.lo);
            inside.push(next_up(m.lo));
            inside.push(m.lo + 1e-9 * m.s);
            for x in [next_down(m.lo), m.lo - 1e-9 * m.s.min(m.lo.abs().max(1e-300)), m.lo - m.s, m.lo - 1e3 * m.s, -1.0 - m.lo.abs() * 2.0, -1e300] {
                outside.push(x);
            }
            if m.lo > 0.0 {
                outside.push(0.0);
                outside.push(0.5 * m.lo);
            }
        }
        if m.hi.is_finite() {
            boundary.push(m.hi);
            inside.push(next_down(m.hi));
            inside.push(m.hi - 1e-9 * m.s);
            for x in [next_up(m.hi), m.hi + 1e-9 * m.s, m.hi + m.s, m.hi + 1e3 * m.s, 1e300] {
                outside.push(x);
            }
        }
        inside.retain(|x| x.is_finite() && m.inside(*x));
        inside.sort_by(|p, q| p.partial_cmp(q).unwrap());
        inside.dedup();
        outside.retain(|x| x.is_finite() && (*x < m.lo || *x > m.hi));
        (inside, boundary, outside)
    }

    /// Points that coincide exactly with something the parameters name: the parameters themselves
    /// and their simple combinations, the textbook mean / mode / median, the mean and mean ± sd the
    /// library reports, whole numbers, and the lattice centre + k·scale/2. Only points inside the
    /// support that the ordinary ladder does not already contain are returned.
    fn coincidence_points(spec: &CSpec, m: &CModel, have: &[f64]) -> Vec<f64> {
        let (a, b) = (spec.a, spec.b);
        let mut v: Vec<f64> = vec![a, b, a + b, a - b, b - a, a * b, a / b, b / a, 1.0 / a, 1.0 / b, a - 1.0, b - 1.0, a / 2.0, a - 2.0, 0.5 * (a + b)];
        if let Some(t) = m.tmean {
            v.push(t);
        }
        if let (Some(t), Some(tv)) = (m.tmean, m.tvar) {
            v.push(t + tv.sqrt());
            v.push(t - tv.sqrt());
        }
        v.push(m.mean);
        v.push(m.mean + m.var.sqrt());
        v.push(m.mean - m.var.sqrt());
        // modes
        match spec.law {
            CLaw::Gamma => v.push((a - 1.0) / b),
            CLaw::Beta => v.push((a - 1.0) / (a + b - 2.0)),
            CLaw::Chi2 => v.push(a - 2.0),
            CLaw::Gumbel => v.push(a - b * (2f64.ln()).ln()), // median
            _ => {}
        }
        v.push(quantile(&*m.cdf, 0.5, m.lo, m.hi, m.c, m.s));
        for k in [0.0, 1.0, 2.0, 3.0, 5.0, 10.0, 100.0, 1000.0, 0.5, 0.25, 0.75] {
            v.push(k);
            v.push(-k);
        }
        for r in [m.c.floor(), m.c.ceil(), m.c.round()] {
            for k in [-2.0, -1.0, 0.0, 1.0, 2.0] {
                v.push(r + k);
            }
        }
        for k in -6..=6 {
            v.push(m.c + 0.5 * k as f64 * m.s);
        }
        v.retain(|x| x.is_finite() && m.inside(*x) && !have.iter().any(|h| h == x));
        v.sort_by(|p, q| p.partial_cmp(q).unwrap());
        v.dedup();
        v
    }

    /// Points at every distance scale from what the parameters locate: centre ± scale·10^(k/2) and
    /// (finite) support end + / − scale·10^(k/2) towards the inside, k = −24 … 2 (1e-12 … 10 scale
    /// units), as far as they lie inside the support and are not already in `have`.
    fn near_location_points(m: &CModel, have: &[f64]) -> Vec<f64> {
        let mut v: Vec<f64> = Vec::new();
        for k in -24..=2 {
            let d = m.s * 10f64.powf(0.5 * k as f64);
            v.push(m.c + d);
            v.push(m.c - d);
            if m.lo.is_finite() {
                v.push(m.lo + d);
            }
            if m.hi.is_finite() {
                v.push(m.hi - d);
            }
        }
        v.retain(|x| x.is_finite() && m.inside(*x) && !have.iter().any(|h| h == x));
        v.sort_by(|p, q| p.partial_cmp(q).unwrap());
        v.dedup();
        v
    }

    fn run_cont(spec: &CSpec, rep: &mut Report) {
        let regime = spec.regime();
        let law = spec.name();
        let params = json!({"law": law, "params": [spec.a, spec.b]});
        let m = match cmodel(spec) {
            Ok(m) => m,
            Err(msg) => {
                rep.case(&regime);
                rep.check("C02.construct.no_panic", &regime, false, || json!({"setting": params, "panic": msg}));
                return;
            }
        };
        rep.distinct(Hasher::new().s(law).f(spec.a).f(spec.b).finish(), true);
        rep.sample(|| json!({"setting": params, "regime": regime, "mean()": jnum(m.mean), "var()": jnum(m.var)}));
        let (inside, boundary, outside) = cont_points(&m);

        // (a) formula, non-negativity, ln_pdf at points of the support
        let mut formula_failures = 0u32;
        let base_regime = regime;
        let edge_regime = format!("{}:factor-edge", law);
        let coincide_regime = format!("{}:coincide", base_regime);
        let coincide = coincidence_points(spec, &m, &inside);
        let near_regime = format!("{}:near-location", base_regime);
        let near = {
            let mut have = inside.clone();
            have.extend(coincide.iter().cloned());
            near_location_points(&m, &have)
        };
        for (pi, &x) in inside.iter().chain(coincide.iter()).chain(near.iter()).enumerate() {
            let regime = match m.judged(x) {
                None => {
                    rep.note_add("skipped.points_with_unrepresentable_textbook_factor", 1.0);
                    continue;
                }
                Some(false) if pi >= inside.len() + coincide.len() => {
                    rep.seen(&format!("near-location:{}", law), 1);
                    &near_regime
                }
                Some(false) if pi >= inside.len() => {
                    rep.seen(&format!("coincide:{}", law), 1);
                    &coincide_regime
                }
                Some(false) => &base_regime,
                Some(true) => &edge_regime,
            };
            rep.case(regime);
            let got = match guard(|| (m.pdf)(x)) {
                Ok(v) => v,
                Err(msg) => {
                    rep.check("C02.pdf.no_panic", regime, false, || json!({"setting": params, "x": x, "panic": msg}));
                    continue;
                }
            };
            let want = (m.ref_ln)(x).exp();
            // NaN is left to the formula check: this assertion is about the sign only
            rep.check("C02.pdf.nonneg", regime, !(got < 0.0), || json!({"setting": params, "x": x, "observed": jnum(got), "expected": want}));
            // conditioning: a log-space evaluation carries eps·(sum of |log factors|) whatever the code
            let tol = FORMULA_TOL + 16.0 * f64::EPSILON * (m.ln_factors)(x).iter().map(|v| v.abs()).sum::<f64>().min(3000.0);
            let (ok, ratio) = close_rel(got, want, tol);
            if ok {
                rep.note_max(&format!("worst_ratio.pdf.formula:{}", regime), ratio);
            }
            if !ok {
                formula_failures += 1;
            }
            rep.check("C02.pdf.formula", regime, ok, || json!({"setting": params, "x": x, "observed": jnum(got), "expected": want, "rel_tol": tol}));
            // the log-density is judged at every point at which the density is judged
            if !got.is_nan() && got >= 0.0 {
                rep.seen(&format!("ln_pdf:support:{}", law), 1);
                match guard(|| (m.ln_pdf)(x)) {
                    Ok(l) => {
                        let ref_l = (m.ref_ln)(x);
                        // log-space image of the density tolerance (relative tol + absolute 1e-300)
                        let rel = tol + if want > 0.0 { 1e-300 / want } else { f64::INFINITY };
                        let fbound = FORMULA_TOL * ref_l.abs().max(1.0) + if rel < 0.1 { 2.0 * rel } else { 2.0 * tol };
                        let ferr = (l - ref_l).abs();
                        if got.is_finite() && got >= 1e-300 {
                            // against the logarithm of the density the library itself returns
                            let lw = got.ln();
                            let err = (l - lw).abs();
                            let bound = FORMULA_TOL * lw.abs().max(1.0);
                            if err <= bound {
                                rep.note_max("worst_ratio.ln_pdf", err / bound);
                            }
                            rep.check("C02.ln_pdf", regime, err <= bound, || json!({"setting": params, "x": x, "ln_pdf": jnum(l), "ln(pdf)": lw, "pdf": got}));
                            // and against the reference log-density
                            if rel < 0.1 {
                                if ferr <= fbound {
                                    rep.note_max("worst_ratio.ln_pdf.formula", ferr / fbound);
                                }
                                rep.check("C02.ln_pdf.formula", regime, ferr <= fbound, || json!({"setting": params, "x": x, "ln_pdf": jnum(l), "expected": ref_l, "abs_tol": fbound, "pdf": got}));
                            }
                        } else if got.is_finite() {
                            // far tails: the density is below 1e-300 (0 is right to absolute 1e-300).
                            // Either the logarithm of the value the library returns as density (−inf
                            // for an exact 0) or the reference log-density is accepted.
                            rep.seen(&format!("ln_pdf:underflow-tail:{}", law), 1);
                            let lw = got.ln();
                            let twin = if got == 0.0 { l == f64::NEG_INFINITY } else { (l - lw).abs() <= FORMULA_TOL * lw.abs() };
                            let closed = ferr <= fbound;
                            if l == f64::NEG_INFINITY && ref_l.is_finite() {
                                rep.note_add("evidence.ln_pdf.neg_inf_where_density_underflows", 1.0);
                            }
                            rep.check("C02.ln_pdf", regime, twin || closed, || json!({"setting": params, "x": x, "ln_pdf": jnum(l), "ln(pdf)": jnum(lw), "pdf": got, "reference_ln_density": ref_l, "abs_tol": fbound, "expected": "ln(pdf(x)) or the reference log-density"}));
                        }
                    }
                    Err(msg) => {
                        rep.check("C02.ln_pdf", regime, false, || json!({"setting": params, "x": x, "panic": msg}));
                    }
                }
            }
        }
        let regime = base_regime.clone();
        // (d) boundary: sane; strictly outside: exactly 0, no panic
        for &x in &boundary {
            // the constants of the formula must be representable for the boundary value to mean anything
            let nb = if x == m.lo { next_up(x) } else { next_down(x) };
            let regime = match m.judged(nb) {
                None => {
                    rep.note_add("skipped.points_with_unrepresentable_textbook_factor", 1.0);
                    continue;
                }
                Some(false) => &base_regime,
                Some(true) => &edge_regime,
            };
            rep.case(regime);
            let r = guard(|| (m.pdf)(x));
            let ok = matches!(r, Ok(v) if v >= 0.0);
            rep.check("C02.boundary.sane", regime, ok, || json!({"setting": params, "x": x, "observed": match &r { Ok(v) => jnum(*v), Err(e) => json!({"panic": e}) }, "expected": "no panic, not NaN, >= 0"}));
            // Ends that the library *documents* as belonging to the support (Uniform "[lower, upper]",
            // Beta "[0, 1]", Exponential "0 if x is negative", Pareto "0 if x < minval", ChiSquared
            // "non-negative x unless dof = 1") carry the textbook value there: the one-sided limit of
            // the formula (e.g. 1/2 for ChiSquared(2) at 0), whenever that limit is finite.
            let closed = match law {
                "uniform" | "beta" => true,
                "exponential" | "pareto" => x == m.lo,
                "chi2" => x == m.lo && spec.a >= 2.0,
                _ => false,
            };
            // the log-density at a support end is the logarithm of whatever the density is there
            // (−inf for 0, +inf at a singular end)
            if let (true, Ok(got)) = (ok, &r) {
                rep.seen(&format!("ln_pdf:boundary:{}", law), 1);
                let got = *got;
                match guard(|| (m.ln_pdf)(x)) {
                    Ok(l) => {
                        let lw = got.ln();
                        let okl = if got == 0.0 || got == f64::INFINITY { l == lw } else { (l - lw).abs() <= FORMULA_TOL * lw.abs().max(1.0) };
                        rep.check("C02.boundary.ln_pdf", regime, okl, || json!({"setting": params, "x": x, "ln_pdf": jnum(l), "ln(pdf)": jnum(lw), "pdf": jnum(got)}));
                    }
                    Err(msg) => {
                        rep.check("C02.boundary.ln_pdf", regime, false, || json!({"setting": params, "x": x, "panic": msg}));
                    }
                }
            }
            if let (true, Ok(got)) = (closed, &r) {
                // the limit is read off two points 1 and 4 ulps inside the support: equal values =
                // finite non-zero limit (the end value must match it), decreasing towards the end =
                // limit 0 (the end value must not exceed the inner one), increasing = singular (skipped)
                let nb2 = x + 4.0 * (nb - x);
                let (w1, w2) = ((m.ref_ln)(nb).exp(), (m.ref_ln)(nb2).exp());
                if w1.is_finite() && w2.is_finite() && w1 < 1e200 && m.judged(nb2).is_some() {
                    let verdict = if (w1 - w2).abs() <= 1e-9 * w1 {
                        Some((got - w1).abs() <= 1e-6 * w1)
                    } else if w1 < w2 {
                        Some(*got <= w1)
                    } else {
                        None
                    };
                    if let Some(okv) = verdict {
                        rep.check("C02.boundary.closed_end", regime, okv, || json!({"setting": params, "x": x, "observed": jnum(*got), "formula_1ulp_inside": jnum(w1), "formula_4ulp_inside": jnum(w2)}));
                    }
                }
            }
        }
        for &x in &outside {
            rep.case(&regime);
            let r = guard(|| (m.pdf)(x));
            let ok = matches!(r, Ok(v) if v == 0.0);
            rep.check("C02.outside.zero", &regime, ok, || json!({"setting": params, "x": x, "support": [jnum(m.lo), jnum(m.hi)], "observed": match &r { Ok(v) => jnum(*v), Err(e) => json!({"panic": e}) }, "expected": 0.0}));
            // the density is exactly 0 outside the support, so its logarithm is −inf (no panic, not
            // NaN, not a finite number)
            rep.seen(&format!("ln_pdf:outside:{}", law), 1);
            let rl = guard(|| (m.ln_pdf)(x));
            let okl = matches!(rl, Ok(v) if v == f64::NEG_INFINITY);
            rep.check("C02.outside.ln_pdf", &regime, okl, || json!({"setting": params, "x": x, "support": [jnum(m.lo), jnum(m.hi)], "observed": match &rl { Ok(v) => jnum(*v), Err(e) => json!({"panic": e}) }, "pdf": match &r { Ok(v) => jnum(*v), Err(e) => json!({"panic": e}) }, "expected": "-inf"}));
        }

        // (b) total mass and moments of the library's own pdf
        if formula_failures > 0 {
            // the pdf is already reported wrong; its moments would only repeat that finding under
            // further signatures (and hide nothing: once the pdf is right they are checked again)
            rep.note_add("skipped.moment_integrals_pdf_formula_failed", 1.0);
            return;
        }
        if !m.moments_reachable {
            rep.note_add("skipped.moment_integrals_singular_at_nonzero_endpoint", 1.0);
            return;
        }
        let bps = m.breakpoints();
        let nmom = 1 + m.tmean.is_some() as usize + (m.tmean.is_some() && m.tvar.is_some()) as usize;
        if bps.iter().any(|&x| m.inside(x) && m.judged(x).is_none()) {
            rep.note_add("skipped.moment_integrals_unrepresentable_factor", 1.0);
            return;
        }
        // integrals that run through the edge zone carry its label
        let regime = if bps.iter().any(|&x| m.inside(x) && m.judged(x) == Some(true)) { edge_regime } else { regime };
        let tol = 1e-13;
        let mut fref = |x: f64| if m.inside(x) { (m.ref_ln)(x).exp() } else { 0.0 };
        let r0 = integrate(&mut fref, &bps, m.c, m.s, tol, nmom);
        let sd = m.tvar.map(|v| v.sqrt()).unwrap_or(m.s);
        let raw_mean = |i: &Integral| m.c * i.m[0] + m.s * i.m[1];
        let central = |i: &Integral, mu: f64| {
            let d = (mu - m.c) / m.s;
            m.s * m.s * (i.m[2] - 2.0 * d * i.m[1] + d * d * i.m[0])
        };
        // integrator self-check on the reference density: must reproduce the textbook moments
        let mut self_ok = r0.converged && (r0.m[0] - 1.0).abs() <= 1e-9;
        if let Some(tm) = m.tmean {
            self_ok &= (raw_mean(&r0) - tm).abs() <= 1e-9 * tm.abs().max(sd);
        }
        if let Some(tv) = m.tvar {
            self_ok &= (central(&r0, raw_mean(&r0)) - tv).abs() <= 1e-9 * tv;
        }
        if !self_ok {
            rep.inconclusive(format!("integrator self-check failed for {} {:?}: mass {:e}, mean {:e} (textbook {:?}), var {:e} (textbook {:?}), converged {}", law, [spec.a, spec.b], r0.m[0], raw_mean(&r0), m.tmean, central(&r0, raw_mean(&r0)), m.tvar, r0.converged));
            return;
        }
        let r1 = match guard(|| {
            let mut f = |x: f64| (m.pdf)(x);
            integrate(&mut f, &bps, m.c, m.s, tol, nmom)
        }) {
            Ok(r) => r,
            Err(msg) => {
                rep.check("C02.pdf.no_panic", &regime, false, || json!({"setting": params, "while": "integrating the pdf", "panic": msg}));
                return;
            }
        };
        rep.case(&regime);
        rep.note_add("integrand_evaluations", r1.evals as f64);
        let mass = r1.m[0];
        let e = (mass - 1.0).abs();
        if e <= MOMENT_TOL {
            rep.note_max(&format!("worst_ratio.mass:{}", law), e / MOMENT_TOL);
        }
        rep.check("C02.mass", &regime, e <= MOMENT_TOL, || json!({"setting": params, "integral of pdf": jnum(mass), "expected": 1.0, "tolerance": MOMENT_TOL, "range": [bps[0], bps[bps.len() - 1]], "converged": r1.converged}));
        let mu = raw_mean(&r1);
        if m.mean.is_finite() {
            if let Some(tm) = m.tmean {
                let bound = MOMENT_TOL * tm.abs().max(sd);
                let e = (mu - m.mean).abs();
                if e <= bound {
                    rep.note_max(&format!("worst_ratio.mean:{}", law), e / bound);
                }
                rep.check("C02.mean.moment", &regime, e <= bound, || json!({"setting": params, "mean()": m.mean, "first moment of pdf": jnum(mu), "abs_tolerance": bound}));
            } else {
                rep.note_add("skipped.mean_not_reachable_by_truncated_integral", 1.0);
            }
        }
        if m.var.is_finite() {
            if let Some(tv) = m.tvar {
                let v = central(&r1, mu);
                let bound = MOMENT_TOL * tv;
                let e = (v - m.var).abs();
                if e <= bound {
                    rep.note_max(&format!("worst_ratio.var:{}", law), e / bound);
                }
                rep.check("C02.var.moment", &regime, e <= bound, || json!({"setting": params, "var()": m.var, "second central moment of pdf": jnum(v), "abs_tolerance": bound}));
            } else {
                rep.note_add("skipped.var_not_reachable_by_truncated_integral", 1.0);
            }
        }
    }

    fn cont_grid() -> Vec<CSpec> {
        let mut v = Vec::new();
        let shapes = [0.3, 0.5, 1.0, 2.5, 10.0, 60.0, 120.0];
        let rates = [1e-3, 0.1, 1.0, 7.0, 1e3];
        for &mu in &[0.0, -3.5, 1e3, -1e3] {
            for &sg in &[1e-3, 0.1, 1.0, 7.0, 1e3] {
                v.push(CSpec { law: CLaw::Normal, a: mu, b: sg });
            }
        }
        for &a in &shapes {
            for &b in &rates {
                v.push(CSpec { law: CLaw::Gamma, a, b });
            }
        }
        for &(a, b) in &[(150.0, 7.0), (160.0, 7.0), (143.0, 1.0)] {
            v.push(CSpec { law: CLaw::Gamma, a, b });
        }
        for &a in &shapes {
            for &b in &shapes {
                v.push(CSpec { law: CLaw::Beta, a, b });
            }
        }
        for &(a, b) in &[(75.0, 75.0), (120.0, 30.0), (2.5, 141.0)] {
            v.push(CSpec { law: CLaw::Beta, a, b });
        }
        for k in [1.0, 2.0, 3.0, 4.0, 5.0, 7.0, 10.0, 25.0, 60.0, 101.0, 150.0, 199.0, 200.0] {
            v.push(CSpec { law: CLaw::Chi2, a: k, b: 0.0 });
        }
        for nu in [0.5, 1.0, 1.5, 2.0, 2.5, 3.0, 4.0, 5.0, 10.0, 30.0, 100.0, 200.0] {
            v.push(CSpec { law: CLaw::T, a: nu, b: 0.0 });
        }
        for &al in &[0.3, 0.5, 1.0, 1.5, 2.5, 3.0, 10.0, 60.0] {
            for &xm in &[1e-3, 1.0, 7.0, 1e3] {
                v.push(CSpec { law: CLaw::Pareto, a: al, b: xm });
            }
        }
        for &mu in &[0.0, 2.5, 1e3, -1e3] {
            for &be in &[1e-3, 0.1, 1.0, 7.0, 1e3] {
                v.push(CSpec { law: CLaw::Gumbel, a: mu, b: be });
            }
        }
        for &l in &[1e-3, 0.1, 0.5, 1.0, 7.0, 1e3] {
            v.push(CSpec { law: CLaw::Exponential, a: l, b: 0.0 });
        }
        for &(a, b) in &[(0.0, 1.0), (-2.0, 6.0), (1e3, 1e3 + 1e-3), (-1e3, 1e3), (-1e3, -999.0), (0.0, 1e-3), (5.0, 1e3)] {
            v.push(CSpec { law: CLaw::Uniform, a, b });
        }
        v
    }

    /// Settings whose textbook factors come close to the end of the f64 range on the inside: the
    /// scale factor β^α (α·ln β up to ±709), Γ(α) up to α = 171.5, power factors x^(α−1) that
    /// cross e^700..e^709.7 inside the bulk (slow rates), Beta shapes with α+β up to 171.6 in both
    /// orders, χ² with many degrees of freedom. Every setting lies inside the parameter ranges of the
    /// quantifier (rates 1e-3..1e3, dof <= 200); points are judged one by one by `CModel::judged`.
    fn edge_grid() -> Vec<CSpec> {
        let mut v = Vec::new();
        let shapes = [20.0f64, 30.0, 45.0, 53.0, 58.0, 61.0, 65.0, 72.0, 80.0, 90.0, 101.0, 102.0, 110.0, 130.0, 142.0, 150.0, 160.0, 165.0, 170.0, 171.0, 171.5];
        for &a in &shapes {
            let mut rates = vec![1e-3, 1e-2, 0.1, 1.0, 7.0, 63.0, 1e2, 1e3];
            for t in [-707.5f64, -703.0, -690.0, 690.0, 703.0, 707.5, 709.5] {
                let b = (t / a).exp();
                if (1e-3..=1e3).contains(&b) {
                    rates.push(b);
                }
            }
            for &b in &rates {
                if let Some(s) = gamma_edge_ok(a, b) {
                    v.push(s);
                }
            }
        }
        for &sum in &[143.0, 150.0, 160.0, 165.0, 168.0, 170.0, 170.9, 171.0, 171.2, 171.4, 171.55, 171.6] {
            for &f in &[0.006, 0.03, 0.1, 0.25, 0.357, 0.45, 0.5] {
                let (a, b) = (f * sum, sum - f * sum);
                v.push(CSpec { law: CLaw::Beta, a, b });
                if a != b {
                    v.push(CSpec { law: CLaw::Beta, a: b, b: a });
                }
            }
        }
        for k in [120.0, 140.0, 160.0, 170.0, 180.0, 190.0, 195.0, 198.0] {
            v.push(CSpec { law: CLaw::Chi2, a: k, b: 0.0 });
        }
        v
    }

    /// Gamma(a, b) if β^α and β^α/Γ(α) are finite normal numbers (otherwise no point can be judged)
    fn gamma_edge_ok(a: f64, b: f64) -> Option<CSpec> {
        let s0 = a * b.ln();
        let lg = sp::lgamma(a);
        if (LN_MIN_EDGE..=LN_MAX_EDGE).contains(&s0) && lg <= LN_MAX_EDGE && (LN_MIN_EDGE..=LN_MAX_EDGE).contains(&(s0 - lg)) {
            Some(CSpec { law: CLaw::Gamma, a, b })
        } else {
            None
        }
    }

    /// random settings of the same family (thorough tier)
    fn edge_random(rng: &mut Rng) -> Option<CSpec> {
        match rng.usize(0, 2) {
            0 => {
                let a = rng.range(20.0, 171.6);
                let b = if rng.bool() {
                    rng.log_range(1e-3, 1e3)
                } else {
                    // aim α·ln β at the last e^30 before either end of the range
                    let t = rng.range(680.0, 709.7) * if rng.bool() { 1.0 } else { -1.0 };
                    (t / a).exp().clamp(1e-3, 1e3)
                };
                gamma_edge_ok(a, b)
            }
            1 => {
                let sum = if rng.bool() { rng.range(142.57, 171.62) } else { rng.range(168.0, 171.62) };
                let f = rng.range(0.005, 0.995);
                Some(CSpec { law: CLaw::Beta, a: f * sum, b: sum - f * sum })
            }
            _ => Some(CSpec { law: CLaw::Chi2, a: rng.int(100, 200) as f64, b: 0.0 }),
        }
    }

    /// random settings inside the regimes of the quantifier (thorough tier)
    fn cont_random(rng: &mut Rng) -> CSpec {
        let loc = |rng: &mut Rng| if rng.chance(0.3) { rng.range(-1e3, 1e3) } else { rng.range(-10.0, 10.0) };
        match rng.usize(0, 8) {
            0 => CSpec { law: CLaw::Normal, a: loc(rng), b: rng.log_range(1e-3, 1e3) },
            1 => {
                let a = if rng.chance(0.1) { 1.0 } else { rng.log_range(0.2, 170.0) };
                // keep beta^alpha representable
                let bmax = (600.0 / a).exp().min(1e3);
                CSpec { law: CLaw::Gamma, a, b: rng.log_range((1.0 / bmax).max(1e-3), bmax) }
            }
            2 => {
                let s = |rng: &mut Rng| if rng.chance(0.1) { 1.0 } else { rng.log_range(0.2, 120.0) };
                CSpec { law: CLaw::Beta, a: s(rng), b: s(rng) }
            }
            3 => CSpec { law: CLaw::Chi2, a: rng.int(1, 200) as f64, b: 0.0 },
            4 => CSpec { law: CLaw::T, a: if rng.bool() { rng.int(1, 200) as f64 } else { rng.log_range(0.5, 200.0) }, b: 0.0 },
            5 => CSpec { law: CLaw::Pareto, a: rng.log_range(0.3, 60.0), b: rng.log_range(1e-3, 1e3) },
            6 => CSpec { law: CLaw::Gumbel, a: loc(rng), b: rng.log_range(1e-3, 1e3) },
            7 => CSpec { law: CLaw::Exponential, a: rng.log_range(1e-3, 1e3), b: 0.0 },
            _ => {
                let a = loc(rng);
                CSpec { law: CLaw::Uniform, a, b: a + rng.log_range(1e-3, 1e3) }
            }
        }
    }

    // -----------------------------------------------------------------------------------------
    // discrete laws

    #[derive(Clone, Copy, Debug, PartialEq)]
    enum DLaw {
        Poisson,
        Binomial,
        Bernoulli,
        DiscreteUniform,
    }

    #[derive(Clone, Copy, Debug)]
    struct DSpec {
        law: DLaw,
        a: f64,
        b: f64,
    }

    impl DSpec {
        fn name(&self) -> &'static str {
            match self.law {
                DLaw::Poisson => "poisson",
                DLaw::Binomial => "binomial",
                DLaw::Bernoulli => "bernoulli",
                DLaw::DiscreteUniform => "discreteuniform",
            }
        }
        fn regime(&self) -> String {
            match self.law {
                // beyond lambda = 60 the textbook factors lambda^k, k! leave the f64 range inside
                // the bulk of the distribution (100^155 = inf at a point of mass 2e-7)
                DLaw::Poisson => if self.a <= 60.0 { "poisson:lambda<=60".into() } else { "poisson:lambda>60".into() },
                // C(n, n/2) fits u64 up to n = 67
                DLaw::Binomial => if self.a <= 67.0 { "binomial:n<=67".into() } else { "binomial:n>67".into() },
                DLaw::Bernoulli => "bernoulli".into(),
                DLaw::DiscreteUniform => {
                    if ((self.a + self.b) as i64) % 2 == 0 {
                        "discreteuniform:even-sum".into()
                    } else {
                        "discreteuniform:odd-sum".into()
                    }
                }
            }
        }
    }

    struct DModel {
        pmf: Box<dyn Fn(i64) -> f64>,
        mean: f64,
        var: f64,
        /// summation range (the whole support, or 0..kmax with reference tail < 1e-20)
        lo: i64,
        hi: i64,
        /// true if the support ends at `hi` (counts above it are outside)
        bounded_above: bool,
        /// reference pmf on lo..=hi
        reference: Vec<f64>,
        tmean: f64,
        tvar: f64,
    }

    /// weights by the ratio recurrence outwards from the mode, normalised in double-double
    fn normalised(lo: i64, hi: i64, mode: i64, ratio_up: &dyn Fn(i64) -> Dd) -> Vec<f64> {
        let n = (hi - lo + 1) as usize;
        let mut w = vec![Dd::ZERO; n];
        let mi = (mode - lo) as usize;
        w[mi] = Dd::ONE;
        for k in mode..hi {
            // w[k+1] = w[k] * r(k)
            let i = (k - lo) as usize;
            w[i + 1] = if w[i].hi > 1e-290 { w[i] * ratio_up(k) } else { Dd::new(w[i].hi * ratio_up(k).hi) };
        }
        for k in (lo..mode).rev() {
            let i = (k - lo) as usize;
            w[i] = if w[i + 1].hi > 1e-290 { w[i + 1] / ratio_up(k) } else { Dd::new(w[i + 1].hi / ratio_up(k).hi) };
        }
        let mut s = Dd::ZERO;
        for x in &w {
            s = s + *x;
        }
        w.iter().map(|x| (*x / s).f()).collect()
    }

    fn dmodel(sp_: &DSpec) -> Result<DModel, String> {
        let (a, b) = (sp_.a, sp_.b);
        macro_rules! lib {
            ($d:expr) => {{
                let d = guard(|| $d)?;
                let m = guard(|| d.mean())?;
                let v = guard(|| d.var())?;
                (Box::new(move |k: i64| d.pmf(k)) as Box<dyn Fn(i64) -> f64>, m, v)
            }};
        }
        Ok(match sp_.law {
            DLaw::Poisson => {
                let (pmf, mean, var) = lib!(Poisson::new(a));
                let hi = (a + 40.0 * a.sqrt() + 60.0).ceil() as i64;
                let la = Dd::new(a);
                let reference = normalised(0, hi, a.floor() as i64, &|k| la / Dd::new(k as f64 + 1.0));
                DModel { pmf, mean, var, lo: 0, hi, bounded_above: false, reference, tmean: a, tvar: a }
            }
            DLaw::Binomial => {
                let n = a as i64;
                let p = b;
                let (pmf, mean, var) = lib!(Binomial::new(n as u64, p));
                let reference = if p <= 0.0 {
                    (0..=n).map(|k| if k == 0 { 1.0 } else { 0.0 }).collect()
                } else if p >= 1.0 {
                    (0..=n).map(|k| if k == n { 1.0 } else { 0.0 }).collect()
                } else {
                    let odds = Dd::new(p) / (Dd::ONE - Dd::new(p));
                    let mode = (((n + 1) as f64) * p).floor().min(n as f64) as i64;
                    normalised(0, n, mode, &|k| Dd::new((n - k) as f64) / Dd::new(k as f64 + 1.0) * odds)
                };
                DModel { pmf, mean, var, lo: 0, hi: n, bounded_above: true, reference, tmean: n as f64 * p, tvar: n as f64 * p * (1.0 - p) }
            }
            DLaw::Bernoulli => {
                let (pmf, mean, var) = lib!(Bernoulli::new(a));
                DModel { pmf, mean, var, lo: 0, hi: 1, bounded_above: true, reference: vec![1.0 - a, a], tmean: a, tvar: a * (1.0 - a) }
            }
            DLaw::DiscreteUniform => {
                let (lo, hi) = (a as i64, b as i64);
                let (pmf, mean, var) = lib!(DiscreteUniform::new(lo, hi));
                let n = (hi - lo + 1) as f64;
                DModel { pmf, mean, var, lo, hi, bounded_above: true, reference: vec![1.0 / n; n as usize], tmean: 0.5 * (a + b), tvar: (n * n - 1.0) / 12.0 }
            }
        })
    }

    fn run_disc(spec: &DSpec, rep: &mut Report) {
        let regime = spec.regime();
        let law = spec.name();
        let params = json!({"law": law, "params": [spec.a, spec.b]});
        let m = match dmodel(spec) {
            Ok(m) => m,
            Err(msg) => {
                rep.case(&regime);
                rep.check("C02.construct.no_panic", &regime, false, || json!({"setting": params, "panic": msg}));
                return;
            }
        };
        rep.distinct(Hasher::new().s(law).f(spec.a).f(spec.b).finish(), true);
        rep.sample(|| json!({"setting": params, "regime": regime, "mean()": jnum(m.mean), "var()": jnum(m.var)}));
        // cross-check of the recurrence reference with the lgamma closed form (oracle vs oracle)
        for (i, &w) in m.reference.iter().enumerate() {
            let k = (m.lo + i as i64) as f64;
            let alt = match spec.law {
                DLaw::Poisson => sp::poisson_ln_pmf(k, spec.a).exp(),
                DLaw::Binomial => sp::binom_ln_pmf(k, spec.a, spec.b).exp(),
                _ => w,
            };
            if w > 1e-250 && (alt / w - 1.0).abs() > 1e-9 {
                rep.inconclusive(format!("pmf references disagree for {} {:?} at k={}: {:e} vs {:e}", law, [spec.a, spec.b], k, w, alt));
                return;
            }
        }
        // (a) every point of the summation range
        let mut formula_failures = 0u32;
        let (mut s0, mut s1) = (Dd::ZERO, Dd::ZERO);
        let mut vals: Vec<f64> = Vec::with_capacity(m.reference.len());
        for (i, &want) in m.reference.iter().enumerate() {
            let k = m.lo + i as i64;
            rep.case(&regime);
            let got = match guard(|| (m.pmf)(k)) {
                Ok(v) => v,
                Err(msg) => {
                    formula_failures += 1;
                    vals.push(f64::NAN);
                    rep.check("C02.pmf.no_panic", &regime, false, || json!({"setting": params, "k": k, "panic": msg, "expected": want}));
                    continue;
                }
            };
            vals.push(got);
            rep.check("C02.pmf.nonneg", &regime, !(got < 0.0), || json!({"setting": params, "k": k, "observed": jnum(got), "expected": want}));
            // conditioning: a log-space evaluation carries eps·(sum of |log terms|) whatever the code
            let kf = k as f64;
            let terms = match spec.law {
                DLaw::Poisson => kf * spec.a.ln().abs() + spec.a + sp::lgamma(kf + 1.0).abs(),
                DLaw::Binomial if spec.b > 0.0 && spec.b < 1.0 => sp::lgamma(spec.a + 1.0) + sp::lgamma(kf + 1.0) + sp::lgamma(spec.a - kf + 1.0) + kf * spec.b.ln().abs() + (spec.a - kf) * sp::log1p(-spec.b).abs(),
                _ => 0.0,
            };
            let tol = FORMULA_TOL + 16.0 * f64::EPSILON * terms;
            let (ok, ratio) = close_rel(got, want, tol);
            if ok {
                rep.note_max(&format!("worst_ratio.pmf.formula:{}", regime), ratio);
            } else {
                formula_failures += 1;
            }
            rep.check("C02.pmf.formula", &regime, ok, || json!({"setting": params, "k": k, "observed": jnum(got), "expected": want, "rel_tol": tol}));
            s0 = s0 + Dd::new(got);
            s1 = s1 + Dd::new(got) * (k as f64 - m.tmean);
        }
        // far tail of an unbounded support: the true value is below 1e-300
        if !m.bounded_above {
            for k in [m.hi + 1000, 1i64 << 40] {
                rep.case(&regime);
                let r = guard(|| (m.pmf)(k));
                let ok = matches!(r, Ok(v) if v >= 0.0 && v <= 1e-300);
                rep.check("C02.pmf.formula", &regime, ok, || json!({"setting": params, "k": k, "observed": match &r { Ok(v) => jnum(*v), Err(e) => json!({"panic": e}) }, "expected": "0 (true value < 1e-300)"}));
            }
        }
        // (d) strictly outside the support: exactly 0, no panic
        let mut outside: Vec<(i64, String)> = Vec::new();
        let below = if spec.law == DLaw::Binomial { "binomial:k<0".to_string() } else { regime.clone() };
        let above = if spec.law == DLaw::Binomial { "binomial:k>n".to_string() } else { regime.clone() };
        for d in [1i64, 2, 1000, 1 << 40] {
            outside.push((m.lo - d, below.clone()));
            if m.bounded_above {
                outside.push((m.hi + d, above.clone()));
            }
        }
        for (k, reg) in outside {
            rep.case(&reg);
            let r = guard(|| (m.pmf)(k));
            let ok = matches!(r, Ok(v) if v == 0.0);
            rep.check("C02.outside.zero", &reg, ok, || json!({"setting": params, "k": k, "support": [m.lo, if m.bounded_above { json!(m.hi) } else { json!("inf") }], "observed": match &r { Ok(v) => jnum(*v), Err(e) => json!({"panic": e}) }, "expected": 0.0}));
        }
        // (b) mass and moments of the library's own pmf
        if formula_failures > 0 {
            rep.note_add("skipped.moment_sums_pmf_formula_failed", 1.0);
            return;
        }
        rep.case(&regime);
        let sd = m.tvar.sqrt();
        let mass = s0.f();
        let e = (mass - 1.0).abs();
        if e <= MOMENT_TOL {
            rep.note_max(&format!("worst_ratio.mass:{}", law), e / MOMENT_TOL);
        }
        rep.check("C02.mass", &regime, e <= MOMENT_TOL, || json!({"setting": params, "sum of pmf": jnum(mass), "expected": 1.0, "tolerance": MOMENT_TOL, "range": [m.lo, m.hi]}));
        let mu = m.tmean * mass + s1.f();
        if m.mean.is_finite() {
            let bound = MOMENT_TOL * m.tmean.abs().max(sd) + 1e-300;
            let e = (mu - m.mean).abs();
            if e <= bound {
                rep.note_max(&format!("worst_ratio.mean:{}", law), e / bound);
            }
            rep.check("C02.mean.moment", &regime, e <= bound, || json!({"setting": params, "mean()": m.mean, "first moment of pmf": jnum(mu), "abs_tolerance": bound}));
        }
        if m.var.is_finite() {
            let mut s2 = Dd::ZERO;
            for (i, &v) in vals.iter().enumerate() {
                let d = (m.lo + i as i64) as f64 - mu;
                s2 = s2 + Dd::new(v) * Dd::prod(d, d);
            }
            let v = s2.f();
            let bound = MOMENT_TOL * m.tvar + 1e-300;
            let e = (v - m.var).abs();
            if e <= bound {
                rep.note_max(&format!("worst_ratio.var:{}", law), e / bound);
            }
            rep.check("C02.var.moment", &regime, e <= bound, || json!({"setting": params, "var()": m.var, "second central moment of pmf": jnum(v), "abs_tolerance": bound}));
        }
    }

    fn disc_grid() -> Vec<DSpec> {
        let mut v = Vec::new();
        for l in [1e-3, 0.1, 1.0, 7.0, 30.0, 60.0, 100.0, 300.0, 1e3] {
            v.push(DSpec { law: DLaw::Poisson, a: l, b: 0.0 });
        }
        for n in [1.0, 2.0, 10.0, 67.0, 68.0, 200.0, 1000.0] {
            for p in [0.0, 1e-3, 0.3, 0.5, 0.97, 1.0] {
                v.push(DSpec { law: DLaw::Binomial, a: n, b: p });
            }
        }
        for p in [0.0, 1e-3, 0.3, 0.5, 0.75, 0.97, 1.0] {
            v.push(DSpec { law: DLaw::Bernoulli, a: p, b: 0.0 });
        }
        for (lo, hi) in [(0.0, 1.0), (-2.0, 6.0), (1.0, 6.0), (0.0, 9.0), (-2.0, 5.0), (-1000.0, 1000.0), (-1000.0, -999.0), (999.0, 1000.0), (-1000.0, -995.0), (3.0, 3.0), (-7.0, -7.0), (0.0, 1000.0)] {
            v.push(DSpec { law: DLaw::DiscreteUniform, a: lo, b: hi });
        }
        v
    }

    fn disc_random(rng: &mut Rng) -> DSpec {
        match rng.usize(0, 3) {
            0 => DSpec { law: DLaw::Poisson, a: rng.log_range(1e-3, 1e3), b: 0.0 },
            1 => {
                let n = if rng.bool() { rng.int(1, 67) } else { rng.int(68, 1000) } as f64;
                let p = match rng.usize(0, 3) {
                    0 => rng.log_range(1e-3, 0.5),
                    1 => 1.0 - rng.log_range(1e-3, 0.5),
                    _ => rng.f64(),
                };
                DSpec { law: DLaw::Binomial, a: n, b: p }
            }
            2 => DSpec { law: DLaw::Bernoulli, a: rng.f64(), b: 0.0 },
            _ => {
                let lo = rng.int(-1000, 1000);
                let hi = if rng.bool() { (lo + rng.int(0, 12)).min(1000) } else { rng.int(lo, 1000) };
                DSpec { law: DLaw::DiscreteUniform, a: lo as f64, b: hi as f64 }
            }
        }
    }

    // -----------------------------------------------------------------------------------------
    // Normal::cdf = integral of Normal::pdf (and = erfc form)

    /// Normal::cdf at every distance scale from the location: standardised arguments
    /// z = ±10^(k/8), k = −128 … 0 (1e-16 … 1, eight per decade) and ±2^−j, j = 1 … 60; the argument
    /// actually passed is fl(mu + z sigma), and both references are evaluated at that argument.
    fn run_normal_cdf_scales(mu: f64, sigma: f64, rep: &mut Report) {
        let mut xs: Vec<f64> = Vec::new();
        for k in -128..=0 {
            let z = 10f64.powf(k as f64 / 8.0);
            xs.push(mu + z * sigma);
            xs.push(mu - z * sigma);
        }
        for j in 1..=60 {
            let z = 0.5f64.powi(j);
            xs.push(mu + z * sigma);
            xs.push(mu - z * sigma);
        }
        xs.retain(|x| x.is_finite());
        let band = if sigma < 1e-2 { "sigma<1e-2" } else if sigma <= 1e2 { "1e-2<=sigma<=1e2" } else { "sigma>1e2" };
        rep.seen(&format!("normal_cdf:near-location:{}", band), 1);
        if mu.abs() >= 100.0 {
            rep.seen("normal_cdf:near-location:|mu|>=100", 1);
        }
        normal_cdf_at(mu, sigma, xs, "normal:cdf:near-location", rep);
    }

    fn run_normal_cdf(mu: f64, sigma: f64, rep: &mut Report) {
        let mut xs: Vec<f64> = LADDER.iter().map(|&p| quantile(&|x| sp::norm_cdf(x, mu, sigma), p, f64::NEG_INFINITY, f64::INFINITY, mu, sigma)).collect();
        for k in [0.0, 1e-3, 0.5, 3.0, 5.0, 8.0, 12.0, 38.0, 1e3] {
            xs.push(mu + k * sigma);
            xs.push(mu - k * sigma);
        }
        // whole numbers next to the location and around 0 (exact coincidences with the lattice)
        for k in [-1.0, 0.0, 1.0] {
            xs.push(mu.round() + k);
            xs.push(k);
        }
        normal_cdf_at(mu, sigma, xs, "normal", rep);
    }

    fn normal_cdf_at(mu: f64, sigma: f64, mut xs: Vec<f64>, regime: &str, rep: &mut Report) {
        let params = json!({"law": "normal", "params": [mu, sigma]});
        let d = match guard(|| Normal::new(mu, sigma)) {
            Ok(d) => d,
            Err(_) => return,
        };
        rep.distinct(Hasher::new().s("normal_cdf").s(regime).f(mu).f(sigma).finish(), true);
        xs.sort_by(|p, q| p.partial_cmp(q).unwrap());
        xs.dedup();
        // running quadrature of the library's pdf from mu − 40 sigma upwards
        let lower = mu - 40.0 * sigma;
        let mut acc = 0.0f64;
        let mut at = lower;
        for &x in &xs {
            rep.case(regime);
            let got = match guard(|| d.cdf(x)) {
                Ok(v) => v,
                Err(msg) => {
                    rep.check("C02.normal_cdf.no_panic", regime, false, || json!({"setting": params, "x": x, "panic": msg}));
                    continue;
                }
            };
            let want = sp::norm_cdf(x, mu, sigma);
            let e = (got - want).abs();
            if e <= CDF_TOL {
                rep.note_max("worst_ratio.normal_cdf.erfc", e / CDF_TOL);
            }
            rep.check("C02.normal_cdf.erfc", regime, e <= CDF_TOL, || json!({"setting": params, "x": x, "cdf": jnum(got), "expected": want, "abs_tol": CDF_TOL}));
            let upto = x.min(mu + 40.0 * sigma);
            if upto > at {
                let mut bps = vec![at];
                let mut t = ((at - mu) / sigma).floor() + 1.0;
                while mu + t * sigma < upto {
                    if mu + t * sigma > at {
                        bps.push(mu + t * sigma);
                    }
                    t += 1.0;
                }
                bps.push(upto);
                let mut f = |t: f64| d.pdf(t);
                match guard(|| integrate(&mut f, &bps, mu, sigma, 1e-13, 1)) {
                    Ok(r) => acc += r.m[0],
                    Err(msg) => {
                        rep.check("C02.pdf.no_panic", regime, false, || json!({"setting": params, "while": "integrating the pdf", "panic": msg}));
                        return;
                    }
                }
                at = upto;
            }
            let q = if x < lower { 0.0 } else { acc };
            let e = (got - q).abs();
            if e <= CDF_TOL {
                rep.note_max("worst_ratio.normal_cdf.quadrature", e / CDF_TOL);
            }
            rep.check("C02.normal_cdf.quadrature", regime, e <= CDF_TOL, || json!({"setting": params, "x": x, "cdf": jnum(got), "integral of pdf from mu-40sigma": jnum(q), "abs_tol": CDF_TOL}));
        }
    }

    // -----------------------------------------------------------------------------------------
    // multivariate normal

    /// Row permutation chosen by partial-pivoting LU (column-wise Crout order) of `a`; only used to
    /// *label* the case: `Matrix::det` takes its sign from the parity of this permutation, and a
    /// pivot permutation with a cycle of length >= 4 is a class of its own (see C11, `ipiv_parity`).
    fn lu_pivot_longest_cycle(a: &[f64], n: usize) -> usize {
        let mut lu = a.to_vec();
        let mut piv: Vec<usize> = (0..n).collect();
        for j in 0..n {
            for i in 0..n {
                let mut s = 0.0;
                for k in 0..i.min(j) {
                    s += lu[i * n + k] * lu[k * n + j];
                }
                lu[i * n + j] -= s;
            }
            let mut p = j;
            for i in (j + 1)..n {
                if lu[i * n + j].abs() > lu[p * n + j].abs() {
                    p = i;
                }
            }
            if p != j {
                for k in 0..n {
                    lu.swap(p * n + k, j * n + k);
                }
                piv.swap(p, j);
            }
            if lu[j * n + j] != 0.0 {
                for i in (j + 1)..n {
                    lu[i * n + j] /= lu[j * n + j];
                }
            }
        }
        let mut seen = vec![false; n];
        let mut longest = 0;
        for s in 0..n {
            let (mut k, mut len) = (s, 0);
            while !seen[k] {
                seen[k] = true;
                k = piv[k];
                len += 1;
            }
            longest = longest.max(len);
        }
        longest
    }

    fn run_mvn(rng: &mut Rng, d: usize, rep: &mut Report) {
        // random SPD covariance: G'G·scale + delta·I, mirrored so that it is symmetric to the bit
        let g: Vec<f64> = rng.normals(d * d);
        let scale = rng.log_range(1e-2, 1e2);
        let delta = scale * rng.log_range(1e-2, 1.0);
        let mut cov = vec![0.0; d * d];
        for i in 0..d {
            for j in 0..=i {
                let mut s = 0.0;
                for k in 0..d {
                    s += g[k * d + i] * g[k * d + j];
                }
                let v = s * scale + if i == j { delta } else { 0.0 };
                cov[i * d + j] = v;
                cov[j * d + i] = v;
            }
        }
        let regime = if lu_pivot_longest_cycle(&cov, d) >= 4 { "mvn:lu-pivot-cycle>=4".to_string() } else { format!("mvn:d={}", d) };
        let big_loc = rng.chance(0.3);
        let mean: Vec<f64> = (0..d).map(|_| if big_loc { rng.range(-1e3, 1e3) } else { rng.range(-10.0, 10.0) }).collect();
        let setting = json!({"dim": d, "mean": jf(&mean), "cov": jf(&cov)});
        let l = match linref::cholesky(&cov, d) {
            Some(l) => l,
            None => {
                rep.inconclusive("generated covariance not SPD for the reference Cholesky".into());
                return;
            }
        };
        let kappa = linref::cond_inf(&cov, d);
        let logdet: f64 = 2.0 * (0..d).map(|i| l[i * d + i].ln()).sum::<f64>();
        rep.distinct(Hasher::new().s("mvn").fs(&cov).fs(&mean).finish(), true);
        let mvn = match guard(|| MVN::new(mean.clone(), Matrix::new(cov.clone(), d as i32, d as i32))) {
            Ok(m) => m,
            Err(msg) => {
                rep.case(&regime);
                rep.check("C02.construct.no_panic", &regime, false, || json!({"setting": setting, "panic": msg}));
                return;
            }
        };
        rep.sample(|| json!({"setting": setting, "regime": regime, "cond_inf": kappa}));
        // mean()/var() are the parameters themselves
        {
            let mr = &mvn;
            let m: &[f64] = mr.mean();
            let v: &Matrix = mr.var();
            let ok = m == &mean[..] && v.data.v == cov && v.nrows == d && v.ncols == d;
            rep.case(&regime);
            rep.check("C02.mvn.moments", &regime, ok, || json!({"setting": setting, "mean()": jf(m), "var()": jf(&v.data.v)}));
        }
        let rf = MvnRef { d, mean: &mean, l: &l, kappa, logdet, slack: 1.0, setting: &setting };
        for t in [0.0, 0.3, 1.0, 1.0, 2.0, 3.0, 6.0, 12.0, 45.0] {
            // x = mean + t · L z
            let z = rng.normals(d);
            let mut x = mean.clone();
            for i in 0..d {
                for j in 0..=i {
                    x[i] += t * l[i * d + j] * z[j];
                }
            }
            mvn_check_point(rep, &regime, &mvn, &rf, &x);
        }
    }

    /// The harness's own description of one MVN setting: Cholesky factor of the requested covariance
    /// (double-double accumulation), its condition number and log-determinant.
    struct MvnRef<'a> {
        d: usize,
        mean: &'a [f64],
        l: &'a [f64],
        kappa: f64,
        logdet: f64,
        /// factor on the a-priori error bound (1 except for covariances whose coordinates have
        /// different units, see `UNIT_PIVOT_SLACK`)
        slack: f64,
        setting: &'a serde_json::Value,
    }

    /// pdf (formula, sign, no panic) and ln_pdf at one point against the reference density.
    fn mvn_check_point(rep: &mut Report, regime: &str, mvn: &MVN, rf: &MvnRef, x: &[f64]) {
        let (d, mean, l, kappa, logdet, setting) = (rf.d, rf.mean, rf.l, rf.kappa, rf.logdet, rf.setting);
        // reference: forward substitution L y = x − mean in double-double, q = |y|²
        let mut y = vec![Dd::ZERO; d];
        for i in 0..d {
            let mut s = Dd::sum2(x[i], -mean[i]);
            for j in 0..i {
                s = s - y[j] * l[i * d + j];
            }
            y[i] = s / l[i * d + i];
        }
        let mut q = Dd::ZERO;
        for yi in &y {
            q = q + *yi * *yi;
        }
        let q = q.f();
        let ln_ref = -0.5 * (q + logdet + d as f64 * LN_2PI);
        let want = ln_ref.exp();
        // a-priori: the cached inverse and determinant carry errors of order d·eps·kappa
        let ln_bound = rf.slack * (1e-11 + 64.0 * d as f64 * f64::EPSILON * kappa * (1.0 + q));
        let tol = ln_bound.exp_m1();
        rep.case(regime);
        let mr = mvn;
        let got = match guard(|| mr.pdf(x)) {
            Ok(v) => v,
            Err(msg) => {
                rep.check("C02.pdf.no_panic", regime, false, || json!({"setting": setting, "x": jf(x), "panic": msg}));
                return;
            }
        };
        rep.check("C02.pdf.nonneg", regime, !(got < 0.0), || json!({"setting": setting, "x": jf(x), "observed": jnum(got)}));
        // As for the univariate laws, the density is judged only where both textbook factors,
        // exp(−q/2) and ((2π)^d det Σ)^(−1/2), are normal f64 numbers (or the density itself is below
        // e^-700, where 0 is right to absolute 1e-300): with a covariance in tiny units the normalising
        // factor is huge and the product is representable where exp(−q/2) alone is not.
        let ln_norm = -0.5 * (logdet + d as f64 * LN_2PI);
        let factors_ok = ln_norm.abs() <= 700.0 && ln_ref <= 700.0 && (-0.5 * q >= -700.0 || ln_ref <= -700.0);
        if factors_ok {
            let (ok, ratio) = close_rel(got, want, tol);
            if ok {
                rep.note_max(if regime.starts_with("mvn:scale") || regime.starts_with("mvn:structured") { "worst_ratio.pdf.formula:mvn:units" } else { "worst_ratio.pdf.formula:mvn" }, ratio);
            }
            rep.check("C02.pdf.formula", regime, ok, || json!({"setting": setting, "x": jf(x), "observed": jnum(got), "expected": want, "rel_tol": tol, "cond_inf": kappa, "mahalanobis_sq": q}));
        } else {
            rep.note_add("skipped.mvn_points_with_unrepresentable_textbook_factor", 1.0);
        }
        // the log-density against the reference log-density itself (also where the density has
        // left the f64 range): the same a-priori bound, which is absolute in log space, plus the
        // rounding of the three terms that are added up
        if ln_ref.is_finite() {
            match guard(|| mr.ln_pdf(x)) {
                Ok(lp) => {
                    let err = (lp - ln_ref).abs();
                    let bound = ln_bound + 16.0 * f64::EPSILON * (q + logdet.abs() + d as f64 * LN_2PI);
                    if err <= bound {
                        rep.note_max(if regime.starts_with("mvn:scale") || regime.starts_with("mvn:structured") { "worst_ratio.ln_pdf.formula:mvn:units" } else { "worst_ratio.ln_pdf.formula:mvn" }, err / bound);
                    }
                    rep.check("C02.ln_pdf.formula", regime, err <= bound, || json!({"setting": setting, "x": jf(x), "ln_pdf": jnum(lp), "expected": ln_ref, "abs_tol": bound, "cond_inf": kappa, "mahalanobis_sq": q}));
                }
                Err(msg) => {
                    rep.check("C02.ln_pdf.formula", regime, false, || json!({"setting": setting, "x": jf(x), "panic": msg}));
                }
            }
        }
        if factors_ok && got.is_finite() && got >= 1e-300 {
            match guard(|| mr.ln_pdf(x)) {
                Ok(lp) => {
                    let lw = got.ln();
                    let err = (lp - lw).abs();
                    let bound = FORMULA_TOL * lw.abs().max(1.0);
                    if err <= bound {
                        rep.note_max("worst_ratio.ln_pdf", err / bound);
                    }
                    rep.check("C02.ln_pdf", regime, err <= bound, || json!({"setting": setting, "x": jf(x), "ln_pdf": jnum(lp), "ln(pdf)": lw}));
                }
                Err(msg) => {
                    rep.check("C02.ln_pdf", regime, false, || json!({"setting": setting, "x": jf(x), "panic": msg}));
                }
            }
        }
    }

    /// Evaluation points with exact coincidences against the parameters: correlated covariances
    /// (random SPD, equicorrelated with either sign, AR(1)-type Toeplitz, each with its own
    /// per-coordinate scales), means that are zero / integer / on the coordinate lattice / generic, and
    ///   * `mvn:tie:all`      x = mean exactly;
    ///   * `mvn:tie:partial`  x[j] = mean[j] bit for bit on a non-empty proper subset of the
    ///                        coordinates (only the first, only the last, all but the first, all but
    ///                        one, random subsets), the others deviating by a generic amount or by a
    ///                        whole number of lattice steps;
    ///   * `mvn:lattice`      every coordinate a whole multiple of a power-of-two step near its
    ///                        standard deviation (integers when the scale is 1..2), points on the
    ///                        coordinate axes through the mean, signed zeros.
    /// All are judged against the same double-double reference as generic points.
    fn run_mvn_ties(rng: &mut Rng, d: usize, rep: &mut Report) {
        let sds: Vec<f64> = (0..d).map(|_| rng.log_range(0.1, 30.0)).collect();
        let ckind = rng.usize(0, 2);
        let mut cov = vec![0.0; d * d];
        match ckind {
            0 => {
                let g: Vec<f64> = rng.normals(d * d);
                let scale = rng.log_range(1e-2, 1e2);
                let delta = scale * rng.log_range(1e-2, 1.0);
                for i in 0..d {
                    for j in 0..=i {
                        let mut s = 0.0;
                        for k in 0..d {
                            s += g[k * d + i] * g[k * d + j];
                        }
                        let v = s * scale + if i == j { delta } else { 0.0 };
                        cov[i * d + j] = v;
                        cov[j * d + i] = v;
                    }
                }
            }
            1 => {
                // equicorrelated: rho in (−1/(d−1), 1)
                let rho = if rng.bool() || d == 1 { rng.range(0.2, 0.95) } else { -rng.range(0.1, 0.9) / (d as f64 - 1.0) };
                for i in 0..d {
                    for j in 0..=i {
                        let v = sds[i] * sds[j] * if i == j { 1.0 } else { rho };
                        cov[i * d + j] = v;
                        cov[j * d + i] = v;
                    }
                }
            }
            _ => {
                let rho = rng.range(0.3, 0.95) * if rng.bool() { 1.0 } else { -1.0 };
                for i in 0..d {
                    for j in 0..=i {
                        let v = sds[i] * sds[j] * rho.powi((i - j) as i32);
                        cov[i * d + j] = v;
                        cov[j * d + i] = v;
                    }
                }
            }
        }
        let sd: Vec<f64> = (0..d).map(|i| cov[i * d + i].sqrt()).collect();
        // power-of-two lattice step next to each coordinate's standard deviation
        let step: Vec<f64> = sd.iter().map(|s| 2f64.powi(s.log2().floor() as i32)).collect();
        let mkind = rng.usize(0, 3);
        let mean: Vec<f64> = (0..d)
            .map(|j| match mkind {
                0 => 0.0,
                1 => rng.int(-1000, 1000) as f64,
                2 => rng.int(-40, 40) as f64 * step[j],
                _ => {
                    if rng.chance(0.3) {
                        rng.range(-1e3, 1e3)
                    } else {
                        rng.range(-10.0, 10.0)
                    }
                }
            })
            .collect();
        let setting = json!({"dim": d, "mean": jf(&mean), "cov": jf(&cov)});
        let l = match linref::cholesky(&cov, d) {
            Some(l) => l,
            None => {
                rep.inconclusive("generated covariance not SPD for the reference Cholesky".into());
                return;
            }
        };
        let kappa = linref::cond_inf(&cov, d);
        let logdet: f64 = 2.0 * (0..d).map(|i| l[i * d + i].ln()).sum::<f64>();
        rep.distinct(Hasher::new().s("mvn-ties").fs(&cov).fs(&mean).finish(), true);
        let mvn = match guard(|| MVN::new(mean.clone(), Matrix::new(cov.clone(), d as i32, d as i32))) {
            Ok(m) => m,
            Err(msg) => {
                rep.case("mvn:tie:all");
                rep.check("C02.construct.no_panic", "mvn:tie:all", false, || json!({"setting": setting, "panic": msg}));
                return;
            }
        };
        let offdiag = (0..d).any(|i| (0..i).any(|j| cov[i * d + j] != 0.0));
        rep.seen(["mvn:ties:cov=random-spd", "mvn:ties:cov=equicorrelated", "mvn:ties:cov=ar1-toeplitz"][ckind], 1);
        rep.seen(["mvn:ties:mean=zero", "mvn:ties:mean=integer", "mvn:ties:mean=on-lattice", "mvn:ties:mean=generic"][mkind], 1);
        rep.sample(|| json!({"setting": setting, "regime": "mvn:tie:*", "cond_inf": kappa}));
        let rf = MvnRef { d, mean: &mean, l: &l, kappa, logdet, slack: 1.0, setting: &setting };
        // (a) x = mean
        mvn_check_point(rep, "mvn:tie:all", &mvn, &rf, &mean);
        // a deviation of coordinate j that is guaranteed to change the value
        let deviate = |rng: &mut Rng, j: usize, lattice: bool| -> f64 {
            loop {
                let dx = if lattice {
                    rng.int(-3, 3) as f64 * step[j]
                } else {
                    *rng.choose(&[0.3, 1.0, 1.0, 2.5]) * sd[j] * rng.normal()
                };
                let v = mean[j] + dx;
                if v != mean[j] {
                    return v;
                }
            }
        };
        // (b) partial ties
        if d >= 2 {
            let mut subsets: Vec<Vec<bool>> = Vec::new();
            subsets.push((0..d).map(|j| j >= 1).collect()); // only the first coordinate deviates
            subsets.push((0..d).map(|j| j == 0).collect()); // only the first coordinate ties
            subsets.push((0..d).map(|j| j == d - 1).collect()); // only the last ties
            subsets.push((0..d).map(|j| j != d - 1).collect()); // only the last deviates
            let one = rng.usize(0, d - 1);
            subsets.push((0..d).map(|j| j != one).collect()); // a single deviating coordinate
            subsets.push((0..d).map(|j| j == one).collect()); // a single tied coordinate
            for _ in 0..4 {
                loop {
                    let t: Vec<bool> = (0..d).map(|_| rng.bool()).collect();
                    let k = t.iter().filter(|b| **b).count();
                    if k >= 1 && k < d {
                        subsets.push(t);
                        break;
                    }
                }
            }
            for (si, tied) in subsets.iter().enumerate() {
                let lattice = si % 3 == 2;
                let x: Vec<f64> = (0..d).map(|j| if tied[j] { mean[j] } else { deviate(rng, j, lattice) }).collect();
                // which side of a deviating coordinate the ties sit on (both orders are required)
                let first_free = tied.iter().position(|t| !*t).unwrap();
                let last_free = tied.iter().rposition(|t| !*t).unwrap();
                if offdiag {
                    if tied.iter().skip(first_free).any(|t| *t) {
                        rep.seen("mvn:tie:partial:tied-after-deviating(correlated)", 1);
                    }
                    if tied.iter().take(last_free).any(|t| *t) {
                        rep.seen("mvn:tie:partial:tied-before-deviating(correlated)", 1);
                    }
                }
                mvn_check_point(rep, "mvn:tie:partial", &mvn, &rf, &x);
            }
        }
        // (c) lattice points: whole multiples of the step, around the mean
        for li in 0..6 {
            let mut x: Vec<f64> = (0..d).map(|j| ((mean[j] / step[j]).round() + rng.int(-2, 2) as f64) * step[j]).collect();
            if li == 4 || li == 5 {
                // on a coordinate axis through the (rounded) mean
                let ax = rng.usize(0, d - 1);
                for j in 0..d {
                    if j != ax {
                        x[j] = (mean[j] / step[j]).round() * step[j];
                    }
                }
                if li == 5 {
                    for v in x.iter_mut() {
                        if *v == 0.0 {
                            *v = -0.0;
                        }
                    }
                }
            }
            let nt = (0..d).filter(|&j| x[j] == mean[j]).count();
            if nt >= 1 && nt < d {
                rep.seen("mvn:lattice:partial-tie", 1);
            }
            mvn_check_point(rep, "mvn:lattice", &mvn, &rf, &x);
        }
    }

    // -----------------------------------------------------------------------------------------
    // multivariate normal: covariances at absolute scales far from 1, structured / sparse covariances

    /// Signed graph Laplacian plus a small positive diagonal: Σ_aa = δ_a + Σ_{edges at a} w_e,
    /// Σ_ab = ±w_e on the edges, exactly 0 elsewhere. xᵀΣx = Σ δ_a x_a² + Σ w_e (x_a ± x_b)² > 0, so
    /// the matrix is SPD whatever the graph; correlations are strong (δ small next to the weights).
    fn laplacian_cov(rng: &mut Rng, d: usize, edges: &[(usize, usize)]) -> Vec<f64> {
        let mut s = vec![0.0; d * d];
        for a in 0..d {
            s[a * d + a] = rng.range(0.1, 0.4);
        }
        for &(a, b) in edges {
            let w = rng.range(0.5, 2.0);
            let sg = if rng.bool() { 1.0 } else { -1.0 };
            s[a * d + a] += w;
            s[b * d + b] += w;
            s[a * d + b] = sg * w;
            s[b * d + a] = sg * w;
        }
        s
    }

    /// Edges of a random tree on d nodes (node k hangs on a random earlier node).
    fn random_tree(rng: &mut Rng, d: usize) -> Vec<(usize, usize)> {
        (1..d).map(|k| (rng.usize(0, k - 1), k)).collect()
    }

    fn relabel(rng: &mut Rng, d: usize, edges: &[(usize, usize)]) -> Vec<(usize, usize)> {
        let p = rng.perm(d);
        edges.iter().map(|&(a, b)| (p[a], p[b])).collect()
    }

    /// Largest number of decades between the units of two coordinates of one covariance. The unit of
    /// the whole matrix is free (1e-20..1e20); between coordinates the monitor stops at 1e12 (variance
    /// ratio 1e24): from a ratio of 1/eps = 4.5e15 on, an elimination with row pivoting — a legitimate
    /// way to obtain the inverse and the determinant — selects pivots by unit instead of by size, and a
    /// Schur complement that vanishes structurally (Markov / sparse covariances) leaves rounding noise
    /// in the pivot position. Observed on the unchanged library: worst error/bound ratio 0.03 up to
    /// 1e16, wrong densities from 1e18 on (AR(1) and sparse bases only; see the report).
    const UNIT_SPREAD: f64 = 12.0;

    /// Allowance on the a-priori bound d·eps·cond·(1+q) when the coordinates of one covariance have
    /// different units: the bound is stated with the condition number after equilibration (the only
    /// one that does not depend on the units), but an elimination whose pivot order is dictated by
    /// the units may pivot on an off-diagonal entry of size |ρ| and then loses a factor ~1/|ρ| against
    /// it (worst seen on the unchanged library: 0.4 of the bound without the allowance, for a 2 x 2
    /// covariance with ρ = 1e-3). Finite-precision noise, five orders below any wrong formula.
    const UNIT_PIVOT_SLACK: f64 = 1e3;

    const BASE_KINDS: [&str; 10] = ["random-spd", "equicorrelated", "ar1-toeplitz", "hub-first", "hub-last", "banded", "block-diagonal", "graph", "sparse-precision", "diag+rank-one"];

    /// Base covariance of order-one entries, exactly symmetric, d >= 1. Kinds 0..2 are the
    /// correlation structures of `run_mvn` / `run_mvn_ties`; kinds 3.. are structured covariances:
    /// exact zeros at positions chosen by a graph (hub and leaves with the hub first / last, bands,
    /// independent dense blocks, rings, trees and sparse graphs under a random labelling), the
    /// inverse of a sparse precision matrix (chain / tree graphical model), diagonal plus rank one.
    fn mvn_base(rng: &mut Rng, d: usize, kind: usize) -> Vec<f64> {
        let mut cov = vec![0.0; d * d];
        if d == 1 {
            return vec![rng.log_range(0.3, 3.0)];
        }
        match kind {
            0 => {
                let g: Vec<f64> = rng.normals(d * d);
                let delta = rng.log_range(1e-2, 1.0);
                for i in 0..d {
                    for j in 0..=i {
                        let mut s = 0.0;
                        for k in 0..d {
                            s += g[k * d + i] * g[k * d + j];
                        }
                        let v = s + if i == j { delta } else { 0.0 };
                        cov[i * d + j] = v;
                        cov[j * d + i] = v;
                    }
                }
            }
            1 => {
                let rho = if rng.bool() { rng.range(0.2, 0.95) } else { -rng.range(0.1, 0.9) / (d as f64 - 1.0) };
                for i in 0..d {
                    for j in 0..d {
                        cov[i * d + j] = if i == j { 1.0 } else { rho };
                    }
                }
            }
            2 => {
                let rho = rng.range(0.3, 0.95) * if rng.bool() { 1.0 } else { -1.0 };
                for i in 0..d {
                    for j in 0..=i {
                        let v = rho.powi((i - j) as i32);
                        cov[i * d + j] = v;
                        cov[j * d + i] = v;
                    }
                }
            }
            3 => {
                let e: Vec<(usize, usize)> = (1..d).map(|i| (0, i)).collect();
                cov = laplacian_cov(rng, d, &e);
            }
            4 => {
                let e: Vec<(usize, usize)> = (0..d - 1).map(|i| (d - 1, i)).collect();
                cov = laplacian_cov(rng, d, &e);
            }
            5 => {
                let bw = if d >= 3 && rng.bool() { 2 } else { 1 };
                let mut e = Vec::new();
                for i in 0..d {
                    for b in 1..=bw {
                        if i + b < d {
                            e.push((i, i + b));
                        }
                    }
                }
                cov = laplacian_cov(rng, d, &e);
            }
            6 => {
                // two or three independent blocks, every block a clique
                let nb = if d >= 5 && rng.bool() { 3 } else { 2 };
                let mut cuts: Vec<usize> = Vec::new();
                while cuts.len() < nb - 1 {
                    let c = rng.usize(1, d - 1);
                    if !cuts.contains(&c) {
                        cuts.push(c);
                    }
                }
                cuts.sort();
                let block_of = |i: usize| cuts.iter().filter(|c| **c <= i).count();
                let mut e = Vec::new();
                for i in 0..d {
                    for j in 0..i {
                        if block_of(i) == block_of(j) {
                            e.push((j, i));
                        }
                    }
                }
                cov = laplacian_cov(rng, d, &e);
            }
            7 => {
                let e: Vec<(usize, usize)> = match rng.usize(0, 3) {
                    0 if d >= 3 => (0..d).map(|i| (i, (i + 1) % d)).collect(), // ring
                    1 => random_tree(rng, d),
                    2 => (1..d).map(|i| (0, i)).collect(), // hub at a random position
                    _ => {
                        let mut e = Vec::new();
                        for i in 0..d {
                            for j in 0..i {
                                if rng.chance(0.45) {
                                    e.push((j, i));
                                }
                            }
                        }
                        if e.is_empty() {
                            e.push((0, d - 1));
                        }
                        e
                    }
                };
                let e = relabel(rng, d, &e);
                cov = laplacian_cov(rng, d, &e);
            }
            8 => {
                let e = if rng.bool() { (0..d - 1).map(|i| (i, i + 1)).collect() } else { random_tree(rng, d) };
                let e = relabel(rng, d, &e);
                let k = laplacian_cov(rng, d, &e);
                if let Some(inv) = linref::inverse(&k, d) {
                    for i in 0..d {
                        for j in 0..=i {
                            cov[i * d + j] = inv[i * d + j];
                            cov[j * d + i] = inv[i * d + j];
                        }
                    }
                } else {
                    cov = k;
                }
            }
            _ => {
                let mut u: Vec<f64> = (0..d).map(|_| if rng.chance(0.3) { 0.0 } else { rng.range(0.5, 1.5) * if rng.bool() { 1.0 } else { -1.0 } }).collect();
                if u.iter().filter(|x| **x != 0.0).count() < 2 {
                    u[0] = 1.25;
                    u[d - 1] = -0.75;
                }
                for i in 0..d {
                    for j in 0..d {
                        cov[i * d + j] = u[i] * u[j] + if i == j { rng.range(0.2, 1.0) } else { 0.0 };
                    }
                }
            }
        }
        cov
    }

    /// The multivariate normal in other units: the base covariances of `mvn_base` with every
    /// coordinate j expressed in its own unit s_j (Σ_ij -> s_i·Σ_ij·s_j, mean_j -> s_j·mean_j):
    ///   * `mvn:scale:uniform:*`         one unit for all coordinates, a power of two (the scaled problem is
    ///                                   then bit for bit the unscaled one) or a power of ten, standard
    ///                                   deviations 1e-20..1e20 (variances 1e-40..1e40);
    ///   * `mvn:scale:per-coordinate:*`  a different unit per coordinate, either within a few decades of
    ///                                   a common magnitude or spread over all 40 decades;
    ///   * `mvn:structured:<kind>`       unit scale, structured base covariances only.
    /// Evaluation points are mean + t·L·z (t = 0..45) and points that tie the mean on a subset of the
    /// coordinates. The reference (log-density from the double-double Cholesky factor of the very same
    /// matrix) and its tolerance (condition number of the covariance after diagonal equilibration) do
    /// not depend on the units: the density scales by 1/Π s_j, the log-density shifts by −Σ ln s_j.
    /// Every textbook factor stays far inside the f64 range: |ln det| <= 6·ln(1e41) = 566.
    fn run_mvn_scaled(rng: &mut Rng, i: usize, rep: &mut Report) {
        let d = 1 + i % 6;
        let kind = (i / 6) % BASE_KINDS.len();
        let mode = (i / 60) % 5;
        let structured = kind >= 3 && d >= 2;
        let base = mvn_base(rng, d, kind);
        // units
        let (s, scale_label): (Vec<f64>, String) = match mode {
            0 => {
                let k = rng.int(-66, 66) as i32;
                (vec![2f64.powi(k); d], "uniform".into())
            }
            1 => {
                let k = rng.int(-20, 20) as i32;
                (vec![10f64.powi(k); d], "uniform".into())
            }
            2 => {
                // a few decades around a common magnitude
                let u0 = rng.range(-17.0, 17.0);
                ((0..d).map(|_| 10f64.powf(u0 + rng.range(-3.0, 3.0))).collect(), "per-coordinate".into())
            }
            3 => {
                // up to UNIT_SPREAD decades between two coordinates, powers of ten or of two
                let u0 = rng.range(-20.0 + 0.5 * UNIT_SPREAD, 20.0 - 0.5 * UNIT_SPREAD);
                let h = 0.5 * UNIT_SPREAD;
                ((0..d).map(|_| if rng.bool() { 10f64.powf(u0 + rng.range(-h, h)) } else { 2f64.powi(((u0 + rng.range(-h, h)) / std::f64::consts::LOG10_2).round() as i32) }).collect(), "per-coordinate".into())
            }
            _ => {
                if structured {
                    (vec![1.0; d], String::new())
                } else {
                    // graded: every coordinate a fixed number of decades above the previous one
                    let step = rng.range(0.5, UNIT_SPREAD / 5.0);
                    let u0 = rng.range(-20.0, 20.0 - UNIT_SPREAD);
                    ((0..d).map(|j| 10f64.powf(u0 + step * j as f64)).collect(), "per-coordinate".into())
                }
            }
        };
        let (smin, smax) = (s.iter().cloned().fold(f64::INFINITY, f64::min), s.iter().cloned().fold(0.0, f64::max));
        let regime = if scale_label.is_empty() {
            format!("mvn:structured:{}", BASE_KINDS[kind])
        } else {
            let band = if smax < 1e-6 {
                "sd<1e-6"
            } else if smin > 1e6 {
                "sd>1e6"
            } else if smin >= 1e-6 && smax <= 1e6 {
                "1e-6<=sd<=1e6"
            } else {
                "mixed"
            };
            format!("mvn:scale:{}:{}", scale_label, band)
        };
        let mut cov = vec![0.0; d * d];
        for a in 0..d {
            for b in 0..=a {
                let v = (base[a * d + b] * s[a]) * s[b];
                cov[a * d + b] = v;
                cov[b * d + a] = v;
            }
        }
        let mkind = rng.usize(0, 3);
        let mean: Vec<f64> = (0..d)
            .map(|j| {
                s[j] * match mkind {
                    0 => 0.0,
                    1 => rng.int(-1000, 1000) as f64,
                    2 => rng.range(-10.0, 10.0),
                    _ => rng.range(-1e3, 1e3),
                }
            })
            .collect();
        let setting = json!({"dim": d, "mean": jf(&mean), "cov": jf(&cov), "base": BASE_KINDS[kind], "units": jf(&s)});
        let l = match linref::cholesky(&cov, d) {
            Some(l) => l,
            None => {
                rep.inconclusive(format!("generated covariance ({}, units {:?}) not SPD for the reference Cholesky", BASE_KINDS[kind], s));
                return;
            }
        };
        // condition number after diagonal equilibration: invariant under the choice of units
        let sd: Vec<f64> = (0..d).map(|j| cov[j * d + j].sqrt()).collect();
        let corr: Vec<f64> = (0..d * d).map(|t| cov[t] / sd[t / d] / sd[t % d]).collect();
        let kappa = linref::cond_inf(&corr, d);
        if !(kappa < 1e8) {
            rep.inconclusive(format!("generated covariance ({}) has equilibrated condition number {:e}", BASE_KINDS[kind], kappa));
            return;
        }
        let logdet: f64 = 2.0 * (0..d).map(|j| l[j * d + j].ln()).sum::<f64>();
        rep.distinct(Hasher::new().s("mvn-scaled").fs(&cov).fs(&mean).finish(), true);
        let mvn = match guard(|| MVN::new(mean.clone(), Matrix::new(cov.clone(), d as i32, d as i32))) {
            Ok(m) => m,
            Err(msg) => {
                rep.case(&regime);
                rep.check("C02.construct.no_panic", &regime, false, || json!({"setting": setting, "panic": msg}));
                return;
            }
        };
        rep.seen(&format!("mvn:units:base={}", if d == 1 { "d=1" } else { BASE_KINDS[kind] }), 1);
        rep.seen(&format!("mvn:units:d={}", d), 1);
        if structured {
            // an exact zero of the covariance where its Cholesky factor is not zero (fill-in)
            if (0..d).any(|a| (0..a).any(|b| cov[a * d + b] == 0.0 && l[a * d + b] != 0.0)) {
                rep.seen("mvn:structured:zero-with-fill-in", 1);
            }
            if (0..d).any(|a| (0..a).any(|b| cov[a * d + b] == 0.0)) {
                rep.seen("mvn:structured:exact-zero", 1);
            }
        }
        rep.sample(|| json!({"setting": setting, "regime": regime, "cond_inf_equilibrated": kappa}));
        {
            let mr = &mvn;
            let m: &[f64] = mr.mean();
            let v: &Matrix = mr.var();
            let ok = m == &mean[..] && v.data.v == cov && v.nrows == d && v.ncols == d;
            rep.case(&regime);
            rep.check("C02.mvn.moments", &regime, ok, || json!({"setting": setting, "mean()": jf(m), "var()": jf(&v.data.v)}));
        }
        let rf = MvnRef { d, mean: &mean, l: &l, kappa, logdet, slack: if s.iter().all(|u| *u == s[0]) { 1.0 } else { UNIT_PIVOT_SLACK }, setting: &setting };
        for t in [0.0, 0.3, 1.0, 1.0, 2.0, 3.0, 6.0, 12.0, 45.0] {
            let z = rng.normals(d);
            let mut x = mean.clone();
            for a in 0..d {
                for b in 0..=a {
                    x[a] += t * l[a * d + b] * z[b];
                }
            }
            mvn_check_point(rep, &regime, &mvn, &rf, &x);
        }
        // points that equal the mean bit for bit on a non-empty proper subset of the coordinates
        if d >= 2 {
            let one = rng.usize(0, d - 1);
            let subsets: [Vec<bool>; 5] = [
                (0..d).map(|j| j >= 1).collect(),
                (0..d).map(|j| j == 0).collect(),
                (0..d).map(|j| j != d - 1).collect(),
                (0..d).map(|j| j == one).collect(),
                (0..d).map(|j| if j == one { false } else { rng.bool() }).collect(),
            ];
            for tied in subsets.iter() {
                let x: Vec<f64> = (0..d).map(|j| if tied[j] { mean[j] } else { mean[j] + *rng.choose(&[0.3, 1.0, 1.0, 2.5]) * sd[j] * rng.normal() }).collect();
                mvn_check_point(rep, &regime, &mvn, &rf, &x);
            }
        }
    }

    // -----------------------------------------------------------------------------------------

    pub fn run(cfg: &Cfg, rep: &mut Report) {
        rep.rule = "settings = fixed grid over every law x parameter regime of the quantifier (+ random settings inside the same regimes in the thorough tier); per setting: 41-point quantile ladder, centre, ±50/1e3/1e6 scale units, support ends ±1 ulp, points strictly outside; discrete laws: every count of the support (Poisson: 0..lambda+40 sqrt(lambda)+60) plus negative and too-large counts; edge settings: Gamma shape 20..171.5 x rates 1e-3..1e3 and rates with α·ln β = ±690..709.5, Beta with α+β = 143..171.6 in both orders, χ² dof 120..198, plus points x with (shape−1)·ln x = 680..709.6 for every Gamma/χ² setting; MVN: random SPD covariance, dimension 1..6, points at 0..45 Mahalanobis radii. Exact coincidences: every continuous setting also at its parameters and their simple combinations, textbook/reported mean, mean ± sd, mode, median, whole numbers and centre + k·scale/2 (regime <base>:coincide), and at every distance scale from the centre and from each finite support end: centre ± scale·10^(k/2), end ± scale·10^(k/2) towards the inside, k = −24..2 (regime <base>:near-location); Normal::cdf also at standardised arguments ±10^(k/8), k = −128..0, and ±2^−j, j = 1..60, for every Normal setting (regime normal:cdf:near-location); MVN with random-SPD / equicorrelated / AR(1)-Toeplitz covariances and zero / integer / on-lattice / generic means at x = mean, at points that equal the mean bit for bit on a non-empty proper subset of the coordinates (10 subsets per setting incl. first-only, last-only, all-but-first) and at power-of-two lattice points, axis points and signed zeros (regimes mvn:tie:all, mvn:tie:partial, mvn:lattice). MVN in other units (regimes mvn:scale:uniform:*, mvn:scale:per-coordinate:*): ten base covariances (random SPD, equicorrelated, AR(1)-Toeplitz, hub-and-leaves with the hub first / last, banded, block-diagonal, ring / tree / sparse graph under a random labelling, inverse of a chain / tree precision matrix, diagonal + rank one) x dimension 1..6 x units s_j per coordinate (one power of two or ten for all, a few decades around a common magnitude, independent over 40 decades, graded), standard deviations 1e-20..1e20, means s_j x (0 / integer / O(10) / O(1e3)), points mean + t L z for t = 0..45 plus 5 partial ties with the mean; the structured bases also at unit scale (regimes mvn:structured:<kind>); pdf and ln_pdf against the double-double reference. ln_pdf of every continuous law is evaluated at every point at which pdf is judged: inside the support (against ln(pdf) and against the reference log-density), in the far tails where the density underflows (−inf = ln of the returned 0, or the reference log-density), on the support ends (ln of the returned density) and strictly outside the support (exactly −inf). evaluations = point evaluations + one per moment check; distinct = distinct (law, parameters); all are non-trivial".into();
        rep.assume("pointwise formula checks are restricted to points where every partial product of the textbook factors is a representable f64 (DESIGN: 'combinations whose textbook factors are individually representable'); skipped points are counted in notes.skipped.*");
        rep.assume("edge of the f64 range (regimes <law>:factor-edge, laws Gamma, Beta, ChiSquared): a point that fails the order-free rule only because a factor or partial product lies in the last e^10 of the range is still judged when every intermediate result of the textbook formula evaluated as printed (Gamma: β^α/Γ(α)·x^(α−1)·e^(−βx); Beta: x^(α−1)(1−x)^(β−1)/B, B = Γ(α)Γ(β)/Γ(α+β); χ²: 1/(2^(k/2)Γ(k/2))·x^(k/2−1)·e^(−x/2)) has its logarithm in [-708, 709.7] (underflow allowed when the density itself is below e^-700); beyond that range no textbook factor is an f64 and nothing is judged");
        rep.assume("mass/mean/var are integrated only when the pointwise formula check passed for the setting (a wrong pdf is already reported), when the moment is finite with tail exponent margin >= 1/2 (T dof >= 1.5/2.5, Pareto alpha >= 1.5/2.5) and the density is not singular at a non-zero support end (Beta with b < 1)");
        rep.assume("Normal sigma = 0, equal-bounds Uniform and NaN/inf parameters or arguments are outside the quantifier");
        rep.assume("tolerances: formula (1e-11 + 16 eps sum|log factors|) rel + 1e-300 abs; moments 1e-8 (mean relative to max(|mean|, sd)); Normal::cdf 2e-7 abs; MVN exp(1e-11 + 64 d eps cond_inf (1+q)) - 1 rel, MVN ln_pdf 1e-11 + 64 d eps cond_inf (1+q) + 16 eps (q + |ln det| + d ln 2pi) abs; for the scaled / structured MVN family cond_inf is taken after diagonal equilibration (it does not depend on the units) and the bound is multiplied by 1e3 when the coordinates have different units (pivot order dictated by the units)");
        rep.assume("MVN in other units: standard deviations 1e-20..1e20 per coordinate (variances 1e-40..1e40), so that det, (2 pi)^d det and every entry of the inverse covariance stay inside the f64 range (|ln det| <= 566); units of two coordinates of one covariance at most 1e12 apart (cond of the covariance up to ~1e26 while the equilibrated condition number stays below 1e4)");
        rep.assume("MVN density judged only where exp(-q/2) and the normalising factor are both normal f64 numbers (|log| <= 700) or the density is below e^-700; the log-density is judged everywhere");
        if let Err(e) = gk_selftest() {
            rep.inconclusive(format!("oracle self-test failed: {}", e));
            return;
        }
        let lite = cfg.lite;
        let mut cgrid = cont_grid();
        let mut dgrid = disc_grid();
        if lite {
            cgrid = cgrid.into_iter().step_by(7).collect();
            dgrid = dgrid.into_iter().step_by(5).collect();
        }
        par_cases(cfg, rep, 1, cgrid.len(), |i, _rng, rep| run_cont(&cgrid[i], rep));
        par_cases(cfg, rep, 2, dgrid.len(), |i, _rng, rep| run_disc(&dgrid[i], rep));
        let normals: Vec<(f64, f64)> = cgrid.iter().filter(|s| s.law == CLaw::Normal).map(|s| (s.a, s.b)).collect();
        par_cases(cfg, rep, 3, normals.len(), |i, _rng, rep| run_normal_cdf(normals[i].0, normals[i].1, rep));
        // Normal::cdf at every distance scale from the location (1e-16 … 1 standard deviations)
        par_cases(cfg, rep, 11, normals.len(), |i, _rng, rep| run_normal_cdf_scales(normals[i].0, normals[i].1, rep));
        let nm = cfg.pick(600, 6000, 2);
        par_cases(cfg, rep, 4, nm, |i, rng, rep| run_mvn(rng, 1 + i % 6, rep));
        // evaluation points with exact coincidences against the parameters (MVN: partial ties)
        let nt = cfg.pick(480, 4800, 2);
        par_cases(cfg, rep, 9, nt, |i, rng, rep| run_mvn_ties(rng, 1 + (i + 1) % 6, rep));
        // the same laws in other units (covariances at absolute scales far from 1) and structured covariances
        let ns = cfg.pick(1200, 12000, 2);
        par_cases(cfg, rep, 10, ns, |i, rng, rep| run_mvn_scaled(rng, if lite { 7 + 67 * i } else { i }, rep));
        // factors next to the end of the f64 range
        let mut egrid = edge_grid();
        if lite {
            egrid = egrid.into_iter().step_by(23).collect();
        }
        par_cases(cfg, rep, 7, egrid.len(), |i, _rng, rep| run_cont(&egrid[i], rep));
        if cfg.thorough() && !lite {
            par_cases(cfg, rep, 5, 6000, |_i, rng, rep| {
                let s = cont_random(rng);
                run_cont(&s, rep);
                if s.law == CLaw::Normal {
                    run_normal_cdf(s.a, s.b, rep);
                    run_normal_cdf_scales(s.a, s.b, rep);
                }
            });
            par_cases(cfg, rep, 6, 3000, |_i, rng, rep| {
                let s = disc_random(rng);
                run_disc(&s, rep);
            });
            par_cases(cfg, rep, 8, 3000, |_i, rng, rep| {
                if let Some(s) = edge_random(rng) {
                    run_cont(&s, rep);
                }
            });
        }
        if !lite {
            for r in [
                "normal", "gamma:shape<1", "gamma:shape=1", "gamma:shape>1", "beta:shape<1", "beta:shape=1", "beta:shape>1", "chi2:dof=1", "chi2:dof=2", "chi2:dof>2", "t", "pareto", "gumbel", "exponential", "uniform",
                "poisson:lambda<=60", "poisson:lambda>60", "binomial:n<=67", "binomial:n>67", "binomial:k<0", "binomial:k>n", "bernoulli", "discreteuniform:even-sum", "discreteuniform:odd-sum",
                "mvn:d=1", "mvn:d=2", "mvn:d=3", "mvn:d=4", "mvn:d=5", "mvn:d=6", "gamma:factor-edge", "beta:factor-edge", "chi2:factor-edge",
            ] {
                rep.require(r, 1);
            }
            for r in ["mvn:tie:all", "mvn:tie:partial", "mvn:lattice", "mvn:tie:partial:tied-after-deviating(correlated)", "mvn:tie:partial:tied-before-deviating(correlated)", "mvn:lattice:partial-tie"] {
                rep.require(r, 50);
            }
            for r in ["mvn:ties:cov=random-spd", "mvn:ties:cov=equicorrelated", "mvn:ties:cov=ar1-toeplitz", "mvn:ties:mean=zero", "mvn:ties:mean=integer", "mvn:ties:mean=on-lattice", "mvn:ties:mean=generic"] {
                rep.require(r, 10);
            }
            for law in ["normal", "gamma", "beta", "chi2", "t", "pareto", "gumbel", "exponential", "uniform"] {
                rep.require(&format!("coincide:{}", law), 10);
                rep.require(&format!("near-location:{}", law), 50);
            }
            rep.require("normal:cdf:near-location", 1000);
            for band in ["sigma<1e-2", "1e-2<=sigma<=1e2", "sigma>1e2", "|mu|>=100"] {
                rep.require(&format!("normal_cdf:near-location:{}", band), 1);
            }
            // the log-density is evaluated at every kind of point: inside the support for every law,
            // where the density has left the f64 range for every law with unbounded support, on the
            // support ends and strictly outside for every law with a bounded end
            for law in ["normal", "gamma", "beta", "chi2", "t", "pareto", "gumbel", "exponential", "uniform"] {
                rep.require(&format!("ln_pdf:support:{}", law), 100);
            }
            for law in ["normal", "gamma", "chi2", "gumbel", "exponential"] {
                rep.require(&format!("ln_pdf:underflow-tail:{}", law), 10);
            }
            for law in ["gamma", "beta", "chi2", "pareto", "exponential", "uniform"] {
                rep.require(&format!("ln_pdf:boundary:{}", law), 5);
                rep.require(&format!("ln_pdf:outside:{}", law), 20);
            }
            for band in ["sd<1e-6", "1e-6<=sd<=1e6", "sd>1e6"] {
                rep.require(&format!("mvn:scale:uniform:{}", band), 200);
            }
            for band in ["sd<1e-6", "sd>1e6", "mixed"] {
                rep.require(&format!("mvn:scale:per-coordinate:{}", band), 200);
            }
            for k in BASE_KINDS.iter() {
                rep.require(&format!("mvn:units:base={}", k), 20);
                if *k != "random-spd" && *k != "equicorrelated" && *k != "ar1-toeplitz" {
                    rep.require(&format!("mvn:structured:{}", k), 50);
                }
            }
            for dd in 1..=6 {
                rep.require(&format!("mvn:units:d={}", dd), 20);
            }
            rep.require("mvn:structured:exact-zero", 20);
            rep.require("mvn:structured:zero-with-fill-in", 20);
        }
    }
} // mod native
