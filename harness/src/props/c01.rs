//! C01 — linear systems are solved to working precision through every entry point (DESIGN §3 C01).
//!
//! Events: every return (value or panic) of the six public solve / inverse entry points
//! (`solve`, `solve_sys`, `invert_matrix`, `Matrix::solve(&Vector)`, `Matrix::solve(&Matrix)`,
//! `Matrix::inv`) on a generated nonsingular system `A·X = B`.
//! Oracle: the residual `A·X − B` is evaluated in double-double and the *column-wise normwise
//! backward error* `‖A·x_j − b_j‖∞ / (‖A‖∞‖x_j‖∞ + ‖b_j‖∞)` must be `≤ C·n·ε` (a non-finite
//! entry counts as an infinite backward error). Integer systems carry their exact solution and are
//! also checked forward (`κ∞`-scaled). The factorisation that really ran is read from the
//! `solve.*` hooks; when Cholesky ran, the same system is presented again with its rows rotated
//! (which destroys the symmetry and forces LU) and both answers have to agree within the
//! forward bound. Multi-RHS: column `j` of `X` is paired with column `j` of `B` (columns of `B` differ
//! in scale and content, so a layout slip is an O(1) residual) and compared with the single-RHS
//! answer.
use crate::gen::Rng;
use crate::oracle::dd::Dd;
use crate::oracle::{exact, linref};
use crate::report::{guard, jf, jnum, par_cases, Cfg, Hasher, Report};
use compute::linalg::{invert_matrix, solve, solve_sys, Matrix, Solve, Vector};
use compute::verif_hooks::{count, Site};
use serde_json::{json, Value};

/// backward-error constant: bound = C · n · ε  (DESIGN: c = 16; worst observed is recorded in notes)
const C: f64 = 16.0;
const EPS: f64 = f64::EPSILON;

const RHS_COLUMNS: [&str; 6] = ["rhs-columns:1", "rhs-columns:2", "rhs-columns:3", "rhs-columns:4", "rhs-columns:5", "rhs-columns:6"];

/// cheap order-sensitive digest of the bit patterns (the byte-wise `Hasher::fs` costs 3 ms per float under Miri)
fn bits_digest(xs: &[f64]) -> u64 {
    let mut h: u64 = 0x9E3779B97F4A7C15;
    for x in xs {
        h = (h.rotate_left(5) ^ x.to_bits()).wrapping_mul(0x100000001b3);
    }
    h
}

const CLASSES: [&str; 11] = [
    "spd-sparse",
    "posdiag-skew",
    "near-symmetric",
    "dense",
    "integer",
    "spd",
    "sym-indef-posdiag",
    "diag-dominant",
    "tri-perm-scaled",
    "graded",
    "tiny-nonsym-posdiag",
];

/// Second family (stream 2): the negated twin of every symmetric / positive-diagonal class (the routing
/// predicate looks at symmetry and at the signs of the diagonal, so the mirror images belong to the
/// same quantifier), symmetric matrices with a mixed-sign or partly zero diagonal, and structured band
/// matrices (tri-, penta-, bi-diagonal, Hessenberg) whose diagonal is weak (tiny or exactly zero
/// entries), so that elimination without row exchanges would break down or lose all accuracy.
const CLASSES2: [&str; 12] = [
    "neg-spd",
    "neg-spd-sparse",
    "sym-indef-negdiag",
    "sym-mixed-diag",
    "neg-near-symmetric",
    "negdiag-skew",
    "neg-integer-sym",
    "tridiagonal-weak-diag",
    "pentadiagonal-weak-diag",
    "bidiagonal-cyclic",
    "hessenberg-weak-diag",
    "banded-dominant",
];

/// assertion ids of one entry point (static strings: `format!` costs milliseconds under Miri)
struct Entry {
    name: &'static str,
    no_panic: &'static str,
    shape: &'static str,
    residual: &'static str,
    forward_exact: &'static str,
    note: &'static str,
}
macro_rules! entry {
    ($n:literal) => {
        Entry {
            name: $n,
            no_panic: concat!("C01.", $n, ".no_panic"),
            shape: concat!("C01.", $n, ".shape"),
            residual: concat!("C01.", $n, ".residual"),
            forward_exact: concat!("C01.", $n, ".forward_exact"),
            note: concat!("worst_ratio.", $n, ".backward_error_over_n_eps"),
        }
    };
}
const SOLVE: Entry = entry!("solve");
const SOLVE_SYS: Entry = entry!("solve_sys");
const INVERT_MATRIX: Entry = entry!("invert_matrix");
const M_SOLVE_VEC: Entry = entry!("Matrix.solve_vec");
const M_SOLVE_MAT: Entry = entry!("Matrix.solve_mat");
const M_INV: Entry = entry!("Matrix.inv");

struct Sys {
    regime: &'static str,
    n: usize,
    k: usize,
    a: Vec<f64>,
    /// row-major n×k
    b: Vec<f64>,
    /// exact solution (row-major n×k) when known
    xstar: Option<Vec<f64>>,
    /// how the instance was built (goes into the replay record)
    how: String,
}

// ------------------------------------------------------------------------------------------------
// small dense helpers (row-major)

fn max_abs(x: &[f64]) -> f64 {
    x.iter().fold(0.0f64, |m, v| if v.is_nan() { f64::NAN } else { m.max(v.abs()) })
}
fn col(m: &[f64], n: usize, k: usize, j: usize) -> Vec<f64> {
    (0..n).map(|i| m[i * k + j]).collect()
}
fn all_finite(x: &[f64]) -> bool {
    x.iter().all(|v| v.is_finite())
}

/// |Σ_t x_t·y_t − c| with the sum in double-double. Under Miri a double-double operation costs about a
/// millisecond, so there the sum is taken in plain f64: its own rounding error is at most
/// (len+1)·ε/2·(Σ|x_t·y_t| + |c|), which adds less than 1 to ratios that are compared with C = 16.
fn sum_prod_minus(c: f64, len: usize, term: impl Fn(usize) -> (f64, f64)) -> f64 {
    if cfg!(miri) {
        let mut s = -c;
        for t in 0..len {
            let (x, y) = term(t);
            s += x * y;
        }
        s.abs()
    } else {
        let mut s = Dd::new(-c);
        for t in 0..len {
            let (x, y) = term(t);
            s = s + Dd::prod(x, y);
        }
        s.f().abs()
    }
}

/// κ∞(A) from an inverse computed in double-double (natively) or by plain f64 Gauss–Jordan with
/// partial pivoting (Miri; only used as a gate / forward-error scale, where 1e-16·κ accuracy suffices)
fn cond_inf(a: &[f64], n: usize) -> f64 {
    if !cfg!(miri) {
        return linref::cond_inf(a, n);
    }
    let mut m = a.to_vec();
    let mut inv = vec![0.0; n * n];
    for i in 0..n {
        inv[i * n + i] = 1.0;
    }
    for c in 0..n {
        let mut p = c;
        for r in c + 1..n {
            if m[r * n + c].abs() > m[p * n + c].abs() {
                p = r;
            }
        }
        if m[p * n + c] == 0.0 || !m[p * n + c].is_finite() {
            return f64::INFINITY;
        }
        if p != c {
            for j in 0..n {
                m.swap(p * n + j, c * n + j);
                inv.swap(p * n + j, c * n + j);
            }
        }
        let piv = m[c * n + c];
        for j in 0..n {
            m[c * n + j] /= piv;
            inv[c * n + j] /= piv;
        }
        for r in 0..n {
            if r != c && m[r * n + c] != 0.0 {
                let f = m[r * n + c];
                for j in 0..n {
                    m[r * n + j] -= f * m[c * n + j];
                    inv[r * n + j] -= f * inv[c * n + j];
                }
            }
        }
    }
    linref::inf_norm(a, n, n) * linref::inf_norm(&inv, n, n)
}

/// ‖A·x − b‖∞ with every row accumulated in double-double.
fn resid_inf(a: &[f64], n: usize, x: &[f64], b: &[f64]) -> f64 {
    let mut w = 0.0f64;
    for i in 0..n {
        let v = sum_prod_minus(b[i], n, |t| (a[i * n + t], x[t]));
        if v.is_nan() {
            return f64::INFINITY;
        }
        w = w.max(v);
    }
    w
}

/// normwise backward error of `x` as a solution of `A x = b`; +inf if `x` is not finite.
fn backward_error(a: &[f64], n: usize, anorm: f64, x: &[f64], b: &[f64]) -> f64 {
    if x.len() != n || !all_finite(x) {
        return f64::INFINITY;
    }
    let r = resid_inf(a, n, x, b);
    let den = anorm * max_abs(x) + max_abs(b);
    if den == 0.0 {
        if r == 0.0 {
            0.0
        } else {
            f64::INFINITY
        }
    } else {
        r / den
    }
}

fn diff_inf(x: &[f64], y: &[f64]) -> f64 {
    if x.len() != y.len() {
        return f64::INFINITY;
    }
    let mut w = 0.0f64;
    for (a, b) in x.iter().zip(y) {
        let d = (a - b).abs();
        if d.is_nan() {
            return f64::INFINITY;
        }
        w = w.max(d);
    }
    w
}

fn is_diagonal(a: &[f64], n: usize) -> bool {
    (0..n).all(|i| (0..n).all(|j| i == j || a[i * n + j] == 0.0))
}

/// the input class that triggers the absolute symmetry tolerance: all |a_ij − a_ji| ≤ 2.2e-16 although
/// the matrix is not symmetric, and the diagonal is positive
fn tiny_nonsym_posdiag(a: &[f64], n: usize) -> bool {
    let mut exact_sym = true;
    for i in 0..n {
        if !(a[i * n + i] > 0.0) {
            return false;
        }
        for j in i + 1..n {
            let d = (a[i * n + j] - a[j * n + i]).abs();
            if d > EPS {
                return false;
            }
            if d != 0.0 {
                exact_sym = false;
            }
        }
    }
    !exact_sym
}

/// exactly symmetric with a positive diagonal, yet not positive definite (reference Cholesky fails)
fn sym_posdiag_not_pd(a: &[f64], n: usize) -> bool {
    for i in 0..n {
        if !(a[i * n + i] > 0.0) {
            return false;
        }
        for j in i + 1..n {
            if a[i * n + j] != a[j * n + i] {
                return false;
            }
        }
    }
    linref::cholesky(a, n).is_none()
}

// ------------------------------------------------------------------------------------------------
// generators

fn rhs(rng: &mut Rng, n: usize, k: usize) -> Vec<f64> {
    // columns differ in scale (×4 per column, alternating sign) and content
    let mut b = vec![0.0; n * k];
    for j in 0..k {
        let s = 4f64.powi(j as i32) * if j % 2 == 0 { 1.0 } else { -1.0 };
        for i in 0..n {
            b[i * k + j] = s * (0.25 + rng.f64()) * if rng.chance(0.3) { -1.0 } else { 1.0 };
        }
    }
    b
}

fn gen_dense(rng: &mut Rng, n: usize) -> (Vec<f64>, String) {
    let scale = rng.log_range(1e-3, 1e3);
    let a: Vec<f64> = (0..n * n).map(|_| scale * rng.range(-1.0, 1.0)).collect();
    (a, format!("uniform(-1,1) entries x {:e}", scale))
}

fn gen_diag_dom(rng: &mut Rng, n: usize, positive_diag: bool) -> Vec<f64> {
    let mut a: Vec<f64> = (0..n * n).map(|_| rng.range(-1.0, 1.0)).collect();
    for i in 0..n {
        let off: f64 = (0..n).filter(|&j| j != i).map(|j| a[i * n + j].abs()).sum();
        let d = off + rng.range(0.1, 1.0);
        a[i * n + i] = if positive_diag || rng.bool() { d } else { -d };
    }
    a
}

/// Symmetric positive definite with exact zeros inside the envelope (fill-in occurs in its factor):
/// arrowhead, shifted 2-D grid Laplacian, or a banded matrix with random holes; strictly diagonally
/// dominant with positive diagonal, hence SPD and well conditioned.
fn gen_spd_sparse(rng: &mut Rng, n: usize) -> (Vec<f64>, String) {
    let mut a = vec![0.0; n * n];
    let kind = rng.usize(0, 2);
    let how;
    match kind {
        0 => {
            // arrowhead: dense first row/column (or last), otherwise diagonal
            let hub = if rng.bool() { 0 } else { n - 1 };
            for i in 0..n {
                if i != hub {
                    let v = rng.range(-1.0, 1.0);
                    a[i * n + hub] = v;
                    a[hub * n + i] = v;
                }
            }
            how = format!("arrowhead (hub {})", hub);
        }
        1 => {
            // 5-point Laplacian pattern on a w x h grid (n = w*h, last row of the grid may be short)
            let w = ((n as f64).sqrt().ceil() as usize).max(1);
            for i in 0..n {
                for &j in &[i + 1, i + w] {
                    if j < n && !(j == i + 1 && j % w == 0) {
                        let v = -rng.range(0.5, 1.0);
                        a[i * n + j] = v;
                        a[j * n + i] = v;
                    }
                }
            }
            how = format!("grid-Laplacian pattern, width {}", w);
        }
        _ => {
            let bw = rng.usize(1, n.max(2) - 1).min(6);
            for i in 0..n {
                for j in i + 1..(i + 1 + bw).min(n) {
                    if rng.chance(0.6) {
                        let v = rng.range(-1.0, 1.0);
                        a[i * n + j] = v;
                        a[j * n + i] = v;
                    }
                }
            }
            how = format!("band {} with random holes", bw);
        }
    }
    for i in 0..n {
        let off: f64 = (0..n).filter(|&j| j != i).map(|j| a[i * n + j].abs()).sum();
        a[i * n + i] = off + rng.range(0.1, 1.0);
    }
    (a, format!("sparse SPD with exact zeros: {}", how))
}

/// Positive diagonal plus a skew-symmetric off-diagonal part: |a_ij| = |a_ji| for every pair with
/// at least one sign flip, so the matrix is NOT symmetric although magnitudes match.
fn gen_posdiag_skew(rng: &mut Rng, n: usize) -> (Vec<f64>, String) {
    let mut a = vec![0.0; n * n];
    for i in 0..n {
        for j in i + 1..n {
            let v = rng.range(-1.0, 1.0);
            // mostly skew pairs, some symmetric pairs
            let flip = j == i + 1 || rng.chance(0.7);
            a[i * n + j] = v;
            a[j * n + i] = if flip { -v } else { v };
        }
    }
    for i in 0..n {
        let off: f64 = (0..n).filter(|&j| j != i).map(|j| a[i * n + j].abs()).sum();
        a[i * n + i] = 0.3 * off + rng.range(0.5, 1.5);
    }
    (a, "positive diagonal + (mostly) skew-symmetric off-diagonal part".to_string())
}

/// A symmetric positive definite matrix with a few pairs made visibly asymmetric (relative 1e-3..1).
fn gen_near_symmetric(rng: &mut Rng, n: usize) -> (Vec<f64>, String) {
    let (mut a, _) = gen_spd(rng, n);
    let pairs = rng.usize(1, 3);
    for _ in 0..pairs {
        if n < 2 {
            break;
        }
        let i = rng.usize(0, n - 2);
        let j = rng.usize(i + 1, n - 1);
        let f = 1.0 + rng.log_range(1e-3, 1.0) * if rng.bool() { 1.0 } else { -1.0 };
        a[j * n + i] = a[i * n + j] * f + if a[i * n + j] == 0.0 { 1e-3 } else { 0.0 };
    }
    (a, "SPD with 1..3 off-diagonal pairs perturbed by a relative 1e-3..1".to_string())
}

fn gen_spd(rng: &mut Rng, n: usize) -> (Vec<f64>, String) {
    let g: Vec<f64> = (0..n * n).map(|_| rng.range(-1.0, 1.0)).collect();
    let mut a = vec![0.0; n * n];
    for i in 0..n {
        for j in i..n {
            let mut s = 0.0;
            for t in 0..n {
                s += g[t * n + i] * g[t * n + j];
            }
            a[i * n + j] = s;
            a[j * n + i] = s;
        }
    }
    let u = rng.range(0.0, 8.0);
    let delta = linref::inf_norm(&a, n, n) * 10f64.powf(-u);
    for i in 0..n {
        a[i * n + i] += delta;
    }
    (a, format!("G^T G + delta I, delta = |G^T G|_inf * 1e-{:.2} (cond <= 1e8)", u))
}

fn gen_sym_indef(rng: &mut Rng, n: usize) -> Vec<f64> {
    let mut a = vec![0.0; n * n];
    for i in 0..n {
        for j in i..n {
            let v = if i == j { rng.range(0.1, 1.0) } else { rng.range(-1.0, 1.0) };
            a[i * n + j] = v;
            a[j * n + i] = v;
        }
    }
    // a 2x2 principal minor with negative determinant makes the matrix indefinite
    let p = rng.usize(0, n - 2);
    let q = rng.usize(p + 1, n - 1);
    let v = rng.range(1.25, 2.0) * (a[p * n + p] * a[q * n + q]).sqrt() * if rng.bool() { 1.0 } else { -1.0 };
    a[p * n + q] = v;
    a[q * n + p] = v;
    a
}

fn gen_tri_perm_scaled(rng: &mut Rng, n: usize) -> (Vec<f64>, String) {
    let lower = rng.bool();
    let mut t = vec![0.0; n * n];
    for i in 0..n {
        for j in 0..n {
            let inside = if lower { j < i } else { j > i };
            if i == j {
                t[i * n + j] = rng.range(0.5, 2.0) * if rng.bool() { 1.0 } else { -1.0 };
            } else if inside {
                t[i * n + j] = rng.range(-1.0, 1.0);
            }
        }
    }
    let ident: Vec<usize> = (0..n).collect();
    let p = if rng.chance(0.2) { ident.clone() } else { rng.perm(n) };
    let q = if rng.chance(0.2) { ident } else { rng.perm(n) };
    let kexp = match rng.usize(0, 5) {
        0 => -60,
        1 => 60,
        2 => 0,
        _ => rng.int(-60, 60) as i32,
    };
    let s = 2f64.powi(kexp);
    let mut a = vec![0.0; n * n];
    for i in 0..n {
        for j in 0..n {
            a[i * n + j] = s * t[p[i] * n + q[j]];
        }
    }
    (a, format!("P·T·Q·2^{} with T {} triangular", kexp, if lower { "lower" } else { "upper" }))
}

fn gen_graded(rng: &mut Rng, n: usize) -> (Vec<f64>, String) {
    let e = rng.range(0.0, 10.0);
    let rev = rng.bool();
    let mut a: Vec<f64> = (0..n * n).map(|_| rng.range(-1.0, 1.0)).collect();
    for i in 0..n {
        let pos = if rev { n - 1 - i } else { i };
        let f = if n > 1 { 10f64.powf(-e * pos as f64 / (n - 1) as f64) } else { 1.0 };
        for j in 0..n {
            a[i * n + j] *= f;
        }
    }
    (a, format!("uniform(-1,1) rows graded over 1e-{:.2}{}", e, if rev { " (reversed)" } else { "" }))
}

fn negate(a: &mut [f64]) {
    a.iter_mut().for_each(|v| *v = -*v);
}

/// Symmetric, every diagonal entry of either sign or exactly zero (at least one non-positive): no
/// definite form applies, whatever the routing predicate makes of it.
fn gen_sym_mixed_diag(rng: &mut Rng, n: usize) -> (Vec<f64>, String) {
    let mut a = vec![0.0; n * n];
    let pzero = *rng.choose(&[0.0, 0.2, 1.0]);
    for i in 0..n {
        for j in i..n {
            let v = if i == j {
                if rng.chance(pzero) {
                    0.0
                } else {
                    rng.range(0.1, 1.0) * if rng.bool() { 1.0 } else { -1.0 }
                }
            } else {
                rng.range(-1.0, 1.0)
            };
            a[i * n + j] = v;
            a[j * n + i] = v;
        }
    }
    let p = rng.usize(0, n - 1);
    if a[p * n + p] > 0.0 {
        a[p * n + p] = -a[p * n + p];
    }
    (a, format!("symmetric uniform(-1,1), diagonal entries ±(0.1,1) or exactly zero (probability {})", pzero))
}

/// A diagonal that cannot be trusted as a pivot sequence: each entry is tiny (1e-14..1e-3 relative to
/// the O(1) off-diagonal entries), exactly zero, or of ordinary size, in proportions drawn per matrix.
fn weak_diag(rng: &mut Rng, n: usize) -> (Vec<f64>, String) {
    let ptiny = *rng.choose(&[0.15, 0.5, 0.9, 1.0]);
    let pzero = *rng.choose(&[0.0, 0.0, 0.15, 0.4]);
    let d = (0..n)
        .map(|_| {
            let sg = if rng.bool() { 1.0 } else { -1.0 };
            if rng.chance(pzero) {
                0.0
            } else if rng.chance(ptiny) {
                sg * rng.log_range(1e-14, 1e-3)
            } else {
                sg * rng.range(0.5, 2.0)
            }
        })
        .collect();
    (d, format!("diagonal: zero w.p. {}, else tiny (1e-14..1e-3) w.p. {}, else ±(0.5,2)", pzero, ptiny))
}

fn off_entry(rng: &mut Rng) -> f64 {
    rng.range(0.5, 2.0) * if rng.bool() { 1.0 } else { -1.0 }
}

/// Band matrix with `kl` sub- and `ku` super-diagonals filled with ±(0.5,2) and a weak diagonal;
/// `symmetric` mirrors the upper band.
fn gen_band_weak(rng: &mut Rng, n: usize, kl: usize, ku: usize, symmetric: bool) -> (Vec<f64>, String) {
    let (d, dhow) = weak_diag(rng, n);
    let mut a = vec![0.0; n * n];
    for i in 0..n {
        a[i * n + i] = d[i];
        for j in i + 1..(i + 1 + ku).min(n) {
            a[i * n + j] = off_entry(rng);
        }
        for j in i.saturating_sub(kl)..i {
            a[i * n + j] = if symmetric { a[j * n + i] } else { off_entry(rng) };
        }
    }
    (a, format!("band matrix, {} sub- and {} super-diagonals of ±(0.5,2){}; {}", kl, ku, if symmetric { ", symmetric" } else { "" }, dhow))
}

/// Upper or lower bidiagonal plus the opposite corner entry (a cyclic chain): nonsingular even with a
/// vanishing diagonal, but then every row has to be exchanged.
fn gen_bidiagonal_cyclic(rng: &mut Rng, n: usize) -> (Vec<f64>, String) {
    let upper = rng.bool();
    let (d, dhow) = weak_diag(rng, n);
    let mut a = vec![0.0; n * n];
    for i in 0..n {
        a[i * n + i] = d[i];
        let j = (i + 1) % n;
        if n > 1 {
            if upper {
                a[i * n + j] += off_entry(rng);
            } else {
                a[j * n + i] += off_entry(rng);
            }
        }
    }
    (a, format!("{} bidiagonal + opposite corner entry (cyclic chain), off-diagonals ±(0.5,2); {}", if upper { "upper" } else { "lower" }, dhow))
}

/// Upper (or, transposed, lower) Hessenberg: full triangle of uniform(-1,1), one off-diagonal of
/// ±(0.5,2) on the other side, weak diagonal.
fn gen_hessenberg_weak(rng: &mut Rng, n: usize) -> (Vec<f64>, String) {
    let upper = rng.bool();
    let (d, dhow) = weak_diag(rng, n);
    let mut a = vec![0.0; n * n];
    for i in 0..n {
        for j in 0..n {
            let v = if i == j {
                d[i]
            } else if j > i {
                rng.range(-1.0, 1.0)
            } else if j + 1 == i {
                off_entry(rng)
            } else {
                0.0
            };
            if upper {
                a[i * n + j] = v;
            } else {
                a[j * n + i] = v;
            }
        }
    }
    (a, format!("{} Hessenberg, triangle uniform(-1,1), first off-diagonal ±(0.5,2); {}", if upper { "upper" } else { "lower" }, dhow))
}

/// Strictly diagonally dominant band matrix (random diagonal signs, not symmetric): the benign twin
/// of the weak-diagonal band classes, for which no row exchange is needed.
fn gen_banded_dominant(rng: &mut Rng, n: usize) -> (Vec<f64>, String) {
    let kl = rng.usize(1, 2);
    let ku = rng.usize(1, 2);
    let mut a = vec![0.0; n * n];
    for i in 0..n {
        for j in i.saturating_sub(kl)..(i + 1 + ku).min(n) {
            if j != i {
                a[i * n + j] = rng.range(-1.0, 1.0);
            }
        }
        let off: f64 = (0..n).filter(|&j| j != i).map(|j| a[i * n + j].abs()).sum();
        a[i * n + i] = (off + rng.range(0.1, 1.0)) * if rng.bool() { 1.0 } else { -1.0 };
    }
    (a, format!("band matrix ({} sub-, {} super-diagonals), strictly row diagonally dominant, random diagonal signs", kl, ku))
}

fn is_symmetric_exact(a: &[f64], n: usize) -> bool {
    (0..n).all(|i| (i + 1..n).all(|j| a[i * n + j] == a[j * n + i]))
}

/// Symmetric small-integer matrix with a positive diagonal, nonsingular (exact Bareiss determinant),
/// at least one of whose proper leading principal minors is EXACTLY zero: a Cholesky attempt meets an
/// exact zero pivot (and then 0/0 or x/0 below it), so the routing "try Cholesky, fall back to LU" is
/// exercised at the boundary between "pivot not positive" and "pivot negative". B = A·X* exactly.
fn gen_sym_zero_minor(rng: &mut Rng, n: usize, k: usize) -> Option<Sys> {
    for _ in 0..200 {
        let wide = rng.chance(0.3);
        let mut ai = vec![0i64; n * n];
        for i in 0..n {
            for j in i..n {
                let v = if i == j { rng.int(1, if wide { 4 } else { 2 }) as i64 } else if wide { rng.int(-2, 2) as i64 } else { rng.int(-1, 1) as i64 };
                ai[i * n + j] = v;
                ai[j * n + i] = v;
            }
        }
        if rng.chance(0.6) {
            // force the zero at a random position m: rows m, m+1 get proportional leading parts and a
            // 2x2 diagonal block c^2, ±c·d, d^2 — exact only when the leading m x m block is zero below,
            // so this is done at m = 0 and the general positions are left to the rejection step
            let c = rng.int(1, 2) as i64;
            let d = rng.int(1, 2) as i64;
            let sg = if rng.chance(0.5) { 1 } else { -1 };
            ai[0] = c * c;
            ai[1] = sg * c * d;
            ai[n] = sg * c * d;
            ai[n + 1] = d * d;
            if rng.chance(0.6) {
                // row 2 proportional in its first two entries: 0/0 below the zero pivot
                let t = rng.int(-1, 1) as i64;
                ai[2 * n] = t * c;
                ai[2] = t * c;
                ai[2 * n + 1] = sg * t * d;
                ai[n + 2] = sg * t * d;
            }
        }
        let mut zero_minor = false;
        for m in 1..n {
            let lead: Vec<i64> = (0..m).flat_map(|i| (0..m).map(move |j| (i, j))).map(|(i, j)| ai[i * n + j]).collect();
            if exact::bareiss_det(&lead, m) == Some(0) {
                zero_minor = true;
                break;
            }
        }
        if !zero_minor || matches!(exact::bareiss_det(&ai, n), Some(0) | None) {
            continue;
        }
        let a: Vec<f64> = ai.iter().map(|&v| v as f64).collect();
        let xs = rng.ints(n * k, -9, 9);
        let mut bb = vec![0.0; n * k];
        for i in 0..n {
            for j in 0..k {
                let mut s: i64 = 0;
                for t in 0..n {
                    s += ai[i * n + t] * xs[t * k + j] as i64;
                }
                bb[i * k + j] = s as f64;
            }
        }
        return Some(Sys { regime: "sym-posdiag-zero-leading-minor", n, k, a, b: bb, xstar: Some(xs), how: "symmetric integer matrix (entries -2..2, diagonal 1..4), det != 0 exactly, some proper leading principal minor exactly 0; B = A·X* with integer X* (exact)".to_string() });
    }
    None
}

fn generate2(rng: &mut Rng, class: &'static str, n: usize) -> Option<(Sys, f64)> {
    let k = rng.usize(1, 6);
    for _attempt in 0..50 {
        let (mut a, how): (Vec<f64>, String) = match class {
            "neg-spd" => {
                let (a, h) = gen_spd(rng, n);
                (a, format!("-({})", h))
            }
            "neg-spd-sparse" => {
                let (a, h) = gen_spd_sparse(rng, n);
                (a, format!("-({})", h))
            }
            "sym-indef-negdiag" => (gen_sym_indef(rng, n), "-(symmetric uniform(-1,1), diagonal in (0.1,1), one 2x2 principal minor negative)".to_string()),
            "sym-mixed-diag" => gen_sym_mixed_diag(rng, n),
            "neg-near-symmetric" => {
                let (a, h) = gen_near_symmetric(rng, n);
                (a, format!("-({})", h))
            }
            "negdiag-skew" => {
                let (a, h) = gen_posdiag_skew(rng, n);
                (a, format!("-({})", h))
            }
            "neg-integer-sym" => {
                // symmetric integer matrix with an all-negative diagonal (definite or not, as it comes)
                let mut a = vec![0.0; n * n];
                for i in 0..n {
                    for j in i..n {
                        let v = if i == j { rng.int(1, 9) as f64 } else { rng.int(-9, 9) as f64 };
                        a[i * n + j] = v;
                        a[j * n + i] = v;
                    }
                }
                (a, "-(symmetric integer matrix, entries -9..9, diagonal in 1..9)".to_string())
            }
            "tridiagonal-weak-diag" => { let sy = rng.chance(0.4); gen_band_weak(rng, n, 1, 1, sy) },
            "pentadiagonal-weak-diag" => { let sy = rng.chance(0.4); gen_band_weak(rng, n, 2, 2, sy) },
            "bidiagonal-cyclic" => gen_bidiagonal_cyclic(rng, n),
            "hessenberg-weak-diag" => gen_hessenberg_weak(rng, n),
            _ => gen_banded_dominant(rng, n),
        };
        if matches!(class, "neg-spd" | "neg-spd-sparse" | "sym-indef-negdiag" | "neg-near-symmetric" | "negdiag-skew" | "neg-integer-sym") {
            negate(&mut a);
        }
        let kappa = match cond_ok(&a, n, 1e10) {
            Some(c) => c,
            None => continue,
        };
        if class == "sym-indef-negdiag" {
            // the mirror image must be exactly symmetric, negative on the diagonal and not negative definite
            let mut m = a.clone();
            negate(&mut m);
            if !sym_posdiag_not_pd(&m, n) {
                continue;
            }
        }
        if matches!(class, "neg-spd" | "neg-spd-sparse" | "sym-mixed-diag" | "neg-integer-sym") && !is_symmetric_exact(&a, n) {
            continue;
        }
        let b = rhs(rng, n, k);
        return Some((Sys { regime: class, n, k, a, b, xstar: None, how }, kappa));
    }
    None
}


// ------------------------------------------------------------------------------------------------
// Third family (stream 3): the small orders (1..=4, the ones for which closed-form solution formulas
// exist) with matrices that are ill-conditioned BY CANCELLATION (nearly dependent rows / columns,
// singular values graded through random rotations — not by row or column scaling) and right-hand
// sides that are consistent with a moderate solution, B = A·X0 with |X0| = O(1). This is the corner
// of the quantifier in which backward stability is a stronger demand than forward accuracy: with a
// random B the solution is amplified by cond(A) and ‖A‖‖X‖ absorbs any error of the order
// eps·cond(A)·‖B‖, with B = A·X0 it does not. Judged with the same column-wise backward-error bound
// C·n·eps and the same agreement relations as every other class, through all six entry points.

const SMALL_KINDS: [&str; 5] = ["svd-graded", "svd-graded-spd", "nearly-parallel-rows", "nearly-parallel-columns", "gram-nearly-parallel"];
const SMALL_NMAX: usize = 4;
/// regime labels `small-illcond:<kind>:n=<order>` (static: one label per kind and order)
const SMALL_REGIMES: [[&str; SMALL_NMAX]; 5] = [
    ["small-illcond:svd-graded:n=1", "small-illcond:svd-graded:n=2", "small-illcond:svd-graded:n=3", "small-illcond:svd-graded:n=4"],
    ["small-illcond:svd-graded-spd:n=1", "small-illcond:svd-graded-spd:n=2", "small-illcond:svd-graded-spd:n=3", "small-illcond:svd-graded-spd:n=4"],
    ["small-illcond:nearly-parallel-rows:n=1", "small-illcond:nearly-parallel-rows:n=2", "small-illcond:nearly-parallel-rows:n=3", "small-illcond:nearly-parallel-rows:n=4"],
    ["small-illcond:nearly-parallel-columns:n=1", "small-illcond:nearly-parallel-columns:n=2", "small-illcond:nearly-parallel-columns:n=3", "small-illcond:nearly-parallel-columns:n=4"],
    ["small-illcond:gram-nearly-parallel:n=1", "small-illcond:gram-nearly-parallel:n=2", "small-illcond:gram-nearly-parallel:n=3", "small-illcond:gram-nearly-parallel:n=4"],
];

/// random orthogonal matrix: product of plane rotations over every pair of axes (random angles) and
/// random column signs; orthogonal up to rounding, which is all the construction needs
fn gen_orthogonal(rng: &mut Rng, n: usize) -> Vec<f64> {
    let mut q = vec![0.0; n * n];
    for i in 0..n {
        q[i * n + i] = if rng.bool() { 1.0 } else { -1.0 };
    }
    for p in 0..n {
        for r in p + 1..n {
            let th = rng.range(0.0, 2.0 * std::f64::consts::PI);
            let (c, s) = (th.cos(), th.sin());
            for row in 0..n {
                let (x, y) = (q[row * n + p], q[row * n + r]);
                q[row * n + p] = c * x - s * y;
                q[row * n + r] = s * x + c * y;
            }
        }
    }
    q
}

/// singular values 1 = s_1 >= ... >= s_n = 1/kappa: geometric, one small, one large, or random in between
fn graded_sigma(rng: &mut Rng, n: usize, kappa: f64) -> Vec<f64> {
    if n == 1 {
        return vec![1.0];
    }
    let mode = rng.usize(0, 3);
    let mut sg: Vec<f64> = (0..n)
        .map(|i| match (i, mode) {
            (0, _) => 1.0,
            (i, _) if i == n - 1 => 1.0 / kappa,
            (i, 0) => kappa.powf(-(i as f64) / (n - 1) as f64),
            (_, 1) => 1.0,
            (_, 2) => 1.0 / kappa,
            _ => kappa.powf(-rng.f64()),
        })
        .collect();
    sg.sort_by(|a, b| b.partial_cmp(a).unwrap());
    sg
}

fn mat_mul_small(a: &[f64], b: &[f64], m: usize, l: usize, n: usize) -> Vec<f64> {
    let mut c = vec![0.0; m * n];
    for i in 0..m {
        for j in 0..n {
            let mut s = 0.0;
            for t in 0..l {
                s += a[i * l + t] * b[t * n + j];
            }
            c[i * n + j] = s;
        }
    }
    c
}

/// `w` rows nearly parallel: row_i = c_i·r + delta·w_i for i in a random subset of at least two rows
/// (all rows w.p. 1/2), the remaining rows generic
fn gen_nearly_parallel(rng: &mut Rng, n: usize, delta: f64) -> Vec<f64> {
    let r: Vec<f64> = (0..n).map(|_| rng.range(0.25, 1.0) * if rng.bool() { 1.0 } else { -1.0 }).collect();
    let mut a: Vec<f64> = (0..n * n).map(|_| rng.range(-1.0, 1.0)).collect();
    let all = rng.bool();
    let order = rng.perm(n);
    let npar = if all || n <= 2 { n } else { rng.usize(2, n) };
    for &i in order.iter().take(npar) {
        let c = rng.range(0.5, 2.0) * if rng.bool() { 1.0 } else { -1.0 };
        for j in 0..n {
            a[i * n + j] = c * r[j] + delta * rng.range(-1.0, 1.0);
        }
    }
    a
}

fn transpose_small(a: &[f64], n: usize) -> Vec<f64> {
    let mut t = vec![0.0; n * n];
    for i in 0..n {
        for j in 0..n {
            t[j * n + i] = a[i * n + j];
        }
    }
    t
}

fn generate_small(rng: &mut Rng, kind: usize, n: usize) -> Option<(Sys, f64)> {
    let k = rng.usize(1, 6);
    for _attempt in 0..50 {
        // target 2-norm condition number: log-uniform over 1..10^9.3 (cond_inf stays below 1e10)
        let lk = if n == 1 { 0.0 } else { rng.range(0.0, 9.3) };
        let kappa2 = 10f64.powf(lk);
        let scale = rng.log_range(1e-3, 1e3);
        let (mut a, how): (Vec<f64>, String) = match kind {
            0 | 1 => {
                let u = gen_orthogonal(rng, n);
                let v = if kind == 1 { u.clone() } else { gen_orthogonal(rng, n) };
                let sg = graded_sigma(rng, n, kappa2);
                // U·diag(s)·V^T
                let mut us = u.clone();
                for i in 0..n {
                    for j in 0..n {
                        us[i * n + j] *= sg[j];
                    }
                }
                let mut a = mat_mul_small(&us, &transpose_small(&v, n), n, n, n);
                if kind == 1 {
                    // exactly symmetric (the rounding of U·S·U^T is not)
                    for i in 0..n {
                        for j in i + 1..n {
                            a[j * n + i] = a[i * n + j];
                        }
                    }
                }
                (a, format!("U·diag(s)·{}, random rotations, singular values 1..1e-{:.2} ({:?})", if kind == 1 { "U^T (symmetric positive definite)" } else { "V^T" }, lk, sg))
            }
            2 | 3 => {
                let delta = 1.0 / kappa2;
                let a = gen_nearly_parallel(rng, n, delta);
                if kind == 2 {
                    (a, format!("rows c_i·r + {:e}·w_i (nearly parallel) for two or more rows, other rows uniform(-1,1)", delta))
                } else {
                    (transpose_small(&a, n), format!("columns c_j·r + {:e}·w_j (nearly parallel) for two or more columns, other columns uniform(-1,1)", delta))
                }
            }
            _ => {
                // normal equations G^T G of a tall G whose columns are nearly parallel (un-centred regressors)
                let m = n + rng.usize(1, 6);
                let delta = 1.0 / kappa2.sqrt();
                let g0: Vec<f64> = (0..m).map(|_| rng.range(0.5, 1.5)).collect();
                let cs: Vec<f64> = (0..n).map(|_| rng.range(0.5, 2.0)).collect();
                let g: Vec<f64> = (0..m * n).map(|t| cs[t % n] * g0[t / n] + delta * rng.range(-1.0, 1.0)).collect();
                let mut a = mat_mul_small(&transpose_rect(&g, m, n), &g, n, m, n);
                for i in 0..n {
                    for j in i + 1..n {
                        a[j * n + i] = a[i * n + j];
                    }
                }
                (a, format!("G^T G, G {}x{} with columns c_j·g + {:e}·w_j (nearly parallel)", m, n, delta))
            }
        };
        a.iter_mut().for_each(|v| *v *= scale);
        let kappa = match cond_ok(&a, n, 1e10) {
            Some(c) => c,
            None => continue,
        };
        if matches!(kind, 1 | 4) && !(is_symmetric_exact(&a, n) && linref::cholesky(&a, n).is_some()) {
            continue;
        }
        // consistent right-hand sides: B = A·X0, |X0| = O(1) per column (columns differ in scale and content)
        let x0 = rhs(rng, n, k);
        let b = mat_mul_small(&a, &x0, n, n, k);
        if !all_finite(&b) {
            continue;
        }
        let how = format!("{} x {:e}; B = fl(A·X0) with X0 of moderate size", how, scale);
        return Some((Sys { regime: SMALL_REGIMES[kind][n - 1], n, k, a, b, xstar: None, how }, kappa));
    }
    None
}

fn transpose_rect(a: &[f64], r: usize, c: usize) -> Vec<f64> {
    let mut t = vec![0.0; r * c];
    for i in 0..r {
        for j in 0..c {
            t[j * r + i] = a[i * c + j];
        }
    }
    t
}

// ------------------------------------------------------------------------------------------------
// Fourth family (stream 4): the right-hand side is quantified over on its own ("every nonsingular A
// and right-hand side B"). Its absolute scale is arbitrary and independent of the scale of A, and so is
// its structure. The residual bound ε·(‖A‖‖X‖ + ‖B‖) scales with B (X is linear in B), so the same
// column-wise backward-error oracle C·n·ε judges a right-hand side of size 1e-290 exactly as one of
// size 1 — as long as every quantity involved stays inside the normal f64 range, which the generator
// guarantees (`in_range`). Three relations between the scales of A and B:
//   B-only       A ordinary, B·s                    (X scales with s)
//   A-with-B     A·s, B·s                           (X ordinary)
//   A-against-B  A·s, B/s                           (X scales with 1/s²)
// with s a power of two (exact) or of ten, in seven bands of decades; the band 1e-25..1e-16 is the one
// just below machine epsilon, where a right-hand side is "small" for any absolute tolerance. Special
// right-hand sides at ordinary scale of A: an exactly zero column (the answer has to be exactly zero:
// anything else has a backward error of at least 1/κ), unit vectors, one tiny entry among ordinary
// ones, tiny entries with a single ordinary one, entries of very different magnitude, columns at very
// different scales, leading / trailing zeros, sparse columns. Every system goes through all six entry
// points and every agreement relation, like the systems of the other families.

const SCALE_BASE: [&str; 7] = ["dense", "spd", "spd-sparse", "diag-dominant", "integer", "posdiag-skew", "near-symmetric"];
/// decades of the scale factor s (lo, hi)
const SCALE_BANDS: [(f64, f64); 7] = [(-290.0, -100.0), (-100.0, -25.0), (-25.0, -16.0), (-16.0, -3.0), (3.0, 16.0), (16.0, 100.0), (100.0, 290.0)];
const SCALE_REGIMES: [[&str; 7]; 3] = [
    [
        "rhs-scale:B-only:s=1e-290..1e-100", "rhs-scale:B-only:s=1e-100..1e-25", "rhs-scale:B-only:s=1e-25..1e-16", "rhs-scale:B-only:s=1e-16..1e-3",
        "rhs-scale:B-only:s=1e3..1e16", "rhs-scale:B-only:s=1e16..1e100", "rhs-scale:B-only:s=1e100..1e290",
    ],
    [
        "rhs-scale:A-with-B:s=1e-290..1e-100", "rhs-scale:A-with-B:s=1e-100..1e-25", "rhs-scale:A-with-B:s=1e-25..1e-16", "rhs-scale:A-with-B:s=1e-16..1e-3",
        "rhs-scale:A-with-B:s=1e3..1e16", "rhs-scale:A-with-B:s=1e16..1e100", "rhs-scale:A-with-B:s=1e100..1e290",
    ],
    [
        "rhs-scale:A-against-B:s=1e-290..1e-100", "rhs-scale:A-against-B:s=1e-100..1e-25", "rhs-scale:A-against-B:s=1e-25..1e-16", "rhs-scale:A-against-B:s=1e-16..1e-3",
        "rhs-scale:A-against-B:s=1e3..1e16", "rhs-scale:A-against-B:s=1e16..1e100", "rhs-scale:A-against-B:s=1e100..1e290",
    ],
];
const SPECIAL_REGIMES: [&str; 9] = [
    "rhs-special:zero-column",
    "rhs-special:unit-vectors",
    "rhs-special:one-tiny-entry",
    "rhs-special:tiny-with-one-ordinary-entry",
    "rhs-special:mixed-magnitudes",
    "rhs-special:columns-at-different-scales",
    "rhs-special:leading-zeros",
    "rhs-special:trailing-zeros",
    "rhs-special:sparse",
];
const RHS_FAMILY: usize = 21 + 9;

/// Everything the solvers and the oracle touch stays in the normal range: ‖A‖, ‖A⁻¹‖ ≤ κ/‖A‖, and per
/// non-zero column ‖b‖, ‖A‖‖x‖ ≤ κ‖b‖, ‖b‖/‖A‖ ≤ ‖x‖ ≤ κ‖b‖/‖A‖.
fn in_range(a: &[f64], b: &[f64], n: usize, k: usize, kappa: f64) -> bool {
    if !all_finite(a) || !all_finite(b) {
        return false;
    }
    let an = linref::inf_norm(a, n, n);
    if !(an >= 1e-280 && an <= 1e280 && kappa / an <= 1e300) {
        return false;
    }
    for j in 0..k {
        let bn = max_abs(&col(b, n, k, j));
        if bn == 0.0 {
            continue;
        }
        if !(bn >= 1e-295 && bn <= 1e295 && kappa * bn <= 1e300 && kappa * bn / an <= 1e300 && bn / an >= 1e-295) {
            return false;
        }
    }
    true
}

fn generate_rhs_family(rng: &mut Rng, which: usize, n: usize) -> Option<(Sys, f64)> {
    let class = *rng.choose(&SCALE_BASE);
    let n = if which >= 21 + 2 && which != 21 + 4 && which != 21 + 5 { n.max(2) } else { n };
    let (base, kappa) = generate(rng, class, n)?;
    let Sys { n, k, a, mut b, mut xstar, how, .. } = base;
    if which < 21 {
        let (mode, band) = (which / 7, which % 7);
        let (lo, hi) = SCALE_BANDS[band];
        // X = A⁻¹B scales with 1/s² when A and B move against each other: half the decades
        let lim = if mode == 2 { 135.0 } else { 290.0 };
        let (lo, hi) = (lo.max(-lim), hi.min(lim));
        for _attempt in 0..8 {
            let d = rng.range(lo, hi);
            let pow2 = rng.bool();
            let (s, sname) = if pow2 {
                let e = (d * std::f64::consts::LOG2_10).round() as i32;
                // 2^e within the band's decades
                let e = e.clamp((lo * std::f64::consts::LOG2_10).ceil() as i32, (hi * std::f64::consts::LOG2_10).floor() as i32);
                (2f64.powi(e), format!("2^{}", e))
            } else {
                (10f64.powf(d), format!("10^{:.3}", d))
            };
            let a2: Vec<f64> = if mode == 0 { a.clone() } else { a.iter().map(|v| v * s).collect() };
            let b2: Vec<f64> = if mode == 2 { b.iter().map(|v| v / s).collect() } else { b.iter().map(|v| v * s).collect() };
            if !in_range(&a2, &b2, n, k, kappa) {
                continue;
            }
            // the exact solution of an integer system moves along exactly when s is a power of two
            let xs = match (&xstar, pow2, mode) {
                (Some(x), true, 0) => Some(x.iter().map(|v| v * s).collect::<Vec<f64>>()),
                (Some(x), true, 1) => Some(x.clone()),
                (Some(x), true, _) => Some(x.iter().map(|v| v / s / s).collect::<Vec<f64>>()),
                _ => None,
            };
            let xs = xs.filter(|x| all_finite(x) && max_abs(x) < 1e295 && x.iter().all(|v| *v == 0.0 || v.abs() > 1e-295));
            let how = format!("{} [{}]; scale relation {}, s = {}", how, class, ["A, B·s", "A·s, B·s", "A·s, B/s"][mode], sname);
            return Some((Sys { regime: SCALE_REGIMES[mode][band], n, k, a: a2, b: b2, xstar: xs, how }, kappa));
        }
        return None;
    }
    let sp = which - 21;
    let val = |rng: &mut Rng| (0.25 + rng.f64()) * if rng.chance(0.4) { -1.0 } else { 1.0 };
    let mut keep_exact = false;
    let what;
    match sp {
        0 => {
            let j0 = rng.usize(0, k - 1);
            for i in 0..n {
                b[i * k + j0] = 0.0;
            }
            if let Some(x) = &mut xstar {
                for i in 0..n {
                    x[i * k + j0] = 0.0;
                }
                keep_exact = true;
            }
            what = format!("column {} of B exactly zero", j0);
        }
        1 => {
            let mut pos = Vec::new();
            for j in 0..k {
                let p = rng.usize(0, n - 1);
                let f = if rng.bool() { 1.0 } else { 2f64.powi(rng.int(-20, 20) as i32) * if rng.bool() { 1.0 } else { -1.0 } };
                for i in 0..n {
                    b[i * k + j] = if i == p { f } else { 0.0 };
                }
                pos.push(p);
            }
            what = format!("columns of B are multiples of the unit vectors e_p, p = {:?}", pos);
        }
        2 => {
            for j in 0..k {
                let p = rng.usize(0, n - 1);
                b[p * k + j] *= 10f64.powf(-rng.range(17.0, 300.0));
            }
            what = "one entry of every column multiplied by 10^-u, u in [17,300]".to_string();
        }
        3 => {
            for j in 0..k {
                let p = rng.usize(0, n - 1);
                let f = 10f64.powf(-rng.range(17.0, 40.0));
                for i in 0..n {
                    if i != p {
                        b[i * k + j] *= f;
                    }
                }
            }
            what = "every column multiplied by 10^-u, u in [17,40], except one entry".to_string();
        }
        4 => {
            for v in b.iter_mut() {
                *v = 10f64.powf(rng.range(-30.0, 30.0)) * if rng.bool() { 1.0 } else { -1.0 };
            }
            what = "entries ±10^u with independent u in [-30,30]".to_string();
        }
        5 => {
            let mut us = Vec::new();
            for j in 0..k {
                let u = rng.range(-250.0, 250.0).round();
                let f = 10f64.powf(u);
                for i in 0..n {
                    b[i * k + j] *= f;
                }
                us.push(u);
            }
            what = format!("column j multiplied by 10^u_j, u = {:?}", us);
        }
        6 | 7 => {
            for j in 0..k {
                let z = rng.usize(1, n - 1);
                for i in 0..n {
                    if (sp == 6 && i < z) || (sp == 7 && i >= n - z) {
                        b[i * k + j] = 0.0;
                    }
                }
            }
            what = format!("every column {} with 1..n-1 zeros", if sp == 6 { "starts" } else { "ends" });
        }
        _ => {
            for j in 0..k {
                for i in 0..n {
                    b[i * k + j] = if rng.chance(0.25) { if rng.bool() { val(rng) } else { 1.0 } } else { 0.0 };
                }
                if (0..n).all(|i| b[i * k + j] == 0.0) {
                    b[rng.usize(0, n - 1) * k + j] = -1.0;
                }
            }
            what = "sparse columns (an entry is non-zero with probability 1/4, at least one)".to_string();
        }
    }
    if !in_range(&a, &b, n, k, kappa) {
        return None;
    }
    if !keep_exact {
        xstar = None;
    }
    let how = format!("{} [{}]; {}", how, class, what);
    Some((Sys { regime: SPECIAL_REGIMES[sp], n, k, a, b, xstar, how }, kappa))
}

/// The oracle itself must not care about the absolute scale: the backward error of (A, x·2^e, b·2^e)
/// and of (A·2^e, x, b·2^e) is that of (A, x, b). Returns a description of the first discrepancy.
fn oracle_scale_selfcheck(rng: &mut Rng) -> Option<String> {
    let n = 5;
    let a = gen_diag_dom(rng, n, false);
    let b: Vec<f64> = (0..n).map(|_| rng.range(-1.0, 1.0)).collect();
    // any vector will do as a candidate solution; a slightly perturbed one has a non-trivial residual
    let x: Vec<f64> = match guard(|| solve(&a, &b)) {
        Ok(x) if x.len() == n && all_finite(&x) => x.iter().map(|v| v * (1.0 + 1e-9 * rng.range(-1.0, 1.0))).collect(),
        _ => b.clone(),
    };
    let anorm = linref::inf_norm(&a, n, n);
    let be0 = backward_error(&a, n, anorm, &x, &b);
    if !(be0 > 0.0 && be0.is_finite()) {
        return Some(format!("reference backward error {}", be0));
    }
    for e in [-950, -600, -60, -53, 40, 600, 950] {
        let f = 2f64.powi(e);
        let (xs, bs): (Vec<f64>, Vec<f64>) = (x.iter().map(|v| v * f).collect(), b.iter().map(|v| v * f).collect());
        let as_: Vec<f64> = a.iter().map(|v| v * f).collect();
        let be1 = backward_error(&a, n, anorm, &xs, &bs);
        let be2 = backward_error(&as_, n, anorm * f, &x, &bs);
        for (which, be) in [("B and X scaled", be1), ("A and B scaled", be2)] {
            if !((be / be0 - 1.0).abs() <= 1e-9) {
                return Some(format!("backward error {} at scale 2^{} ({}) against {} at scale 1", be, e, which, be0));
            }
        }
    }
    None
}

/// κ∞ from the double-double inverse; None if singular / too ill-conditioned for the class
fn cond_ok(a: &[f64], n: usize, limit: f64) -> Option<f64> {
    let c = cond_inf(a, n);
    if c.is_finite() && c <= limit {
        Some(c)
    } else {
        None
    }
}

fn generate(rng: &mut Rng, class: &'static str, n: usize) -> Option<(Sys, f64)> {
    let k = rng.usize(1, 6);
    for _attempt in 0..50 {
        let mut xstar = None;
        let mut b = None;
        let (a, how): (Vec<f64>, String) = match class {
            "dense" => gen_dense(rng, n),
            "integer" => {
                let ai = rng.ints(n * n, -9, 9);
                let aint: Vec<i64> = ai.iter().map(|&v| v as i64).collect();
                if n <= 10 && exact::bareiss_det(&aint, n) == Some(0) {
                    continue;
                }
                let xs = rng.ints(n * k, -9, 9);
                let mut bb = vec![0.0; n * k];
                for i in 0..n {
                    for j in 0..k {
                        let mut s: i64 = 0;
                        for t in 0..n {
                            s += aint[i * n + t] * xs[t * k + j] as i64;
                        }
                        bb[i * k + j] = s as f64;
                    }
                }
                xstar = Some(xs);
                b = Some(bb);
                (ai, "integer entries in -9..9, B = A·X* with integer X* (exact)".to_string())
            }
            "spd" => gen_spd(rng, n),
            "spd-sparse" => gen_spd_sparse(rng, n),
            "posdiag-skew" => gen_posdiag_skew(rng, n),
            "near-symmetric" => gen_near_symmetric(rng, n),
            "sym-indef-posdiag" => (gen_sym_indef(rng, n), "symmetric uniform(-1,1), diagonal in (0.1,1), one 2x2 principal minor negative".to_string()),
            "diag-dominant" => (gen_diag_dom(rng, n, false), "strictly row diagonally dominant, random diagonal signs".to_string()),
            "tri-perm-scaled" => gen_tri_perm_scaled(rng, n),
            "graded" => gen_graded(rng, n),
            _ => {
                // tiny-nonsym-posdiag: a well-conditioned non-symmetric matrix at scale 2^-54 .. 2^-70
                let kexp = -(rng.int(54, 70) as i32);
                let mut a = gen_diag_dom(rng, n, true);
                let s = 2f64.powi(kexp);
                a.iter_mut().for_each(|v| *v *= s);
                (a, format!("row diagonally dominant, positive diagonal, non-symmetric, x 2^{}", kexp))
            }
        };
        let limit = match class {
            "graded" => 1e14,
            "tri-perm-scaled" => 1e14,
            "spd" => 1e10,
            _ => 1e10,
        };
        let kappa = match cond_ok(&a, n, limit) {
            Some(c) => c,
            None => continue,
        };
        let mut regime = class;
        if class == "tiny-nonsym-posdiag" && !tiny_nonsym_posdiag(&a, n) {
            continue;
        }
        // regimes are classes of *inputs*: an instance of another generator that happens to fall into
        // one of the two narrow classes is labelled as such (e.g. the integer matrix [3 8; 8 6])
        if class == "tri-perm-scaled" && tiny_nonsym_posdiag(&a, n) {
            regime = "tiny-nonsym-posdiag";
        }
        if class != "sym-indef-posdiag" && sym_posdiag_not_pd(&a, n) {
            regime = "sym-indef-posdiag";
        }
        if class == "sym-indef-posdiag" && !sym_posdiag_not_pd(&a, n) {
            continue;
        }
        let b = b.unwrap_or_else(|| rhs(rng, n, k));
        return Some((Sys { regime, n, k, a, b, xstar, how }, kappa));
    }
    None
}

// ------------------------------------------------------------------------------------------------
// monitor

struct Ctx<'a> {
    s: &'a Sys,
    anorm: f64,
    kappa: f64,
    tol: f64,
}

impl Ctx<'_> {
    fn detail(&self, entry: &str, column: Option<usize>, routing: &str, observed: Value) -> Value {
        let s = self.s;
        json!({"entry": entry, "class": s.regime, "how": s.how, "n": s.n, "rhs_columns": s.k, "column": column,
               "routing": routing, "A": jf(&s.a), "B": jf(&s.b), "cond_inf": jnum(self.kappa),
               "bound_backward_error": self.tol, "observed": observed})
    }

    /// residual (+ exact forward) check of one solution column
    fn check_column(&self, rep: &mut Report, e: &Entry, j: usize, x: &[f64], routing: &str) -> bool {
        let entry = e.name;
        let s = self.s;
        let bj = col(&s.b, s.n, s.k, j);
        let be = backward_error(&s.a, s.n, self.anorm, x, &bj);
        let ok = be <= self.tol;
        if ok {
            rep.note_max(e.note, be / (s.n as f64 * EPS));
        }
        rep.check(e.residual, s.regime, ok, || {
            self.detail(entry, Some(j), routing, json!({"x": jf(x), "finite": all_finite(x), "backward_error": jnum(be), "ratio_to_n_eps": jnum(be / (s.n as f64 * EPS))}))
        });
        if let (true, Some(xs)) = (ok, &s.xstar) {
            let xj = col(xs, s.n, s.k, j);
            let fe = diff_inf(x, &xj);
            let bound = 2.0 * self.tol * self.kappa * max_abs(&xj);
            let okf = fe <= bound;
            if okf && bound > 0.0 {
                rep.note_max("worst_ratio.forward_exact_over_bound", fe / bound);
            }
            rep.check(e.forward_exact, s.regime, okf, || {
                self.detail(entry, Some(j), routing, json!({"x": jf(x), "x_exact": jf(&xj), "forward_error": jnum(fe), "bound": jnum(bound)}))
            });
        }
        ok
    }

    /// two finite answers of the same column may differ by at most the κ-scaled forward bound
    fn check_agree(&self, rep: &mut Report, assertion: &str, note: &str, j: usize, x: &[f64], y: &[f64], what: &str) {
        let s = self.s;
        let d = diff_inf(x, y);
        let bound = 2.0 * self.tol * self.kappa * max_abs(x).max(max_abs(y));
        let ok = d <= bound;
        if ok && bound > 0.0 {
            rep.note_max(note, d / bound);
        }
        rep.check(assertion, s.regime, ok, || self.detail(what, Some(j), "", json!({"x": jf(x), "y": jf(y), "difference": jnum(d), "bound": jnum(bound)})));
    }

    /// A·Y = I column by column
    fn check_inverse(&self, rep: &mut Report, e: &Entry, y: &[f64], routing: &str) -> bool {
        let entry = e.name;
        let s = self.s;
        let n = s.n;
        let mut worst = 0.0f64;
        let mut wj = 0;
        for j in 0..n {
            let yj = col(y, n, n, j);
            let mut e = vec![0.0; n];
            e[j] = 1.0;
            let be = backward_error(&s.a, n, self.anorm, &yj, &e);
            if be > worst || be.is_infinite() {
                worst = be;
                wj = j;
            }
            if be.is_infinite() {
                break;
            }
        }
        let ok = worst <= self.tol;
        if ok {
            rep.note_max(e.note, worst / (n as f64 * EPS));
        }
        rep.check(e.residual, s.regime, ok, || {
            self.detail(entry, Some(wj), routing, json!({"inverse": jf(y), "finite": all_finite(y), "backward_error_worst_column": jnum(worst), "ratio_to_n_eps": jnum(worst / (n as f64 * EPS))}))
        });
        ok
    }

    /// A computed inverse Y whose columns meet the backward-error bound satisfies Y = A⁻¹(I + R) with
    /// ‖R‖∞ ≤ n·tol·(‖A‖‖Y‖ + 1), so Y·b differs from the true solution by at most
    /// n·tol·(κ‖Y‖ + ‖A⁻¹‖)·‖b‖ (+ n·eps·‖Y‖‖b‖ for the product); a solution x that meets the bound
    /// itself differs by at most 2·tol·κ·‖x‖. Compared only when both met their own bound.
    fn check_inverse_times_b(&self, rep: &mut Report, assertion: &str, note: &str, j: usize, y: &[f64], x: &[f64], what: &str) {
        let s = self.s;
        let n = s.n;
        let bj = col(&s.b, n, s.k, j);
        let yb: Vec<f64> = (0..n).map(|i| (0..n).map(|t| y[i * n + t] * bj[t]).sum()).collect();
        let d = diff_inf(&yb, x);
        let ynorm = linref::inf_norm(y, n, n);
        let bound = 2.0 * self.tol * self.kappa * ((n as f64 + 1.0) * ynorm * max_abs(&bj) + 2.0 * max_abs(x));
        let ok = d <= bound;
        if ok && bound > 0.0 {
            rep.note_max(note, d / bound);
        }
        rep.check(assertion, s.regime, ok, || self.detail(what, Some(j), "", json!({"inverse_times_b": jf(&yb), "x": jf(x), "difference": jnum(d), "bound": jnum(bound)})));
    }
}

fn routed(before: (u64, u64), chol: Site, lu: Site) -> &'static str {
    match (count(chol) > before.0, count(lu) > before.1) {
        (true, false) => "cholesky",
        (false, true) => "lu",
        (false, false) => "none",
        _ => "both",
    }
}

fn one_system(rep: &mut Report, s: &Sys, kappa: f64) {
    let (n, k) = (s.n, s.k);
    rep.case(s.regime);
    rep.seen(RHS_COLUMNS[k - 1], 1);
    rep.distinct(Hasher::new().s(s.regime).u(n as u64).u(bits_digest(&s.a)).finish(), n >= 2 && !is_diagonal(&s.a, n));
    let cx = Ctx { s, anorm: linref::inf_norm(&s.a, n, n), kappa, tol: C * n as f64 * EPS };
    let no_panic = |rep: &mut Report, e: &Entry, r: &Result<(), String>, routing: &str| {
        rep.check(e.no_panic, s.regime, r.is_ok(), || cx.detail(e.name, None, routing, json!({"panic": r.clone().err()})))
    };
    let shape = |rep: &mut Report, e: &Entry, ok: bool, got: Value| rep.check(e.shape, s.regime, ok, || cx.detail(e.name, None, "", got));

    // 1. slice solver, one column at a time
    let mut single: Vec<Option<Vec<f64>>> = Vec::with_capacity(k);
    let mut routing_single = "none";
    for j in 0..k {
        let bj = col(&s.b, n, k, j);
        let before = (count(Site::SolveChol), count(Site::SolveLu));
        let r = guard(|| solve(&s.a, &bj));
        let routing = routed(before, Site::SolveChol, Site::SolveLu);
        if j == 0 {
            routing_single = routing;
            rep.seen(match routing {
                "cholesky" => "routing:solve:cholesky",
                "lu" => "routing:solve:lu",
                _ => "routing:solve:other",
            }, 1);
        }
        no_panic(rep, &SOLVE, &r.as_ref().map(|_| ()).map_err(|e| e.clone()), routing);
        single.push(match r {
            Ok(x) => {
                if shape(rep, &SOLVE, x.len() == n, json!({"len": x.len()})) && cx.check_column(rep, &SOLVE, j, &x, routing) {
                    Some(x)
                } else {
                    None
                }
            }
            Err(_) => None,
        });
    }

    // 2. multi-RHS slice solver
    let before = (count(Site::SolveSysChol), count(Site::SolveSysLu));
    let r = guard(|| solve_sys(&s.a, &s.b));
    let routing_sys = routed(before, Site::SolveSysChol, Site::SolveSysLu);
    rep.seen(match routing_sys {
        "cholesky" => "routing:solve_sys:cholesky",
        "lu" => "routing:solve_sys:lu",
        _ => "routing:solve_sys:other",
    }, 1);
    no_panic(rep, &SOLVE_SYS, &r.as_ref().map(|_| ()).map_err(|e| e.clone()), routing_sys);
    if let Ok(x) = r {
        if shape(rep, &SOLVE_SYS, x.len() == n * k, json!({"len": x.len()})) {
            for j in 0..k {
                let xj = col(&x, n, k, j);
                if cx.check_column(rep, &SOLVE_SYS, j, &xj, routing_sys) {
                    if let Some(xs) = &single[j] {
                        cx.check_agree(rep, "C01.solve_sys.vs_single", "worst_ratio.solve_sys.vs_single", j, &xj, xs, "solve_sys vs solve");
                    }
                }
            }
        }
    }

    // 3. slice inverse
    let before = (count(Site::SolveSysChol), count(Site::SolveSysLu));
    let r = guard(|| invert_matrix(&s.a));
    let routing_inv = routed(before, Site::SolveSysChol, Site::SolveSysLu);
    no_panic(rep, &INVERT_MATRIX, &r.as_ref().map(|_| ()).map_err(|e| e.clone()), routing_inv);
    if let Ok(y) = r {
        if shape(rep, &INVERT_MATRIX, y.len() == n * n, json!({"len": y.len()})) && cx.check_inverse(rep, &INVERT_MATRIX, &y, routing_inv) {
            for j in 0..k {
                if let Some(xs) = &single[j] {
                    cx.check_inverse_times_b(rep, "C01.invert_matrix.times_b_vs_solve", "worst_ratio.invert_matrix.times_b_vs_solve", j, &y, xs, "invert_matrix(A)·b vs solve(A,b)");
                }
            }
        }
    }

    // 4. Matrix::solve(&Vector)
    let m = Matrix::new(s.a.clone(), n as i32, n as i32);
    let mut single_m: Vec<Option<Vec<f64>>> = Vec::with_capacity(k);
    for j in 0..k {
        let bj = Vector::new(col(&s.b, n, k, j));
        let r = guard(|| m.solve(&bj));
        no_panic(rep, &M_SOLVE_VEC, &r.as_ref().map(|_| ()).map_err(|e| e.clone()), "lu");
        single_m.push(match r {
            Ok(x) => {
                let x: Vec<f64> = x.to_vec();
                if shape(rep, &M_SOLVE_VEC, x.len() == n, json!({"len": x.len()})) && cx.check_column(rep, &M_SOLVE_VEC, j, &x, "lu") {
                    Some(x)
                } else {
                    None
                }
            }
            Err(_) => None,
        });
    }

    // 5. Matrix::solve(&Matrix)
    let bm = Matrix::new(s.b.clone(), n as i32, k as i32);
    let r = guard(|| m.solve(&bm));
    no_panic(rep, &M_SOLVE_MAT, &r.as_ref().map(|_| ()).map_err(|e| e.clone()), "lu");
    if let Ok(x) = r {
        if shape(rep, &M_SOLVE_MAT, x.nrows == n && x.ncols == k && x.data.len() == n * k, json!({"shape": [x.nrows, x.ncols], "len": x.data.len()})) {
            for j in 0..k {
                let xj = col(&x.data, n, k, j);
                if cx.check_column(rep, &M_SOLVE_MAT, j, &xj, "lu") {
                    if let Some(xs) = &single_m[j] {
                        cx.check_agree(rep, "C01.Matrix.solve_mat.vs_single", "worst_ratio.Matrix.solve_mat.vs_single", j, &xj, xs, "Matrix::solve(&Matrix) vs Matrix::solve(&Vector)");
                    }
                }
            }
        }
    }

    // 6. Matrix::inv
    let r = guard(|| m.inv());
    no_panic(rep, &M_INV, &r.as_ref().map(|_| ()).map_err(|e| e.clone()), "lu");
    if let Ok(y) = r {
        if shape(rep, &M_INV, y.nrows == n && y.ncols == n && y.data.len() == n * n, json!({"shape": [y.nrows, y.ncols], "len": y.data.len()})) && cx.check_inverse(rep, &M_INV, &y.data, "lu") {
            for j in 0..k {
                if let Some(xs) = &single_m[j] {
                    cx.check_inverse_times_b(rep, "C01.Matrix.inv.times_b_vs_solve", "worst_ratio.Matrix.inv.times_b_vs_solve", j, &y.data, xs, "Matrix::inv(A)·b vs Matrix::solve(&Vector)");
                }
            }
        }
    }

    // 7. the two public families must agree with each other as well
    for j in 0..k {
        if let (Some(x), Some(y)) = (&single[j], &single_m[j]) {
            cx.check_agree(rep, "C01.entrypoints.agree", "worst_ratio.entrypoints.agree", j, x, y, "solve vs Matrix::solve(&Vector)");
        }
    }

    // 8. routing independence: when Cholesky ran, rotate the rows (P·A x = P·b) so that LU has to run
    if routing_single == "cholesky" && n >= 2 {
        let mut forced = false;
        for shift in [1usize, n / 2 + 1, n - 1] {
            let shift = shift % n;
            if shift == 0 {
                continue;
            }
            let mut pa = vec![0.0; n * n];
            for i in 0..n {
                let src = (i + shift) % n;
                pa[i * n..(i + 1) * n].copy_from_slice(&s.a[src * n..(src + 1) * n]);
            }
            let b0 = col(&s.b, n, k, 0);
            let pb: Vec<f64> = (0..n).map(|i| b0[(i + shift) % n]).collect();
            let before = (count(Site::SolveChol), count(Site::SolveLu));
            let r = guard(|| solve(&pa, &pb));
            if routed(before, Site::SolveChol, Site::SolveLu) != "lu" {
                continue;
            }
            forced = true;
            rep.seen("routing:forced-lu-variant", 1);
            match r {
                Ok(x) => {
                    let be = backward_error(&pa, n, linref::inf_norm(&pa, n, n), &x, &pb);
                    let ok = be <= cx.tol;
                    if ok {
                        rep.note_max("worst_ratio.routing.lu_variant.backward_error_over_n_eps", be / (n as f64 * EPS));
                    }
                    rep.check("C01.routing.lu_variant.residual", s.regime, ok, || cx.detail("solve(P·A, P·b)", Some(0), "lu", json!({"row_rotation": shift, "x": jf(&x), "backward_error": jnum(be)})));
                    if let (true, Some(xc)) = (ok, &single[0]) {
                        cx.check_agree(rep, "C01.routing.agree", "worst_ratio.routing.agree", 0, xc, &x, "solve(A,b) [cholesky] vs solve(P·A,P·b) [lu]");
                    }
                }
                Err(e) => {
                    rep.check("C01.routing.lu_variant.no_panic", s.regime, false, || cx.detail("solve(P·A, P·b)", Some(0), "lu", json!({"panic": e})));
                }
            }
            break;
        }
        if !forced {
            rep.seen("routing:lu-variant-not-forceable", 1);
        }
    }

    // 9. sign symmetry: (−A)·x = −b has the same solution, but negation flips the sign of every diagonal
    //    entry, which is one of the two things the routing looks at
    {
        let na: Vec<f64> = s.a.iter().map(|v| -v).collect();
        let b0 = col(&s.b, n, k, 0);
        let nb: Vec<f64> = b0.iter().map(|v| -v).collect();
        let before = (count(Site::SolveChol), count(Site::SolveLu));
        let r = guard(|| solve(&na, &nb));
        let routing = routed(before, Site::SolveChol, Site::SolveLu);
        if routing != routing_single {
            rep.seen("routing:negation-changes-route", 1);
        }
        match r {
            Ok(x) => {
                let be = backward_error(&na, n, cx.anorm, &x, &nb);
                let ok = be <= cx.tol;
                if ok {
                    rep.note_max("worst_ratio.negated.backward_error_over_n_eps", be / (n as f64 * EPS));
                }
                rep.check("C01.negated.residual", s.regime, ok, || cx.detail("solve(-A, -b)", Some(0), routing, json!({"x": jf(&x), "backward_error": jnum(be)})));
                if let (true, Some(xc)) = (ok, &single[0]) {
                    cx.check_agree(rep, "C01.negated.agree", "worst_ratio.negated.agree", 0, xc, &x, "solve(A,b) vs solve(-A,-b)");
                }
            }
            Err(e) => {
                rep.check("C01.negated.no_panic", s.regime, false, || cx.detail("solve(-A, -b)", Some(0), routing, json!({"panic": e})));
            }
        }
    }
    rep.sample(|| json!({"class": s.regime, "how": s.how, "n": n, "rhs_columns": k, "cond_inf": jnum(kappa), "routing_solve": routing_single, "routing_solve_sys": routing_sys}));
}

pub fn run(cfg: &Cfg, rep: &mut Report) {
    rep.rule = "stream 1, case i: class = CLASSES[i mod 11], order n = 1 + (i div 11) mod Nmax (every class meets every order); stream 2 likewise over the 12 classes of CLASSES2 (negated twins of the symmetric / positive-diagonal classes, symmetric matrices with mixed-sign or zero diagonal, tri-/penta-/cyclic bi-diagonal and Hessenberg matrices with tiny or zero diagonal entries, dominant band matrices); 1..6 right-hand-side columns at random; stream 3: orders 1..4 x 5 kinds of matrices that are ill-conditioned by cancellation (U·diag(s)·V^T and its symmetric positive definite twin U·diag(s)·U^T with random rotations and graded singular values, nearly parallel rows, nearly parallel columns, Gram matrices of nearly parallel columns; cond up to 1e10) with consistent right-hand sides B = A·X0, |X0| = O(1); stream 4, case i: regime = i mod 30 (3 scale relations between A and B x 7 bands of decades of the scale factor, 9 special right-hand sides: zero column, unit vectors, one tiny entry, tiny entries with one ordinary, mixed magnitudes, columns at different scales, leading / trailing zeros, sparse), order 1 + (i div 30) mod Nmax, base matrix from 7 of the classes of stream 1; each system goes through all six entry points, solve(-A,-b) is compared with solve(A,b) and inverse·b with the solver's answer. non-trivial = order >= 2 and A not diagonal; distinct by hash of (class, n, bits of A)".into();
    rep.assume("A is finite, of order 1..32, nonsingular with cond_inf below 1e10 (1e14 for the graded / triangular classes) as measured by a double-double inverse; singular and non-finite inputs are outside the quantifier");
    rep.assume(&format!("backward-error bound C·n·eps with C = {} and eps = 2^-52, per column: |A x_j - b_j|_inf <= C n eps (|A|_inf |x_j|_inf + |b_j|_inf); forward comparisons use 2·C·n·eps·cond_inf", C));
    rep.assume("weak-diagonal band classes: off-diagonal band entries ±(0.5,2), diagonal entries zero / tiny (1e-14..1e-3) / ±(0.5,2) in per-matrix proportions, kept only if cond_inf <= 1e10 (the matrices are well conditioned, only their leading pivots are not usable without row exchanges)");
    rep.assume("small-illcond classes: order 1..4; conditioning comes from cancellation (rotated graded singular values, nearly dependent rows/columns), not from row/column scaling; right-hand sides are fl(A·X0) with X0 entries ±(0.25,1.25)·4^j, so the solution stays moderate and C·n·eps·(|A||x|+|b|) is a bound on the residual that is NOT inflated by cond(A); order 1 only for the two svd kinds (the other kinds need two rows)");
    rep.assume("inverse·b vs solve: compared only when both met their own backward-error bound; bound 2·C·n·eps·cond_inf·((n+1)·|Y|_inf·|b|_inf + 2·|x|_inf) (first-order perturbation theory of a column-wise backward-stable inverse)");
    rep.assume("sym-indef-posdiag needs order >= 2 (order 1 is replaced by 2); tiny-nonsym-posdiag = every |a_ij - a_ji| <= 2^-52 without exact symmetry, positive diagonal (order >= 2)");
    if cfg.miri() {
        rep.assume("Miri layer: 24 systems of order 2, 5, 12; residual sums in plain f64 instead of double-double (adds < 1 to ratios compared with C = 16), cond_inf from an f64 Gauss-Jordan inverse");
    }
    let nmax = if cfg.miri() { 12 } else { 32 };
    // Miri is not a registered layer for C01 (memcheck is); a 24-system smoke keeps it affordable there
    const MIRI_ORDERS: [usize; 3] = [2, 5, 12];
    let ncases = if cfg.miri() { 24 } else { cfg.pick(3000, 60000, 96) };
    par_cases(cfg, rep, 1, ncases, |i, rng: &mut Rng, rep| {
        let class = CLASSES[i % CLASSES.len()];
        let mut n = if cfg.miri() { MIRI_ORDERS[(i / CLASSES.len()) % 3] } else { 1 + (i / CLASSES.len()) % nmax };
        if (class == "sym-indef-posdiag" || class == "tiny-nonsym-posdiag") && n < 2 {
            n = 2;
        }
        match generate(rng, class, n) {
            Some((s, kappa)) => one_system(rep, &s, kappa),
            None => rep.seen(&format!("generator-gave-up:{}", class), 1),
        }
    });
    // second family: negated twins and weak-diagonal band matrices, every class at every order
    let ncases2 = if cfg.miri() { CLASSES2.len() } else { cfg.pick(2304, 46080, 96) };
    par_cases(cfg, rep, 2, ncases2, |i, rng: &mut Rng, rep| {
        let class = CLASSES2[i % CLASSES2.len()];
        let mut n = if cfg.miri() { MIRI_ORDERS[1 + i % 2] } else { 1 + (i / CLASSES2.len()) % nmax };
        if class == "sym-indef-negdiag" && n < 2 {
            n = 2;
        }
        match generate2(rng, class, n) {
            Some((s, kappa)) => {
                if n >= 8 {
                    rep.seen(match class {
                        "tridiagonal-weak-diag" => "tridiagonal-weak-diag:order>=8",
                        "pentadiagonal-weak-diag" => "pentadiagonal-weak-diag:order>=8",
                        "hessenberg-weak-diag" => "hessenberg-weak-diag:order>=8",
                        "bidiagonal-cyclic" => "bidiagonal-cyclic:order>=8",
                        _ => "other:order>=8",
                    }, 1);
                }
                one_system(rep, &s, kappa)
            }
            None => rep.seen(&format!("generator-gave-up:{}", class), 1),
        }
    });
    // fifth stream: symmetric, positive diagonal, nonsingular, an exactly zero leading principal minor
    rep.assume("sym-posdiag-zero-leading-minor: symmetric integer matrices of order 3..10 (entries -2..2, diagonal 1..4), nonsingular by an exact Bareiss determinant, with a proper leading principal minor that is exactly zero (a Cholesky attempt meets an exact zero pivot, followed by 0/0 or x/0); cond_inf <= 1e10; B = A·X* exact");
    let ncases5 = if cfg.miri() { 3 } else { cfg.pick(640, 12800, 8) };
    par_cases(cfg, rep, 5, ncases5, |i, rng: &mut Rng, rep| {
        let n = if cfg.miri() { 3 + i } else { 3 + i % 8 };
        let k = rng.usize(1, 6);
        match gen_sym_zero_minor(rng, n, k) {
            Some(s) => match cond_ok(&s.a, n, 1e10) {
                Some(kappa) => one_system(rep, &s, kappa),
                None => rep.seen("generator-gave-up:sym-posdiag-zero-leading-minor", 1),
            },
            None => rep.seen("generator-gave-up:sym-posdiag-zero-leading-minor", 1),
        }
    });
    rep.require("sym-posdiag-zero-leading-minor", 1);
    // third family: small orders, ill-conditioned by cancellation, consistent right-hand sides
    let small: Vec<(usize, usize)> = (0..SMALL_KINDS.len()).flat_map(|kd| (1..=SMALL_NMAX).map(move |n| (kd, n))).filter(|&(kd, n)| n >= 2 || kd <= 1).collect();
    let small_m: Vec<(usize, usize)> = vec![(0, 2), (2, 3), (4, 2)];
    let small_used = if cfg.miri() { &small_m } else { &small };
    let ncases3 = if cfg.miri() { small_m.len() } else { small.len() * cfg.pick(40, 600, 2) };
    par_cases(cfg, rep, 3, ncases3, |i, rng: &mut Rng, rep| {
        let (kd, n) = small_used[i % small_used.len()];
        match generate_small(rng, kd, n) {
            Some((s, kappa)) => {
                rep.seen(if kappa >= 1e6 { "small-illcond:cond>=1e6" } else if kappa >= 1e3 { "small-illcond:cond=1e3..1e6" } else { "small-illcond:cond<1e3" }, 1);
                one_system(rep, &s, kappa)
            }
            None => rep.seen(&format!("generator-gave-up:small-illcond:{}", SMALL_KINDS[kd]), 1),
        }
    });
    // fourth family: right-hand sides at other absolute scales / with special structure
    rep.assume("rhs-scale / rhs-special regimes: base systems of the classes dense, spd, spd-sparse, diag-dominant, integer, posdiag-skew, near-symmetric (cond_inf <= 1e10); scale factor s = 2^e or 10^d with |d| <= 290 (|d| <= 135 when A and B are scaled against each other, since X scales with 1/s^2); a scaled system is used only if |A|, cond/|A| and per non-zero column |b|, cond·|b|, cond·|b|/|A|, |b|/|A| lie within 1e-295..1e300 (no overflow, no loss of relative precision to underflow at the level of the norms); the bound C·n·eps·(|A||x|+|b|) scales with B, the oracle's own scale invariance is self-checked; a zero column must be answered by an exactly zero column (implied by the bound: any other finite answer has backward error >= 1/cond)");
    const MIRI_RHS: [usize; 6] = [2, 7 + 2, 14 + 4, 21, 21 + 1, 21 + 4];
    let ncases4 = if cfg.miri() { MIRI_RHS.len() } else { RHS_FAMILY * cfg.pick(32, 640, 1) };
    par_cases(cfg, rep, 4, ncases4, |i, rng: &mut Rng, rep| {
        if i == 0 {
            if let Some(msg) = oracle_scale_selfcheck(rng) {
                rep.inconclusive(format!("C01 backward-error oracle is not scale invariant: {}", msg));
            }
        }
        let which = if cfg.miri() { MIRI_RHS[i % MIRI_RHS.len()] } else { i % RHS_FAMILY };
        let n = if cfg.miri() { MIRI_ORDERS[i % 2] } else { 1 + (i / RHS_FAMILY) % nmax };
        match generate_rhs_family(rng, which, n) {
            Some((s, kappa)) => one_system(rep, &s, kappa),
            None => rep.seen(if which < 21 { "generator-gave-up:rhs-scale" } else { "generator-gave-up:rhs-special" }, 1),
        }
    });
    if cfg.miri() {
        for &w in MIRI_RHS.iter() {
            rep.require(if w < 21 { SCALE_REGIMES[w / 7][w % 7] } else { SPECIAL_REGIMES[w - 21] }, 1);
        }
    } else {
        for r in SCALE_REGIMES.iter().flatten().chain(SPECIAL_REGIMES.iter()) {
            rep.require(r, 1);
        }
    }
    for &(kd, n) in small_used.iter() {
        rep.require(SMALL_REGIMES[kd][n - 1], 1);
    }
    if !cfg.miri() {
        for r in ["small-illcond:cond>=1e6", "small-illcond:cond=1e3..1e6", "small-illcond:cond<1e3"] {
            rep.require(r, 1);
        }
    }
    for c in CLASSES {
        rep.require(c, 1);
    }
    for c in CLASSES2 {
        rep.require(c, 1);
    }
    if !cfg.miri() {
        for c in ["tridiagonal-weak-diag:order>=8", "pentadiagonal-weak-diag:order>=8", "hessenberg-weak-diag:order>=8", "bidiagonal-cyclic:order>=8"] {
            rep.require(c, 1);
        }
        rep.require("routing:negation-changes-route", 1);
    }
    for site in ["solve.chol", "solve.lu", "solve_sys.chol", "solve_sys.lu"] {
        rep.expect_site(site, 1);
    }
    rep.require("routing:forced-lu-variant", 1);
    if !cfg.miri() {
        for k in 1..=6 {
            rep.require(RHS_COLUMNS[k - 1], 1);
        }
    }
}
