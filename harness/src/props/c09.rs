//! C09 — not implemented yet.
use crate::report::{Cfg, Report};

pub fn run(_cfg: &Cfg, rep: &mut Report) {
    rep.inconclusive("monitor for C09 not implemented".to_string());
}
