//! C09 — special functions are accurate over their whole finite range (DESIGN §3 C09).
//!
//! Events: every return value of `gamma`, `beta`, `digamma`, `erf`.
//! Oracle: glibc `tgamma` / `erf` (validated against mpmath at development time), harmonic numbers
//! in double-double, an independent digamma (recurrence to x >= 30, 10-term asymptotic series in
//! double-double) and the functional identities of the property text.
//! Workload: quick = stratified f32-representable sample + random f64; thorough = every f32 in the
//! stated ranges (chunked over `par_cases`).
//!
//! The sweeps evaluate ~10^9 points, so assertions are accumulated per chunk in `Acc` and flushed
//! into the report once per chunk (same bookkeeping as `Report::check`, without a map lookup per point).
#[cfg(miri)]
pub fn run(_cfg: &crate::report::Cfg, rep: &mut crate::report::Report) {
    rep.inconclusive("C09 needs the glibc oracle (FFI) and has no Miri layer".to_string());
}
#[cfg(not(miri))]
pub use native::run;

#[cfg(not(miri))]
mod native {
use crate::gen::Rng;
use crate::oracle::dd::Dd;
use crate::oracle::special as sp;
use crate::report::{guard, jnum, par_cases, Cfg, Hasher, Report, Violation};
use compute::functions::{beta, digamma, erf, gamma};
use serde_json::{json, Value};

// ---------------------------------------------------------------------------------------------
// bulk accounting

#[derive(Default)]
struct Acc {
    checked: u64,
    failed: u64,
    first: Option<Value>,
    worst: f64,
}
impl Acc {
    #[inline]
    fn hit(&mut self, ok: bool, ratio: f64, detail: impl FnOnce() -> Value) {
        self.checked += 1;
        if ratio > self.worst || ratio.is_nan() {
            self.worst = if ratio.is_nan() { f64::INFINITY } else { ratio };
        }
        if !ok {
            self.failed += 1;
            if self.first.is_none() {
                self.first = Some(detail());
            }
        }
    }
}

/// Same bookkeeping as `Report::check`, for `acc.checked` evaluations at once.
fn flush(rep: &mut Report, assertion: &str, regime: &str, acc: &mut Acc, worst_key: Option<&str>) {
    if acc.checked == 0 {
        return;
    }
    let st = rep.assert_stat(assertion);
    st.checked += acc.checked;
    st.failed += acc.failed;
    if acc.failed > 0 {
        let sig = format!("{}|{}", assertion, regime);
        let cs = rep.case_seed;
        match rep.violations.get_mut(&sig) {
            Some(v) => v.count += acc.failed,
            None => {
                let mut d = acc.first.take().unwrap_or(json!(null));
                if let Value::Object(m) = &mut d {
                    m.insert("case_seed".into(), json!(cs));
                }
                rep.violations.insert(sig, Violation { assertion: assertion.to_string(), regime: regime.to_string(), count: acc.failed, first: d });
            }
        }
    }
    if let Some(k) = worst_key {
        // only passing regimes feed the headroom note (a failing regime would just say "inf")
        if acc.failed == 0 {
            rep.note_max(k, acc.worst);
        }
    }
    *acc = Acc::default();
}

fn count_cases(rep: &mut Report, regime: &str, n: u64) {
    if n > 0 {
        rep.evaluations += n;
        rep.seen(regime, n);
    }
}

// ---------------------------------------------------------------------------------------------
// gamma

/// First argument at which the one-step power `t^(z-1/2)` of the Lanczos form overflows is
/// 142.57917 (where sqrt(2π)·t^(z−½) exceeds f64::MAX); the regime boundaries are fixed numbers (not derived from the library at run time).
const POS_SPLIT: f64 = 142.57;
const NEG_SPLIT: f64 = -141.57;
const POLE_NBHD: f64 = 1e-3;
const GAMMA_TOL: f64 = 1e-13;

const G_REG: [&str; 6] = ["0<z<1e-3", "1e-3<=z<0.5", "0.5<=z<142.57", "z>=142.57", "-141.57<z<0", "z<=-141.57"];

#[inline]
fn g_regime(z: f64) -> usize {
    if z > 0.0 {
        if z < POLE_NBHD {
            0
        } else if z < 0.5 {
            1
        } else if z < POS_SPLIT {
            2
        } else {
            3
        }
    } else if z > NEG_SPLIT {
        4
    } else {
        5
    }
}

/// distance to the nearest pole (non-positive integer) for z < 0
#[inline]
fn pole_dist(z: f64) -> f64 {
    (z - z.round()).abs()
}

/// tolerance scale s(z) of DESIGN: 1 for z > 0, 1 + 40|z|eps/(1e-13 dist) for z < 0
#[inline]
fn s_of(z: f64) -> f64 {
    if z > 0.0 {
        1.0
    } else {
        1.0 + 40.0 * z.abs() * f64::EPSILON / (GAMMA_TOL * pole_dist(z))
    }
}

#[inline]
fn is_normal_finite(x: f64) -> bool {
    x.is_finite() && x.abs() >= f64::MIN_POSITIVE
}

#[derive(Default)]
struct GammaAccs {
    /// regime family prefix ("" for the f32 / random-f64 workload of the quantifier)
    fam: &'static str,
    n: [u64; 6],
    finite: [Acc; 6],
    rel: [Acc; 6],
    skipped_pole: u64,
    skipped_range: u64,
}

impl GammaAccs {
    /// one observation of gamma(z); returns false if z is outside the quantifier (pole / range)
    fn family(fam: &'static str) -> Self {
        GammaAccs { fam, ..Default::default() }
    }
    #[inline]
    fn point(&mut self, z: f64) -> bool {
        self.judge(z, None)
    }
    /// `pre` = a value of gamma(z) observed earlier (inside a call sequence); None = call now
    #[inline]
    fn judge(&mut self, z: f64, pre: Option<f64>) -> bool {
        if !(z > -170.0 && z < 171.6) || z == 0.0 {
            self.skipped_range += 1;
            return false;
        }
        if z < 0.0 && (pole_dist(z) < POLE_NBHD || z > -POLE_NBHD) {
            self.skipped_pole += 1;
            return false;
        }
        let want = sp::tgamma(z);
        if !is_normal_finite(want) {
            self.skipped_range += 1;
            return false;
        }
        let r = g_regime(z);
        self.n[r] += 1;
        let got = match pre {
            Some(v) => v,
            None => gamma(z),
        };
        let fin = got.is_finite();
        self.finite[r].hit(fin, 0.0, || json!({"z": z, "observed": jnum(got), "expected": jnum(want), "why": "true value is a finite normal f64"}));
        if fin {
            let err = (got / want - 1.0).abs();
            let tol = GAMMA_TOL * s_of(z);
            self.rel[r].hit(err <= tol, err / tol, || json!({"z": z, "observed": jnum(got), "expected": jnum(want), "rel_err": jnum(err), "tolerance": tol, "pole_distance": if z < 0.0 { json!(pole_dist(z)) } else { json!(null) }}));
        }
        true
    }
    fn flush(&mut self, rep: &mut Report) {
        for r in 0..6 {
            let reg = format!("gamma:{}{}", self.fam, G_REG[r]);
            count_cases(rep, &reg, self.n[r]);
            self.n[r] = 0;
            flush(rep, "C09.gamma.finite", &reg, &mut self.finite[r], None);
            let key = format!("worst_ratio.gamma.rel:{}{}", self.fam, G_REG[r]);
            flush(rep, "C09.gamma.rel", &reg, &mut self.rel[r], Some(&key));
        }
        rep.note_add("skipped.gamma.pole_neighbourhood", self.skipped_pole as f64);
        rep.note_add("skipped.gamma.true_value_not_normal", self.skipped_range as f64);
        self.skipped_pole = 0;
        self.skipped_range = 0;
    }
}

fn f32_pos_limit(x: f32) -> u32 {
    // bits of the largest f32 strictly below x (x > 0)
    let b = x.to_bits();
    if (f32::from_bits(b) as f64) < x as f64 {
        b
    } else {
        b - 1
    }
}

// ---------------------------------------------------------------------------------------------
// erf

const ERF_TOL: f64 = 1.5e-7;
const E_REG: [&str; 3] = ["x=0", "0<|x|<=6", "6<|x|<=40"];

#[derive(Default)]
struct ErfAccs {
    fam: &'static str,
    n: [u64; 3],
    odd: [Acc; 3],
    bound: [Acc; 3],
    acc: [Acc; 3],
}
impl ErfAccs {
    /// x >= 0 (or +0): checks x and -x together
    fn family(fam: &'static str) -> Self {
        ErfAccs { fam, ..Default::default() }
    }
    #[inline]
    fn point(&mut self, x: f64) {
        self.judge(x, erf(x), erf(-x))
    }
    /// x >= 0, `ep` = observed erf(x), `en` = observed erf(-x)
    #[inline]
    fn judge(&mut self, x: f64, ep: f64, en: f64) {
        let r = if x == 0.0 {
            0
        } else if x <= 6.0 {
            1
        } else {
            2
        };
        self.n[r] += 2;
        self.odd[r].hit(en == -ep, 0.0, || json!({"x": x, "erf(x)": jnum(ep), "erf(-x)": jnum(en), "expected": "erf(-x) == -erf(x) exactly"}));
        let m = ep.abs().max(en.abs());
        self.bound[r].hit(m <= 1.0, 0.0, || json!({"x": x, "erf(x)": jnum(ep), "erf(-x)": jnum(en), "expected": "|erf| <= 1"}));
        let want = sp::erf(x);
        let e1 = (ep - want).abs();
        let e2 = (en + want).abs();
        let e = if e1 >= e2 || e1.is_nan() { e1 } else { e2 };
        self.acc[r].hit(e <= ERF_TOL, e / ERF_TOL, || json!({"x": x, "erf(x)": jnum(ep), "erf(-x)": jnum(en), "expected erf(x)": want, "abs_err": jnum(e), "tolerance": ERF_TOL}));
    }
    fn flush(&mut self, rep: &mut Report) {
        for r in 0..3 {
            // x = 0 is one argument, not a class: it keeps its single label in every family
            let reg = format!("erf:{}{}", if r == 0 { "" } else { self.fam }, E_REG[r]);
            count_cases(rep, &reg, self.n[r]);
            self.n[r] = 0;
            flush(rep, "C09.erf.odd", &reg, &mut self.odd[r], None);
            flush(rep, "C09.erf.bounded", &reg, &mut self.bound[r], None);
            let key = format!("worst_ratio.erf.abs:{}{}", self.fam, E_REG[r]);
            flush(rep, "C09.erf.abs", &reg, &mut self.acc[r], Some(&key));
        }
    }
}

// ---------------------------------------------------------------------------------------------
// digamma reference

const EULER_HI: f64 = 0.577_215_664_901_532_9;
const EULER_LO: f64 = -4.942_915_152_430_645e-18;

/// B_{2k}/(2k), k = 1..10
const BERN_OVER_2K: [(f64, f64); 10] = [
    (1.0, 12.0),
    (-1.0, 120.0),
    (1.0, 252.0),
    (-1.0, 240.0),
    (1.0, 132.0),
    (-691.0, 32760.0),
    (1.0, 12.0),
    (-3617.0, 8160.0),
    (43867.0, 14364.0),
    (-174611.0, 6600.0),
];

/// Independent digamma for x > 0: upward recurrence to y >= 30, then
/// ln y − 1/(2y) − Σ_{k=1..10} B_{2k}/(2k y^{2k}), sums in double-double.
fn digamma_ref(x: f64) -> f64 {
    let mut acc = Dd::ZERO;
    let mut y = Dd::new(x);
    while y.hi < 30.0 {
        acc = acc - Dd::ONE / y;
        y = y + 1.0;
    }
    let inv = Dd::ONE / y;
    let inv2 = inv * inv;
    let mut series = Dd::ZERO;
    let mut p = inv2;
    for (num, den) in BERN_OVER_2K {
        series = series + p * (Dd::new(num) / Dd::new(den));
        p = p * inv2;
    }
    // ln of a double-double: ln(hi) + lo/hi (hi is x + integer, lo is tiny)
    let ln_y = Dd::sum2(y.hi.ln(), y.lo / y.hi);
    (acc + ln_y - inv * 0.5 - series).f()
}

/// ψ(n) = H_{n−1} − γ for n = 1..=nmax, in double-double
fn digamma_integers(nmax: usize) -> Vec<f64> {
    let euler = Dd { hi: EULER_HI, lo: EULER_LO };
    let mut out = Vec::with_capacity(nmax + 1);
    out.push(f64::NAN);
    let mut h = Dd::ZERO;
    for n in 1..=nmax {
        out.push((h - euler).f());
        h = h + Dd::ONE / Dd::new(n as f64);
    }
    out
}

/// oracle self-test: mpmath values (50 digits, rounded) of ψ at a few points
fn digamma_selftest() -> Result<(), String> {
    let table: [(f64, f64); 8] = [
        (0.001, -1000.5755719318103),
        (0.5, -1.963_510_026_021_423_5),
        (1.0, -0.577_215_664_901_532_9),
        (2.75, 0.8189010249754326),
        (10.0, 2.251_752_589_066_721),
        (29.5, 3.3673453638769155),
        (1234.5, 7.118016231827998),
        (1e6, 13.815510057964191),
    ];
    for (x, want) in table {
        let got = digamma_ref(x);
        if (got - want).abs() > 4e-15 * want.abs().max(1.0) {
            return Err(format!("digamma_ref({}) = {:e}, mpmath {:e}", x, got, want));
        }
    }
    Ok(())
}

const DIGAMMA_TOL: f64 = 1e-10;

fn dg_regime(x: f64) -> &'static str {
    if x < 1.0 {
        "digamma:x<1"
    } else if x < 6.0 {
        "digamma:1<=x<6"
    } else if x < 100.0 {
        "digamma:6<=x<100"
    } else {
        "digamma:x>=100"
    }
}

fn digamma_point(rep: &mut Report, x: f64) {
    digamma_judge(rep, "", x, None)
}

/// `fam` = regime family ("" = the quantifier's random workload); `pre` = a value of digamma(x)
/// observed earlier inside a call sequence (then the recurrence, which needs another call, is not formed).
fn digamma_judge(rep: &mut Report, fam: &str, x: f64, pre: Option<f64>) {
    let reg_owned;
    let reg = if fam.is_empty() {
        dg_regime(x)
    } else {
        reg_owned = dg_regime(x).replacen("digamma:", &format!("digamma:{}", fam), 1);
        &reg_owned
    };
    rep.case(reg);
    rep.distinct(Hasher::new().s("dg").f(x).finish(), true);
    let got = match pre.map(Ok).unwrap_or_else(|| guard(|| digamma(x))) {
        Ok(v) => v,
        Err(msg) => {
            rep.check("C09.digamma.no_panic", reg, false, || json!({"x": x, "panic": msg}));
            return;
        }
    };
    let want = digamma_ref(x);
    let scale = want.abs().max(1.0);
    let err = (got - want).abs() / scale;
    rep.note_max("worst_ratio.digamma.abs", if err.is_nan() { f64::INFINITY } else { err / DIGAMMA_TOL });
    rep.check("C09.digamma.abs", reg, err <= DIGAMMA_TOL, || json!({"x": x, "observed": jnum(got), "expected": want, "err/max(1,|psi|)": jnum(err), "tolerance": DIGAMMA_TOL}));
    if pre.is_some() {
        return;
    }
    // ψ(x+1) = ψ(x) + 1/x
    let up = digamma(x + 1.0);
    let resid = (up - got - 1.0 / x).abs() / (up.abs().max(got.abs()).max(1.0 / x).max(1.0));
    rep.note_max("worst_ratio.digamma.recurrence", if resid.is_nan() { f64::INFINITY } else { resid / DIGAMMA_TOL });
    rep.check("C09.digamma.recurrence", reg, resid <= DIGAMMA_TOL, || json!({"x": x, "psi(x)": jnum(got), "psi(x+1)": jnum(up), "1/x": 1.0 / x, "scaled_residual": jnum(resid), "tolerance": DIGAMMA_TOL}));
}

// ---------------------------------------------------------------------------------------------
// beta

const BETA_TOL: f64 = 1e-12;

fn beta_point(rep: &mut Report, a: f64, b: f64) {
    beta_judge(rep, "", a, b, None)
}

/// `pre` = a value of beta(a, b) observed earlier inside a call sequence (symmetry is then judged on
/// that value against a fresh beta(b, a)).
fn beta_judge(rep: &mut Report, fam: &str, a: f64, b: f64, pre: Option<f64>) {
    let reg_owned = format!("beta:{}{}", fam, if a + b >= POS_SPLIT { "a+b>=142.57" } else { "a+b<142.57" });
    let reg: &str = &reg_owned;
    rep.case(reg);
    rep.distinct(Hasher::new().s("beta").f(a).f(b).finish(), true);
    let r = guard(|| match pre {
        Some(v) => (v, beta(b, a)),
        None => (beta(a, b), beta(b, a)),
    });
    let (got, swapped) = match r {
        Ok(v) => v,
        Err(msg) => {
            rep.check("C09.beta.no_panic", reg, false, || json!({"a": a, "b": b, "panic": msg}));
            return;
        }
    };
    // a, b < 80: all three true gammas are finite normal f64, so the quotient of glibc tgammas is
    // a reference good to a few ulp; exp(lgamma…) (the form DESIGN quotes) is the cross-check.
    let want = sp::tgamma(a) * sp::tgamma(b) / sp::tgamma(a + b);
    let want2 = sp::lbeta(a, b).exp();
    if !is_normal_finite(want) || (want / want2 - 1.0).abs() > 1e-12 {
        rep.inconclusive(format!("beta reference disagreement at a={:e} b={:e}: {:e} vs {:e}", a, b, want, want2));
        return;
    }
    let err = (got / want - 1.0).abs();
    rep.check("C09.beta.rel", reg, err <= BETA_TOL, || json!({"a": a, "b": b, "observed": jnum(got), "expected": want, "rel_err": jnum(err), "tolerance": BETA_TOL}));
    if err <= BETA_TOL {
        rep.note_max("worst_ratio.beta.rel", err / BETA_TOL);
    }
    let sym = if got == swapped { 0.0 } else { (got / swapped - 1.0).abs() };
    rep.check("C09.beta.symmetric", reg, sym <= BETA_TOL, || json!({"a": a, "b": b, "beta(a,b)": jnum(got), "beta(b,a)": jnum(swapped), "tolerance": BETA_TOL}));
}

// ---------------------------------------------------------------------------------------------
// identities

/// Γ(x+1) = xΓ(x), both sides from the library; tolerance 1e-13·(s(x)+s(x+1)) (each side is allowed
/// its own error by the accuracy clause).
fn recurrence_point(rep: &mut Report, x: f64) {
    recurrence_point_f(rep, "", x)
}

fn recurrence_point_f(rep: &mut Report, fam: &str, x: f64) {
    // make x + 1 exactly representable: otherwise the identity is tested at a perturbed argument
    // (ulp(128)/2 · ψ(128) = 7e-14 — seen as a "residual" of the monitor's own making)
    let x = (x + 1.0) - 1.0;
    if Dd::sum2(x, 1.0).lo != 0.0 {
        return;
    }
    if x == 0.0 || x + 1.0 == 0.0 {
        return;
    }
    if x < 0.0 && (pole_dist(x) < POLE_NBHD || x > -POLE_NBHD) {
        return;
    }
    let (t0, t1) = (sp::tgamma(x), sp::tgamma(x + 1.0));
    if !is_normal_finite(t0) || !is_normal_finite(t1) || !is_normal_finite(x * t0) {
        return;
    }
    let reg = if x + 1.0 >= POS_SPLIT {
        "ident:x+1>=142.57"
    } else if x <= NEG_SPLIT {
        "ident:x<=-141.57"
    } else if x > 0.0 {
        "ident:0<x<141.57"
    } else {
        "ident:-141.57<x<0"
    };
    let reg_owned;
    let reg = if fam.is_empty() {
        reg
    } else {
        reg_owned = reg.replacen("ident:", &format!("ident:{}", fam), 1);
        &reg_owned
    };
    rep.case(reg);
    rep.distinct(Hasher::new().s("rec").f(x).finish(), true);
    let (g0, g1) = (gamma(x), gamma(x + 1.0));
    let sx1 = if x + 1.0 > 0.0 { 1.0 } else { s_of(x + 1.0) };
    let tol = GAMMA_TOL * (s_of(x) + sx1);
    let err = (g1 / (x * g0) - 1.0).abs();
    let ok = err <= tol;
    if ok {
        rep.note_max(if x > 0.0 { "worst_ratio.ident.recurrence:x>0" } else { "worst_ratio.ident.recurrence:x<0" }, err / tol);
    }
    rep.check("C09.ident.recurrence", reg, ok, || json!({"x": x, "gamma(x)": jnum(g0), "gamma(x+1)": jnum(g1), "rel_residual": jnum(err), "tolerance": tol}));
}

fn factorials(rep: &mut Report) {
    let mut f = Dd::ONE;
    for n in 0..=170u32 {
        if n > 0 {
            f = f * (n as f64);
        }
        let want = f.f();
        let z = n as f64 + 1.0;
        let reg = if z >= POS_SPLIT { "ident:n!:n>=142" } else { "ident:n!:n<=141" };
        rep.case(reg);
        rep.distinct(Hasher::new().s("fact").u(n as u64).finish(), n > 1);
        let got = gamma(z);
        let err = (got / want - 1.0).abs();
        let ok = err <= GAMMA_TOL;
        if ok {
            rep.note_max("worst_ratio.ident.factorial", err / GAMMA_TOL);
        }
        rep.check("C09.ident.factorial", reg, ok, || json!({"n": n, "gamma(n+1)": jnum(got), "n!": want, "rel_err": jnum(err), "tolerance": GAMMA_TOL}));
    }
}

// ---------------------------------------------------------------------------------------------
// f64 arguments next to the lattice of integers / half-integers (and, for gamma, next to the poles)

/// 10^-k (k = 1..15) and 2^-j (j = 2..50)
fn lattice_offsets() -> Vec<f64> {
    let mut v: Vec<f64> = (1..=15).map(|k| 10f64.powi(-k)).collect();
    v.extend((2..=50).map(|j| 2f64.powi(-j)));
    v
}

/// c ± δ for every fixed offset plus `extra` random ones (log-uniform 1e-16..0.25), both sides
fn lattice_points(rng: &mut Rng, c: f64, extra: usize) -> Vec<f64> {
    let mut v = Vec::new();
    for d in lattice_offsets() {
        v.push(c + d);
        v.push(c - d);
    }
    for _ in 0..extra {
        let d = rng.log_range(1e-16, 0.25);
        v.push(if rng.bool() { c + d } else { c - d });
    }
    v
}

/// Legendre duplication Γ(2x) = 2^(2x−1) Γ(x) Γ(x+½) / √π on the library's own values, x > 0. Each of
/// the three values may be off by 1e-13 (accuracy clause), the power of two by its rounded exponent.
fn duplication_point(rep: &mut Report, fam: &str, x: f64) {
    if !(x > POLE_NBHD && 2.0 * x < 171.6) || Dd::sum2(x, 0.5).lo != 0.0 {
        return;
    }
    let (t0, t1, t2) = (sp::tgamma(x), sp::tgamma(x + 0.5), sp::tgamma(2.0 * x));
    if !is_normal_finite(t0) || !is_normal_finite(t1) || !is_normal_finite(t2) {
        return;
    }
    let reg = format!("ident:{}duplication", fam);
    rep.case(&reg);
    rep.distinct(Hasher::new().s("dup").f(x).finish(), true);
    let (g0, g1, g2) = (gamma(x), gamma(x + 0.5), gamma(2.0 * x));
    // 2^(2x-1) in two halves (no overflow), exponent 2x-1 rounded once: relative error <= ln2·u·|2x-1| each
    let h = (x - 0.5).exp2();
    let resid = (g2 / g0 / h / g1 / h * std::f64::consts::PI.sqrt() - 1.0).abs();
    let tol = 3.0 * GAMMA_TOL + 16.0 * f64::EPSILON * (1.0 + 2.0 * x);
    let ok = resid <= tol;
    if ok {
        rep.note_max("worst_ratio.ident.duplication", resid / tol);
    }
    rep.check("C09.ident.duplication", &reg, ok, || json!({"x": x, "gamma(x)": jnum(g0), "gamma(x+1/2)": jnum(g1), "gamma(2x)": jnum(g2), "rel_residual": jnum(resid), "tolerance": tol}));
}

const LAT: &str = "near-lattice:";

/// gamma: centre number `i` of the centres m/2 in [-169.5, 171.5] (non-positive integers are the
/// poles: only offsets >= 1e-3 count there)
const GAMMA_CENTRES: usize = 2 * 171 + 1 + 2 * 169 + 1;
fn lattice_gamma_case(rep: &mut Report, rng: &mut Rng, i: usize, extra: usize) {
    let c = (i as i64 - 339) as f64 * 0.5;
    let mut acc = GammaAccs::family(LAT);
    let r = guard(|| {
        for z in lattice_points(rng, c, extra) {
            if acc.point(z) {
                rep.distinct(Hasher::new().s("g").f(z).finish(), true);
                recurrence_point_f(rep, LAT, z);
                if z > 0.0 {
                    duplication_point(rep, LAT, z);
                    duplication_point(rep, LAT, 0.5 * z);
                }
            }
        }
    });
    acc.flush(rep);
    if let Err(msg) = r {
        rep.check("C09.gamma.no_panic", "gamma:near-lattice", false, || json!({"centre": c, "panic": msg}));
    }
}

/// beta: both arguments on or next to the lattice, independently
fn lattice_beta_case(rep: &mut Report, rng: &mut Rng, offs: &[f64]) {
    for k in 0..400 {
        let pick = |rng: &mut Rng, may_be_exact: bool| -> f64 {
            let c = rng.int(0, 159) as f64 * 0.5;
            let d = if may_be_exact && rng.chance(0.25) {
                0.0
            } else if rng.chance(0.2) {
                rng.log_range(1e-16, 0.25)
            } else {
                *rng.choose(offs)
            };
            if c == 0.0 || rng.bool() {
                c + d
            } else {
                c - d
            }
        };
        let a = pick(rng, k % 2 == 0);
        let b = pick(rng, k % 2 == 1);
        if a > 1e-3 && b > 1e-3 && a < 80.0 && b < 80.0 {
            beta_judge(rep, LAT, a, b, None);
        }
    }
}

fn lattice_digamma_case(rep: &mut Report, rng: &mut Rng, c: f64, extra: usize) {
    for x in lattice_points(rng, c, extra) {
        if x > 1e-3 && x < 1e6 {
            digamma_judge(rep, LAT, x, None);
        }
    }
}

fn lattice_erf_case(rep: &mut Report, rng: &mut Rng, c: f64, extra: usize) {
    let mut acc = ErfAccs::family(LAT);
    let r = guard(|| {
        for x in lattice_points(rng, c, extra) {
            // x = 0 itself is a single argument with its own label in the base workload
            if x > 0.0 && x <= 40.0 {
                acc.point(x);
                rep.distinct(Hasher::new().s("e").f(x).finish(), true);
            }
        }
    });
    acc.flush(rep);
    if let Err(msg) = r {
        rep.check("C09.erf.no_panic", "erf:near-lattice", false, || json!({"centre": c, "panic": msg}));
    }
}

/// All added families run as one fan-out (stream 8): case index ranges, in this order: gamma lattice
/// centres, beta lattice batches, digamma centres, erf centres, history cases, close sequences.
fn run_added_families(cfg: &Cfg, rep: &mut Report) {
    let extra = cfg.pick(16, 400, 2);
    let offs = lattice_offsets();
    // digamma: centres m/2 up to 200 and a few large ones; erf: centres m/4 in [0, 6], integers to 40
    let mut dcentres: Vec<f64> = (1..=400).map(|m| m as f64 * 0.5).collect();
    dcentres.extend([500.0, 1000.0, 4096.0, 1e4, 65536.5, 1e5, 999_999.0]);
    let mut ecentres: Vec<f64> = (0..=24).map(|m| m as f64 * 0.25).collect();
    ecentres.extend((7..=40).map(|m| m as f64));
    let n_beta = cfg.pick(100, 2000, 1);
    let n_hist = cfg.pick(4 * 1500, 4 * 30_000, 4);
    let n_seq = cfg.pick(4 * 1500, 4 * 30_000, 4);
    let bounds = [GAMMA_CENTRES, n_beta, dcentres.len(), ecentres.len(), n_hist, n_seq];
    let total: usize = bounds.iter().sum();
    par_cases(cfg, rep, 8, total, |i, rng: &mut Rng, rep| {
        let mut k = i;
        let mut fam = 0;
        while k >= bounds[fam] {
            k -= bounds[fam];
            fam += 1;
        }
        match fam {
            0 => lattice_gamma_case(rep, rng, k, extra),
            1 => lattice_beta_case(rep, rng, &offs),
            2 => lattice_digamma_case(rep, rng, dcentres[k], extra),
            3 => lattice_erf_case(rep, rng, ecentres[k], extra),
            4 => history_case(rep, rng, k % 4, (k / 4) % 16 == 0),
            _ => sequence_case(rep, rng, k % 4),
        }
    });
    for r in ["gamma:near-lattice:1e-3<=z<0.5", "gamma:near-lattice:0.5<=z<142.57", "gamma:near-lattice:z>=142.57", "gamma:near-lattice:-141.57<z<0", "gamma:near-lattice:z<=-141.57",
        "ident:near-lattice:0<x<141.57", "ident:near-lattice:-141.57<x<0", "ident:near-lattice:duplication", "beta:near-lattice:a+b<142.57", "beta:near-lattice:a+b>=142.57",
        "digamma:near-lattice:x<1", "digamma:near-lattice:1<=x<6", "digamma:near-lattice:6<=x<100", "digamma:near-lattice:x>=100", "erf:near-lattice:0<|x|<=6", "erf:near-lattice:6<|x|<=40"] {
        rep.require(r, 1);
    }
    for f in ["gamma", "beta", "digamma", "erf"] {
        for kind in ["fresh-thread", "after-self", "after-near", "sweep"] {
            rep.require(&format!("{}:history:{}", f, kind), 1);
        }
        rep.require(&format!("cover:{}:close-sequence", f), 1);
    }
}

// ---------------------------------------------------------------------------------------------
// history independence and sequences of close arguments

#[derive(Clone, Copy, Debug, PartialEq)]
enum Call {
    Gamma(f64),
    Beta(f64, f64),
    Digamma(f64),
    Erf(f64),
}

/// bits of the returned value, or "panicked"
type Obs = Result<u64, ()>;

fn next_up(x: f64) -> f64 {
    if x == 0.0 {
        return 5e-324;
    }
    let b = x.to_bits();
    f64::from_bits(if x > 0.0 { b + 1 } else { b - 1 })
}

/// a different argument within 2^-52 (relative) .. 1e-6 of x, same sign
fn nudge(rng: &mut Rng, x: f64) -> f64 {
    let y = match rng.usize(0, 3) {
        0 => {
            if rng.bool() {
                next_up(x)
            } else {
                -next_up(-x)
            }
        }
        1 => x + rng.log_range(1e-15, 1e-6) * if rng.bool() { 1.0 } else { -1.0 },
        _ => x * (1.0 + rng.log_range(1e-15, 1e-6) * if rng.bool() { 1.0 } else { -1.0 }),
    };
    if y == x || !y.is_finite() || (y > 0.0) != (x > 0.0) {
        next_up(x)
    } else {
        y
    }
}

impl Call {
    fn name(&self) -> &'static str {
        match self {
            Call::Gamma(_) => "gamma",
            Call::Beta(..) => "beta",
            Call::Digamma(_) => "digamma",
            Call::Erf(_) => "erf",
        }
    }
    fn eval_f(&self) -> Result<f64, ()> {
        guard(|| match *self {
            Call::Gamma(z) => gamma(z),
            Call::Beta(a, b) => beta(a, b),
            Call::Digamma(x) => digamma(x),
            Call::Erf(x) => erf(x),
        })
        .map_err(|_| ())
    }
    fn eval(&self) -> Obs {
        self.eval_f().map(|v| if v.is_nan() { 0x7ff8_0000_0000_0000 } else { v.to_bits() })
    }
    fn json(&self) -> Value {
        match *self {
            Call::Gamma(z) => json!({"z": z}),
            Call::Beta(a, b) => json!({"a": a, "b": b}),
            Call::Digamma(x) | Call::Erf(x) => json!({"x": x}),
        }
    }
    fn near(&self, rng: &mut Rng) -> Call {
        match *self {
            Call::Gamma(z) => Call::Gamma(nudge(rng, z)),
            Call::Digamma(x) => Call::Digamma(nudge(rng, x)),
            Call::Erf(x) => Call::Erf(nudge(rng, x)),
            Call::Beta(a, b) => match rng.usize(0, 2) {
                0 => Call::Beta(nudge(rng, a), b),
                1 => Call::Beta(a, nudge(rng, b)),
                _ => Call::Beta(nudge(rng, a), nudge(rng, b)),
            },
        }
    }
    /// the next element of an arithmetic sequence with step h in the first (beta: `both` → both) argument
    fn step(&self, h: f64, both: bool) -> Call {
        match *self {
            Call::Gamma(z) => Call::Gamma(z + h),
            Call::Digamma(x) => Call::Digamma(x + h),
            Call::Erf(x) => Call::Erf(x + h),
            Call::Beta(a, b) => Call::Beta(a + h, if both { b + h } else { b }),
        }
    }
}

/// an argument of the property's quantifier: random, or on / next to the lattice
fn gen_call(rng: &mut Rng, which: usize) -> Call {
    let lat = |rng: &mut Rng, lo: i64, hi: i64| -> f64 {
        let c = rng.int(lo, hi) as f64 * 0.5;
        match rng.usize(0, 2) {
            0 => c,
            1 => c + rng.log_range(1e-15, 0.25) * if rng.bool() { 1.0 } else { -1.0 },
            _ => c + 2f64.powi(-(rng.int(2, 50) as i32)) * if rng.bool() { 1.0 } else { -1.0 },
        }
    };
    match which % 4 {
        0 => Call::Gamma(match rng.usize(0, 3) {
            0 => rng.range(-170.0, 171.6),
            1 => rng.log_range(1e-3, 171.6),
            _ => lat(rng, -339, 343),
        }),
        1 => {
            let arg = |rng: &mut Rng| -> f64 {
                let v = if rng.bool() { rng.log_range(1e-3, 80.0) } else { lat(rng, 1, 159) };
                v.clamp(1.000001e-3, 79.999)
            };
            let a = arg(rng);
            let b = if rng.chance(0.1) { a } else { arg(rng) };
            Call::Beta(a, b)
        }
        2 => Call::Digamma(match rng.usize(0, 2) {
            0 => rng.log_range(1e-3, 1e6),
            1 => rng.range(1e-3, 12.0),
            _ => lat(rng, 1, 400).max(1.000001e-3),
        }),
        _ => Call::Erf(match rng.usize(0, 3) {
            0 => rng.range(-6.0, 6.0),
            1 => rng.range(-40.0, 40.0),
            2 => rng.log_range(1e-300, 6.0),
            _ => lat(rng, -24, 24) * 0.5,
        }),
    }
}

fn obs_json(o: &Obs) -> Value {
    match o {
        Err(()) => json!("panic"),
        Ok(b) => json!(format!("{:#018x} ({:e})", b, f64::from_bits(*b))),
    }
}

/// The value of a special function must not depend on the calls the thread made before. The call
/// under test is observed (a) right after an unrelated call of the same function — the baseline —,
/// (b) as the first library call of a new thread, (c) after itself, (d) after each of three near
/// neighbours (2^-52..1e-6 away), (e) at the end of the sweep near1, near2, near3, target; the
/// neighbours are observed after the target and inside the sweep too. All observations of one argument
/// must agree bit for bit.
fn history_case(rep: &mut Report, rng: &mut Rng, which: usize, fresh: bool) {
    let target = gen_call(rng, which);
    let far = gen_call(rng, which);
    let nears: Vec<Call> = (0..3).map(|_| target.near(rng)).collect();
    let name = target.name();
    let assertion = format!("C09.{}.history_independent", name);
    // every observation starts from the same state: the unrelated call first, so that the recorded
    // predecessor chain (unrelated call, predecessor, call) is the complete relevant history
    let after = |pred: &Call, c: &Call| -> Obs {
        let _ = far.eval();
        let _ = pred.eval();
        c.eval()
    };
    let baseline = |c: &Call| -> Obs {
        let _ = far.eval();
        c.eval()
    };
    let base_t = baseline(&target);
    let base_n: Vec<Obs> = nears.iter().map(baseline).collect();
    let cmp = |rep: &mut Report, kind: &str, c: &Call, base: &Obs, got: &Obs, pred: Value| {
        let regime = format!("{}:history:{}", name, kind);
        rep.case(&regime);
        rep.check(&assertion, &regime, base == got, || json!({"call": c.json(), "preceded_by": pred, "observed": obs_json(got), "same_call_after_an_unrelated_call": obs_json(base), "unrelated_call": far.json()}));
    };
    if fresh {
        let got = std::thread::scope(|s| s.spawn(|| target.eval()).join().expect("fresh thread"));
        cmp(rep, "fresh-thread", &target, &base_t, &got, json!("nothing (first call of a new thread)"));
    }
    let got = after(&target, &target);
    cmp(rep, "after-self", &target, &base_t, &got, target.json());
    for (c, b) in nears.iter().zip(&base_n) {
        let got = after(c, &target);
        cmp(rep, "after-near", &target, &base_t, &got, c.json());
        let got = after(&target, c);
        cmp(rep, "after-near", c, b, &got, target.json());
    }
    let _ = far.eval();
    let mut prev = far.json();
    for (c, b) in nears.iter().zip(&base_n).chain(std::iter::once((&target, &base_t))) {
        let got = c.eval();
        cmp(rep, "sweep", c, b, &got, prev);
        prev = c.json();
    }
    rep.distinct(Hasher::new().s("hist").s(name).s(&target.json().to_string()).finish(), true);
}

const SEQ: &str = "close-sequence:";

/// A run of 8..32 arguments in arithmetic progression with a step of 1e-13..1e-7 is evaluated back to
/// back (nothing else in between); afterwards every value is judged against the reference with the
/// tolerance of the accuracy clause.
fn sequence_case(rep: &mut Report, rng: &mut Rng, which: usize) {
    let start = gen_call(rng, which);
    let h = rng.log_range(1e-13, 1e-7) * if rng.bool() { 1.0 } else { -1.0 };
    let both = rng.bool();
    let len = rng.usize(8, 32);
    let mut calls = vec![start];
    for _ in 1..len {
        let nx = calls.last().unwrap().step(h, both);
        calls.push(nx);
    }
    let inside = |c: &Call| match *c {
        Call::Gamma(z) => z > -170.0 && z < 171.6,
        Call::Beta(a, b) => a > 1e-3 && b > 1e-3 && a < 80.0 && b < 80.0,
        Call::Digamma(x) => x > 1e-3 && x < 1e6,
        Call::Erf(x) => x.abs() <= 40.0 && x != 0.0,
    };
    calls.retain(inside);
    if calls.len() < 2 {
        return;
    }
    let vals: Vec<Result<f64, ()>> = calls.iter().map(|c| c.eval_f()).collect();
    // erf: the mirrored sequence afterwards, for the odd-symmetry part of the judge
    let mirrored: Vec<Result<f64, ()>> = calls.iter().map(|c| if let Call::Erf(x) = c { Call::Erf(-x).eval_f() } else { Err(()) }).collect();
    let mut gacc = GammaAccs::family(SEQ);
    let mut eacc = ErfAccs::family(SEQ);
    for ((c, v), m) in calls.iter().zip(&vals).zip(&mirrored) {
        let v = match v {
            Ok(v) => *v,
            Err(()) => {
                let reg = format!("{}:close-sequence", c.name());
                rep.case(&reg);
                rep.check(&format!("C09.{}.no_panic", c.name()), &reg, false, || json!({"call": c.json(), "panic": true}));
                continue;
            }
        };
        match *c {
            Call::Gamma(z) => {
                gacc.judge(z, Some(v));
            }
            Call::Beta(a, b) => beta_judge(rep, SEQ, a, b, Some(v)),
            Call::Digamma(x) => digamma_judge(rep, SEQ, x, Some(v)),
            Call::Erf(x) => {
                if let Ok(m) = m {
                    if x >= 0.0 {
                        eacc.judge(x, v, *m)
                    } else {
                        eacc.judge(-x, *m, v)
                    }
                }
            }
        }
    }
    gacc.flush(rep);
    eacc.flush(rep);
    rep.seen(&format!("cover:{}:close-sequence", start.name()), 1);
}

// ---------------------------------------------------------------------------------------------

pub fn run(cfg: &Cfg, rep: &mut Report) {
    rep.rule = "gamma: f32-representable z in (-170,171.6) (quick: stratified sample — uniform in value and uniform in bit pattern; thorough: every f32, every 16th below 1e-3) + random f64; erf: f32-representable x in [-6,6] (thorough: all) + random f64 in ±40, x and -x observed together; beta: a,b log-uniform in (1e-3,80); digamma: all integers <= 1e4 and log-uniform (1e-3,1e6). near-lattice: arguments c ± 10^-k, c ± 2^-j, c ± random δ around integers and half-integers for all four functions; history: one argument re-evaluated after itself, after near neighbours, in a sweep and on a fresh thread; close sequences of 8..32 arguments. non-trivial = argument is not 0/1/2; distinct = distinct argument bits (quick) or distinct 1024-wide f32 bit buckets (thorough sweeps; exact point counts are in notes.points.*)".into();
    rep.assume("gamma arguments within 1e-3 of a pole (non-positive integer) are outside the quantifier and skipped; arguments whose true value (glibc tgamma) is not a finite normal f64 are skipped");
    rep.assume("gamma tolerance 1e-13*s(z), s=1 for z>0, s=1+40|z|eps/(1e-13*dist(z,poles)) for z<0 (conditioning of the reflection formula w.r.t. one ulp of the argument)");
    rep.assume("reference = glibc tgamma/erf (<= 1e-15 rel. vs mpmath at development time); digamma reference = own recurrence+asymptotic series in double-double, self-tested against 8 mpmath values");
    rep.assume("near-lattice family: f64 arguments c ± 10^-k (k = 1..15), c ± 2^-j (j = 2..50) and c ± random δ in (1e-16, 0.25) around every integer and half-integer c of the range (gamma: -169.5..171.5, poles keep their 1e-3 neighbourhood; beta: both arguments; digamma: c <= 200 and seven large centres; erf: quarter-integers to 6, integers to 40), judged with the tolerances of the accuracy clause; Γ(x+1) = xΓ(x) and the duplication formula Γ(2x) = 2^(2x-1)Γ(x)Γ(x+½)/√π (tolerance 3e-13 + 16ε(1+2x): three values at 1e-13 each plus the rounded exponent) are formed there on the library's own values");
    rep.assume("history independence: gamma, beta, digamma, erf are functions of their arguments, so one argument has one result (bit pattern) whatever the thread called before; baseline = the same call made directly after an unrelated call of the same function, and (one case in 16) the first call of a new thread; close sequences (arithmetic progressions with step 1e-13..1e-7 evaluated back to back) are judged value by value against the reference");
    rep.assume("beta reference = tgamma(a)tgamma(b)/tgamma(a+b), cross-checked with exp(lgamma a + lgamma b - lgamma(a+b)) to 1e-12");
    if let Err(e) = digamma_selftest() {
        rep.inconclusive(format!("oracle self-test failed: {}", e));
        return;
    }
    let thorough = cfg.thorough() && !cfg.lite;

    // added families first (near-lattice f64 arguments, history independence, close sequences): their
    // bookkeeping is merged while the report is still small
    run_added_families(cfg, rep);

    // ---- gamma: f32 arguments ------------------------------------------------------------------
    let pos_hi = f32_pos_limit(171.6f32); // bits of the largest f32 < 171.6
    let neg_hi = f32_pos_limit(170.0f32); // magnitude bits of the smallest f32 > -170
    let small = (POLE_NBHD as f32).to_bits(); // below this: pole neighbourhood of 0
    if thorough {
        const CH: u32 = 1 << 20;
        let npos = (pos_hi / CH + 1) as usize;
        let nneg = (neg_hi / CH + 1) as usize;
        par_cases(cfg, rep, 1, npos + nneg, |i, _rng, rep| {
            let (neg, c, hi) = if i < npos { (false, i as u32, pos_hi) } else { (true, (i - npos) as u32, neg_hi) };
            let lo_b = (c * CH).max(1);
            let hi_b = ((c as u64 + 1) * CH as u64 - 1).min(hi as u64) as u32;
            let mut acc = GammaAccs::default();
            let r = guard(|| {
                let mut b = lo_b;
                while b <= hi_b {
                    let z = f32::from_bits(b) as f64;
                    let z = if neg { -z } else { z };
                    let counted = acc.point(z);
                    if counted && b & 1023 == 0 {
                        rep.distinct(Hasher::new().s("g32").u(neg as u64).u((b >> 10) as u64).finish(), true);
                    }
                    // inside the neighbourhood of the pole at 0: skip (negative side) / thin out (positive side)
                    b += if b < small { if neg { small - b } else { 16 } } else { 1 };
                }
            });
            acc.flush(rep);
            if let Err(msg) = r {
                rep.check("C09.gamma.no_panic", "gamma:f32", false, || json!({"chunk_first_bits": lo_b, "negative": neg, "panic": msg}));
            }
        });
    } else {
        let per = 1000usize;
        let n = cfg.pick(200, 200, 2);
        par_cases(cfg, rep, 1, n, |i, rng: &mut Rng, rep| {
            let mut acc = GammaAccs::default();
            let r = guard(|| {
                for k in 0..per {
                    let z = match k % 4 {
                        // uniform in value, rounded to f32 (stratum i of n)
                        0 | 1 => {
                            let w = (171.6 + 170.0) / n as f64;
                            (-170.0 + w * (i as f64 + rng.f64())) as f32 as f64
                        }
                        // uniform in bit pattern: covers every binade
                        2 => f32::from_bits(rng.int(small as i64, pos_hi as i64) as u32) as f64,
                        _ => -(f32::from_bits(rng.int(small as i64, neg_hi as i64) as u32) as f64),
                    };
                    if acc.point(z) {
                        rep.distinct(Hasher::new().s("g").f(z).finish(), z != 1.0 && z != 2.0);
                    }
                }
            });
            acc.flush(rep);
            if let Err(msg) = r {
                rep.check("C09.gamma.no_panic", "gamma:f32", false, || json!({"case": i, "panic": msg}));
            }
        });
    }
    // deterministic landmarks: half-integers, integers ± small f32 offsets, both defect boundaries
    {
        let mut acc = GammaAccs::default();
        for n in -169..=171 {
            for off in [0.0, 0.5, 0.25, 0.001953125, -0.001953125, 0.0625, -0.0625] {
                let z = (n as f64 + off) as f32 as f64;
                if acc.point(z) {
                    rep.distinct(Hasher::new().s("g").f(z).finish(), z != 1.0 && z != 2.0);
                }
            }
        }
        acc.flush(rep);
    }
    // ---- gamma: random f64 ---------------------------------------------------------------------
    {
        let per = 1000usize;
        let n = cfg.pick(100, 2000, 1);
        par_cases(cfg, rep, 2, n, |i, rng: &mut Rng, rep| {
            let mut acc = GammaAccs::default();
            let r = guard(|| {
                for k in 0..per {
                    let z = match k % 4 {
                        0 => rng.range(-170.0, 171.6),
                        1 => rng.log_range(1e-3, 171.6),
                        2 => -rng.log_range(1e-3, 170.0),
                        // close to (but outside the neighbourhood of) a pole
                        _ => -(rng.int(0, 169) as f64) + rng.log_range(POLE_NBHD, 0.5) * if rng.bool() { 1.0 } else { -1.0 },
                    };
                    if acc.point(z) {
                        rep.distinct(Hasher::new().s("g").f(z).finish(), true);
                    }
                    if k % 4 != 3 {
                        recurrence_point(rep, z);
                    }
                }
            });
            acc.flush(rep);
            if let Err(msg) = r {
                rep.check("C09.gamma.no_panic", "gamma:f64", false, || json!({"case": i, "panic": msg}));
            }
        });
    }
    factorials(rep);

    // ---- erf ------------------------------------------------------------------------------------
    let six = 6.0f32.to_bits();
    if thorough {
        const CH: u32 = 1 << 20;
        let nch = (six / CH + 1) as usize;
        par_cases(cfg, rep, 3, nch, |i, _rng, rep| {
            let lo_b = i as u32 * CH;
            let hi_b = ((i as u64 + 1) * CH as u64 - 1).min(six as u64) as u32;
            let mut acc = ErfAccs::default();
            let r = guard(|| {
                for b in lo_b..=hi_b {
                    acc.point(f32::from_bits(b) as f64);
                    if b & 1023 == 0 {
                        rep.distinct(Hasher::new().s("e32").u((b >> 10) as u64).finish(), b != 0);
                    }
                }
            });
            acc.flush(rep);
            if let Err(msg) = r {
                rep.check("C09.erf.no_panic", "erf:f32", false, || json!({"chunk_first_bits": lo_b, "panic": msg}));
            }
        });
    }
    {
        let per = 5000usize;
        let n = cfg.pick(100, 400, 1);
        par_cases(cfg, rep, 4, n, |i, rng: &mut Rng, rep| {
            let mut acc = ErfAccs::default();
            let r = guard(|| {
                if i == 0 {
                    acc.point(0.0);
                    acc.point(6.0);
                    acc.point(f32::from_bits(1) as f64);
                }
                for k in 0..per {
                    let x = match k % 5 {
                        0 | 1 => rng.range(0.0, 6.0) as f32 as f64,
                        2 => f32::from_bits(rng.int(1, six as i64) as u32) as f64,
                        3 => rng.range(0.0, 40.0),
                        _ => rng.log_range(1e-300, 40.0),
                    };
                    acc.point(x);
                    rep.distinct(Hasher::new().s("e").f(x).finish(), true);
                }
            });
            acc.flush(rep);
            if let Err(msg) = r {
                rep.check("C09.erf.no_panic", "erf:sample", false, || json!({"case": i, "panic": msg}));
            }
        });
    }

    // ---- beta -----------------------------------------------------------------------------------
    {
        let per = 500usize;
        let n = cfg.pick(100, 2000, 1);
        par_cases(cfg, rep, 5, n, |_i, rng: &mut Rng, rep| {
            for k in 0..per {
                let (a, b) = match k % 4 {
                    0 | 1 => (rng.log_range(1e-3, 80.0), rng.log_range(1e-3, 80.0)),
                    2 => (rng.range(1e-3, 80.0), rng.range(1e-3, 80.0)),
                    // integer / half-integer arguments
                    _ => (rng.int(1, 159) as f64 * 0.5, rng.int(1, 159) as f64 * 0.5),
                };
                beta_point(rep, a, b);
            }
        });
    }

    // ---- digamma --------------------------------------------------------------------------------
    {
        let nmax = if cfg.lite { 200 } else { 10_000 };
        let table = digamma_integers(nmax);
        let nch = 16usize.min(nmax);
        par_cases(cfg, rep, 6, nch, |i, _rng, rep| {
            let mut n = i + 1;
            while n <= nmax {
                let x = n as f64;
                let reg = "digamma:integer";
                rep.case(reg);
                rep.distinct(Hasher::new().s("dgi").u(n as u64).finish(), n > 2);
                match guard(|| digamma(x)) {
                    Ok(got) => {
                        let want = table[n];
                        let err = (got - want).abs() / want.abs().max(1.0);
                        rep.note_max("worst_ratio.digamma.harmonic", if err.is_nan() { f64::INFINITY } else { err / DIGAMMA_TOL });
                        rep.check("C09.digamma.harmonic", reg, err <= DIGAMMA_TOL, || json!({"n": n, "observed": jnum(got), "expected H(n-1)-gamma": want, "err": jnum(err), "tolerance": DIGAMMA_TOL}));
                    }
                    Err(msg) => {
                        rep.check("C09.digamma.no_panic", reg, false, || json!({"n": n, "panic": msg}));
                    }
                }
                n += nch;
            }
        });
        let per = 500usize;
        let n = cfg.pick(100, 2000, 1);
        par_cases(cfg, rep, 7, n, |_i, rng: &mut Rng, rep| {
            for k in 0..per {
                let x = match k % 4 {
                    0 | 1 => rng.log_range(1e-3, 1e6),
                    2 => rng.range(1e-3, 12.0),
                    _ => rng.log_range(1e-3, 1e6) as f32 as f64,
                };
                digamma_point(rep, x);
            }
        });
    }

    for r in ["gamma:1e-3<=z<0.5", "gamma:0.5<=z<142.57", "gamma:z>=142.57", "gamma:-141.57<z<0", "gamma:z<=-141.57", "erf:x=0", "erf:0<|x|<=6", "erf:6<|x|<=40", "beta:a+b<142.57", "digamma:integer", "digamma:x<1", "digamma:1<=x<6", "digamma:6<=x<100", "digamma:x>=100", "ident:0<x<141.57", "ident:-141.57<x<0", "ident:n!:n<=141"] {
        rep.require(r, 1);
    }
}
} // mod native
