//! C08 — descriptive statistics equal their textbook definitions (DESIGN §3 C08).
//!
//! Events: return values of `mean, welford_mean, var, sample_var, std, sample_std, covariance,
//! sample_covariance, sample_covariance_onepass, sample_covariance_online, min, max, argmin, argmax,
//! hist_bin_centers` and of the `Vector` / `Matrix` methods that wrap them.
//! Oracle: exact rationals (`Rat`, i128) on small-integer data, a two-pass double-double reference on
//! everything else; tolerance = the forward bound of a *stable* (updating or two-pass) algorithm,
//!   B = 16·[ n·u·σxσy + n·u·(σx|μy| + σy|μx|) + (n·u)²|μxμy| ]         (u = 2^-53)
//! — first term: rounding of the centred sum; second: first-order effect of the rounding of a running
//! mean (Welford / Chan–Golub–LeVeque `n·u·κ`); third: second-order effect of a mean that is off by
//! n·u·|μ| in a two-pass algorithm. A textbook E[xy]−E[x]E[y] evaluation is off by ≈ u·|μxμy| and
//! violates B by ≈ |μ|/(32·n·σ) (≈ 300 at mean/sd = 1e8, n = 1e4). Metamorphic relations on the
//! library's own outputs: exact shift, power-of-two scaling (bitwise), symmetry, cov(x,x) = var(x),
//! agreement of the covariance algorithms. min/max by value (either zero for ±0), argmin/argmax first
//! occurrence, hist_bin_centers against (e_i+e_{i+1})/2.
use crate::gen::Rng;
use crate::oracle::dd::{self, Dd, U};
use crate::oracle::exact::Rat;
use crate::report::{guard, jf, jnum, par_cases, same_bits, Cfg, Hasher, Report};
use compute::linalg::{Matrix, Vector};
use compute::statistics as st;
use serde_json::{json, Value};

const C: f64 = 16.0;

// ---------------------------------------------------------------------------------------------
// references

/// first and second moments of a data set (or a pair), as f64 values of an exact / double-double computation
#[derive(Clone, Copy, Debug)]
struct Mom {
    n: usize,
    mean: Dd,
    /// Σ (x−mean)², exact or double-double
    m2: f64,
    max_abs: f64,
}

fn is_small_int(x: &[f64]) -> bool {
    x.iter().all(|&v| v.fract() == 0.0 && v.abs() <= 1e6)
}

fn moments(x: &[f64], exact: bool) -> Mom {
    let n = x.len();
    let max_abs = x.iter().fold(0.0f64, |a, &v| a.max(v.abs()));
    if exact {
        let s: i128 = x.iter().map(|&v| v as i128).sum();
        let q: i128 = x.iter().map(|&v| (v as i128) * (v as i128)).sum();
        let mean = Dd::new(s as f64) / Dd::new(n as f64); // |s| <= 1e10: exact in f64
        let m2 = Rat::new(n as i128 * q - s * s, n as i128).f();
        Mom { n, mean, m2, max_abs }
    } else {
        let mean = dd::mean(x);
        let mut m2 = Dd::ZERO;
        for &v in x {
            let d = Dd::new(v) - mean;
            m2 = m2 + d * d;
        }
        Mom { n, mean, m2: m2.f().max(0.0), max_abs }
    }
}
/// Σ (x−mx)(y−my)
fn comoment(x: &[f64], y: &[f64], mx: &Mom, my: &Mom, exact: bool) -> f64 {
    let n = x.len() as i128;
    if exact {
        let sx: i128 = x.iter().map(|&v| v as i128).sum();
        let sy: i128 = y.iter().map(|&v| v as i128).sum();
        let sxy: i128 = x.iter().zip(y).map(|(&a, &b)| (a as i128) * (b as i128)).sum();
        Rat::new(n * sxy - sx * sy, n).f()
    } else {
        let mut c = Dd::ZERO;
        for (&a, &b) in x.iter().zip(y) {
            c = c + (Dd::new(a) - mx.mean) * (Dd::new(b) - my.mean);
        }
        c.f()
    }
}
impl Mom {
    fn sd_pop(&self) -> f64 {
        (self.m2 / self.n as f64).sqrt()
    }
    fn mu(&self) -> f64 {
        self.mean.f().abs()
    }
}
/// the bound B for the population co-moment / n (see module doc); multiply by n/(n−1) for the sample version
fn bound(a: &Mom, b: &Mom) -> f64 {
    bound_nofloor(a, b) + 1e-300
}
/// B itself, without the absolute floor (the subnormal family states its own underflow allowance)
fn bound_nofloor(a: &Mom, b: &Mom) -> f64 {
    let nu = a.n as f64 * U;
    let (sx, sy, mx, my) = (a.sd_pop(), b.sd_pop(), a.mu(), b.mu());
    C * (nu * sx * sy + nu * (sx * my + sy * mx) + nu * nu * mx * my)
}
/// DESIGN's original formula c·n·ε·(σ² + ε·μ²), recorded for comparison only
fn design_bound(a: &Mom, b: &Mom) -> f64 {
    let e = f64::EPSILON;
    C * a.n as f64 * e * (a.sd_pop() * b.sd_pop() + e * a.mu() * b.mu()) + 1e-300
}
fn ulp(x: f64) -> f64 {
    let a = x.abs().max(f64::MIN_POSITIVE);
    a.next_up() - a
}

// ---------------------------------------------------------------------------------------------
// data classes

const CLASSES: [&str; 8] = ["small-int", "gaussian", "offset", "constant", "sorted", "reversed", "ties", "signed-zeros"];

fn gen_len(rng: &mut Rng, maxlen: usize, min: usize) -> usize {
    let n = match rng.usize(0, 19) {
        0 => 1,
        1..=6 => rng.usize(2, 9),
        7..=15 => rng.usize(10, 300),
        _ => rng.log_range(301.0, 10_000.99).floor() as usize,
    };
    n.clamp(min, maxlen.max(min))
}

fn gen_data(rng: &mut Rng, class: &str, n: usize) -> Vec<f64> {
    match class {
        "small-int" => match rng.usize(0, 2) {
            0 => rng.ints(n, -50, 50),
            1 => rng.ints(n, 0, 1000),
            _ => {
                let base = rng.int(-100_000, 100_000);
                (0..n).map(|_| (base + rng.int(-20, 20)) as f64).collect()
            }
        },
        "gaussian" => {
            let s = 10f64.powf(rng.range(-3.0, 3.0));
            let m = rng.normal() * s;
            (0..n).map(|_| m + s * rng.normal()).collect()
        }
        "offset" => {
            let s = 10f64.powf(rng.range(-2.0, 2.0));
            let m = s * 10f64.powf(rng.range(2.0, 8.0)) * if rng.bool() { 1.0 } else { -1.0 };
            (0..n).map(|_| m + s * rng.normal()).collect()
        }
        "constant" => {
            let c = match rng.usize(0, 3) {
                0 => rng.int(-5, 5) as f64,
                1 => 0.1,
                2 => rng.normal() * 1e8,
                _ => rng.normal(),
            };
            vec![c; n]
        }
        "sorted" | "reversed" => {
            let off = if rng.chance(0.3) { 1e6 } else { 0.0 };
            let mut v: Vec<f64> = (0..n).map(|_| off + rng.normal()).collect();
            v.sort_by(|a, b| a.partial_cmp(b).unwrap());
            if class == "reversed" {
                v.reverse();
            }
            v
        }
        "ties" => {
            let k = rng.usize(1, 5);
            let pool: Vec<f64> = (0..k).map(|_| if rng.bool() { rng.int(-3, 3) as f64 } else { rng.normal() }).collect();
            (0..n).map(|_| *rng.choose(&pool)).collect()
        }
        _ => {
            // signed zeros, optionally with a few one-signed non-zero values so that a zero is the extreme
            let extra = rng.usize(0, 2);
            (0..n)
                .map(|_| match rng.usize(0, 5) {
                    0 | 1 => 0.0,
                    2 | 3 => -0.0,
                    _ => match extra {
                        0 => 0.0,
                        1 => rng.f64() + 0.5,
                        _ => -rng.f64() - 0.5,
                    },
                })
                .collect()
        }
    }
}

// ---------------------------------------------------------------------------------------------
// single-vector statistics through one API

struct Stats1 {
    mean: f64,
    welford_mean: Option<f64>,
    var: f64,
    sample_var: f64,
    std: f64,
    sample_std: f64,
    min: f64,
    max: f64,
    argmin: usize,
    argmax: usize,
}

// The quantifier asks for at least two observations for the sample statistics: with fewer the library
// is not called at all (what it does there — NaN, a panic — is outside the property) and the value is a
// NaN placeholder that no assertion reads.
fn q_sample_var(x: &[f64]) -> f64 {
    if x.len() < 2 { f64::NAN } else { st::sample_var(x) }
}
fn q_sample_std(x: &[f64]) -> f64 {
    if x.len() < 2 { f64::NAN } else { st::sample_std(x) }
}
fn q_sample_covariance(x: &[f64], y: &[f64]) -> f64 {
    if x.len() < 2 { f64::NAN } else { st::sample_covariance(x, y) }
}
fn q_sample_covariance_onepass(x: &[f64], y: &[f64]) -> f64 {
    if x.len() < 2 { f64::NAN } else { st::sample_covariance_onepass(x, y) }
}
fn q_sample_covariance_online(x: &[f64], y: &[f64]) -> f64 {
    if x.len() < 2 { f64::NAN } else { st::sample_covariance_online(x, y) }
}
trait SampleQ {
    fn q_sample_var(&self) -> f64;
    fn q_sample_std(&self) -> f64;
}
impl SampleQ for Vector {
    fn q_sample_var(&self) -> f64 {
        if self.len() < 2 { f64::NAN } else { self.sample_var() }
    }
    fn q_sample_std(&self) -> f64 {
        if self.len() < 2 { f64::NAN } else { self.sample_std() }
    }
}
impl SampleQ for Matrix {
    fn q_sample_var(&self) -> f64 {
        if self.data.len() < 2 { f64::NAN } else { self.sample_var() }
    }
    fn q_sample_std(&self) -> f64 {
        if self.data.len() < 2 { f64::NAN } else { self.sample_std() }
    }
}

fn call_api(api: &str, x: &[f64], shape: (usize, usize)) -> Result<Stats1, String> {
    guard(|| match api {
        "free" => Stats1 {
            mean: st::mean(x),
            welford_mean: Some(st::welford_mean(x)),
            var: st::var(x),
            sample_var: q_sample_var(x),
            std: st::std(x),
            sample_std: q_sample_std(x),
            min: st::min(x),
            max: st::max(x),
            argmin: st::argmin(x),
            argmax: st::argmax(x),
        },
        "vector" => {
            let v = Vector::from(x.to_vec());
            Stats1 { mean: v.mean(), welford_mean: None, var: v.var(), sample_var: v.q_sample_var(), std: v.std(), sample_std: v.q_sample_std(), min: v.min(), max: v.max(), argmin: v.argmin(), argmax: v.argmax() }
        }
        _ => {
            let m = Matrix::new(x.to_vec(), shape.0 as i32, shape.1 as i32);
            let (r0, c0) = m.argmin();
            let (r1, c1) = m.argmax();
            // (row, col) -> flat index; an out-of-shape position maps to an impossible index
            let flat = |r: usize, c: usize| if r < shape.0 && c < shape.1 { r * shape.1 + c } else { usize::MAX };
            Stats1 { mean: m.mean(), welford_mean: None, var: m.var(), sample_var: m.q_sample_var(), std: m.std(), sample_std: m.q_sample_std(), min: m.min(), max: m.max(), argmin: flat(r0, c0), argmax: flat(r1, c1) }
        }
    })
}

fn check_single(rep: &mut Report, class: &str, x: &[f64], rng: &mut Rng) {
    let n = x.len();
    let exact = class == "small-int" && is_small_int(x);
    let m = moments(x, exact);
    let b_pop = bound(&m, &m);
    let b_smp = if n > 1 { b_pop * n as f64 / (n as f64 - 1.0) } else { f64::NAN };
    let var_pop = m.m2 / n as f64;
    let var_smp = m.m2 / (n as f64 - 1.0);
    let std_tol = |v: f64, b: f64| (b / v.sqrt()).min(b.sqrt()) + 4.0 * U * v.sqrt() + 1e-300;
    let mean_tol = 8.0 * n as f64 * U * m.max_abs + 1e-300;
    // reference extremes
    let (mut rmin, mut rmax, mut imin, mut imax) = (x[0], x[0], 0usize, 0usize);
    for (i, &v) in x.iter().enumerate() {
        if v < rmin {
            rmin = v;
            imin = i;
        }
        if v > rmax {
            rmax = v;
            imax = i;
        }
    }
    // a random r×c shape with r·c = n
    let divs: Vec<usize> = (1..=n.min(64)).filter(|d| n % d == 0).collect();
    let r = *rng.choose(&divs);
    let shape = if rng.bool() { (r, n / r) } else { (n / r, r) };
    for api in ["free", "vector", "matrix"] {
        let regime = format!("{}:{}", api, class);
        rep.case(&regime);
        let ctx = |stat: &str, obs: Value, exp: Value, extra: Value| json!({"api": api, "stat": stat, "class": class, "n": n, "matrix_shape": if api == "matrix" { json!([shape.0, shape.1]) } else { json!(null) }, "data": jf(x), "observed": obs, "expected": exp, "detail": extra});
        let s = match call_api(api, x, shape) {
            Err(msg) => {
                rep.check("C08.no_panic", &regime, false, || ctx("*", json!({"panic": msg}), json!("values"), json!(null)));
                continue;
            }
            Ok(s) => s,
        };
        rep.check("C08.no_panic", &regime, true, || json!(null));
        rep.note_add("library_calls", if api == "free" { 10.0 } else { 9.0 });
        // means
        let mut means = vec![("mean", s.mean)];
        if let Some(w) = s.welford_mean {
            means.push(("welford_mean", w));
        }
        for (name, v) in means {
            let err = (Dd::new(v) - m.mean).f().abs();
            let tol = if exact && name == "mean" { ulp(m.mean.f()) } else { mean_tol };
            if !(exact && name == "mean") {
                rep.note_max(&format!("worst_ratio.{}", name), if err.is_nan() { f64::INFINITY } else { err / tol });
            } else {
                rep.note_max("worst_ulps.mean.small-int", err / ulp(m.mean.f()));
            }
            rep.check(&format!("C08.{}", name), &regime, err <= tol, || ctx(name, jnum(v), json!(m.mean.f()), json!({"abs_err": jnum(err), "tol": tol, "oracle": if exact { "exact rational" } else { "double-double" }})));
        }
        // variances / standard deviations
        let mut vs = vec![("var", s.var, var_pop, b_pop, false)];
        vs.push(("std", s.std, var_pop, b_pop, true));
        if n >= 2 {
            vs.push(("sample_var", s.sample_var, var_smp, b_smp, false));
            vs.push(("sample_std", s.sample_std, var_smp, b_smp, true));
        }
        for (name, v, refvar, b, is_sd) in vs {
            let (want, tol) = if is_sd { (refvar.sqrt(), std_tol(refvar, b)) } else { (refvar, b) };
            let err = (v - want).abs();
            rep.note_max(&format!("worst_ratio.{}", name), if err.is_nan() { f64::INFINITY } else { err / tol });
            if !is_sd {
                let db = design_bound(&m, &m) * if name == "sample_var" { n as f64 / (n as f64 - 1.0) } else { 1.0 };
                rep.note_max(&format!("info.worst_ratio_vs_DESIGN_formula.{}.{}", name, if class == "offset" { "offset" } else { "other" }), err / db);
            }
            rep.check(&format!("C08.{}", name), &regime, err <= tol, || ctx(name, jnum(v), json!(want), json!({"abs_err": jnum(err), "tol": tol, "mean": m.mean.f(), "sd": m.sd_pop(), "oracle": if exact { "exact rational" } else { "double-double" }})));
        }
        // extremes
        rep.check("C08.min", &regime, s.min == rmin, || ctx("min", jnum(s.min), jnum(rmin), json!(null)));
        rep.check("C08.max", &regime, s.max == rmax, || ctx("max", jnum(s.max), jnum(rmax), json!(null)));
        rep.check("C08.argmin", &regime, s.argmin == imin, || ctx("argmin", json!(s.argmin), json!(imin), json!({"min": jnum(rmin)})));
        rep.check("C08.argmax", &regime, s.argmax == imax, || ctx("argmax", json!(s.argmax), json!(imax), json!({"max": jnum(rmax)})));
    }
    let ties_min = x.iter().filter(|&&v| v == rmin).count();
    if ties_min > 1 && imin > 0 {
        rep.seen("extreme:tied-min-not-at-0", 1);
    }
    if x.iter().filter(|&&v| v == rmax).count() > 1 && imax > 0 {
        rep.seen("extreme:tied-max-not-at-0", 1);
    }
    rep.distinct(Hasher::new().s("single").fs(x).finish(), n >= 2 && rmin != rmax);
    rep.sample(|| json!({"kind": "single", "class": class, "n": n, "data_head": jf(&x[..n.min(6)]), "ref_mean": m.mean.f(), "ref_var": var_pop}));
}

// ---------------------------------------------------------------------------------------------
// covariance algorithms on paired data

const PAIR_CLASSES: [&str; 8] = ["small-int", "gaussian", "offset", "constant", "sorted", "ties", "signed-zeros", "identical"];

fn gen_pair(rng: &mut Rng, class: &str, n: usize) -> (Vec<f64>, Vec<f64>) {
    match class {
        "gaussian" | "offset" => {
            let x = gen_data(rng, class, n);
            let rho = rng.range(-1.0, 1.0);
            let s = 10f64.powf(rng.range(-2.0, 2.0));
            let my = if class == "offset" { s * 10f64.powf(rng.range(2.0, 8.0)) * if rng.bool() { 1.0 } else { -1.0 } } else { rng.normal() * s };
            let mx = dd::mean(&x).f();
            let sx = moments(&x, false).sd_pop().max(1e-300);
            let y = x.iter().map(|&v| my + s * (rho * (v - mx) / sx + (1.0 - rho * rho).sqrt() * rng.normal())).collect();
            (x, y)
        }
        "identical" => {
            let c = *rng.choose(&["small-int", "gaussian", "offset", "ties"]);
            let x = gen_data(rng, c, n);
            (x.clone(), x)
        }
        "constant" => {
            let x = gen_data(rng, "constant", n);
            let y = if rng.bool() { gen_data(rng, "constant", n) } else { gen_data(rng, "gaussian", n) };
            if rng.bool() {
                (x, y)
            } else {
                (y, x)
            }
        }
        "sorted" => {
            let x = gen_data(rng, "sorted", n);
            let cy = *rng.choose(&["sorted", "reversed", "gaussian"]);
            let y = gen_data(rng, cy, n);
            (x, y)
        }
        c => (gen_data(rng, c, n), gen_data(rng, c, n)),
    }
}

struct Cov4 {
    pop: f64,
    smp: f64,
    onepass: f64,
    online: f64,
}
fn cov4(x: &[f64], y: &[f64]) -> Result<Cov4, String> {
    guard(|| Cov4 { pop: st::covariance(x, y), smp: q_sample_covariance(x, y), onepass: q_sample_covariance_onepass(x, y), online: q_sample_covariance_online(x, y) })
}
const ALGOS: [&str; 4] = ["twopass_pop", "twopass_sample", "onepass", "online"];
impl Cov4 {
    fn get(&self, a: &str) -> f64 {
        match a {
            "twopass_pop" => self.pop,
            "twopass_sample" => self.smp,
            "onepass" => self.onepass,
            _ => self.online,
        }
    }
    fn js(&self) -> Value {
        json!({"covariance": jnum(self.pop), "sample_covariance": jnum(self.smp), "sample_covariance_onepass": jnum(self.onepass), "sample_covariance_online": jnum(self.online)})
    }
}

fn check_pair(rep: &mut Report, class: &str, x: &[f64], y: &[f64]) {
    check_pair_in(rep, class, x, y, None)
}

/// `tag`: a workload family that wants its own signatures (`<regime>@<tag>`), e.g. the block-edge lengths
fn check_pair_in(rep: &mut Report, class: &str, x: &[f64], y: &[f64], tag: Option<&str>) {
    let rg = |base: &str| -> String {
        match tag {
            Some(t) => format!("{}@{}", base, t),
            None => base.to_string(),
        }
    };
    let n = x.len();
    let nf = n as f64;
    let exact = is_small_int(x) && is_small_int(y);
    let oracle = if exact { "exact-rational" } else { "double-double" };
    rep.case(&format!("pair:{}", class));
    rep.seen(&format!("pair-oracle:{}", oracle), 1);
    let (mx, my) = (moments(x, exact), moments(y, exact));
    let co = comoment(x, y, &mx, &my, exact);
    let b_pop = bound(&mx, &my);
    let b_smp = b_pop * nf / (nf - 1.0);
    let ctx = |obs: Value, exp: Value, extra: Value| json!({"class": class, "n": n, "x": jf(x), "y": jf(y), "observed": obs, "expected": exp, "oracle": oracle, "detail": extra});
    let c = match cov4(x, y) {
        Err(msg) => {
            rep.check("C08.cov.no_panic", &format!("pair:{}", class), false, || ctx(json!({"panic": msg}), json!("values"), json!(null)));
            return;
        }
        Ok(c) => c,
    };
    rep.note_add("library_calls", 4.0);
    // each algorithm against the reference
    for a in ALGOS {
        let (want, tol) = if a == "twopass_pop" { (co / nf, b_pop) } else { (co / (nf - 1.0), b_smp) };
        let v = c.get(a);
        let err = (v - want).abs();
        let healthy = a.starts_with("twopass");
        rep.note_max(&format!("{}.cov.{}", if healthy { "worst_ratio" } else { "observed_worst_ratio" }, a), if err.is_nan() { f64::INFINITY } else { err / tol });
        if healthy {
            rep.note_max(&format!("info.worst_ratio_vs_DESIGN_formula.cov.{}", a), err / (design_bound(&mx, &my) * if a == "twopass_pop" { 1.0 } else { nf / (nf - 1.0) }));
        }
        rep.check(&format!("C08.cov.{}", a), &rg(oracle), err <= tol, || ctx(jnum(v), json!(want), json!({"algorithm": a, "abs_err": jnum(err), "tol": tol, "all_four": c.js(), "mean_x": mx.mean.f(), "mean_y": my.mean.f(), "sd_x": mx.sd_pop(), "sd_y": my.sd_pop()})));
    }
    // the algorithms agree with one another (anchor: two-pass sample covariance), on the library's own outputs
    for (a, v) in [("twopass_pop", c.pop * nf / (nf - 1.0)), ("onepass", c.onepass), ("online", c.online)] {
        let err = (v - c.smp).abs();
        let tol = 2.0 * b_smp + 4.0 * U * c.smp.abs();
        rep.check("C08.cov.agree", &rg(&format!("{}~twopass_sample", a)), err <= tol, || ctx(c.js(), json!("equal after the n/(n-1) factor"), json!({"pair": a, "abs_diff": jnum(err), "tol": tol})));
    }
    // symmetry and cov(x,x) = var(x)
    match (cov4(y, x), cov4(x, x), guard(|| (st::var(x), q_sample_var(x)))) {
        (Ok(cs), Ok(cxx), Ok((vx, svx))) => {
            rep.note_add("library_calls", 10.0);
            for a in ALGOS {
                let err = (c.get(a) - cs.get(a)).abs();
                let tol = 2.0 * if a == "twopass_pop" { b_pop } else { b_smp };
                rep.check("C08.cov.symmetry", &rg(a), err <= tol, || ctx(json!({"cov(x,y)": jnum(c.get(a)), "cov(y,x)": jnum(cs.get(a))}), json!("equal"), json!({"algorithm": a, "tol": tol})));
            }
            let bx = bound(&mx, &mx);
            let e1 = (cxx.pop - vx).abs();
            rep.check("C08.cov.self_is_var", &rg("twopass_pop"), e1 <= 2.0 * bx, || ctx(json!({"covariance(x,x)": jnum(cxx.pop), "var(x)": jnum(vx)}), json!("equal"), json!({"tol": 2.0 * bx})));
            let e2 = (cxx.smp - svx).abs();
            rep.check("C08.cov.self_is_var", &rg("twopass_sample"), e2 <= 2.0 * bx * nf / (nf - 1.0), || ctx(json!({"sample_covariance(x,x)": jnum(cxx.smp), "sample_var(x)": jnum(svx)}), json!("equal"), json!({"tol": 2.0 * bx * nf / (nf - 1.0)})));
        }
        (a, b, d) => {
            let msg = a.err().or(b.err()).or(d.err()).unwrap_or_default();
            rep.check("C08.cov.no_panic", &format!("pair:{}", class), false, || ctx(json!({"panic": msg}), json!("values"), json!(null)));
        }
    }
    rep.distinct(Hasher::new().s("pair").fs(x).fs(y).finish(), mx.m2 > 0.0 && my.m2 > 0.0);
    rep.sample(|| json!({"kind": "pair", "class": class, "n": n, "x_head": jf(&x[..n.min(5)]), "y_head": jf(&y[..n.min(5)]), "ref_sample_cov": co / (nf - 1.0), "library": c.js()}));
}

// ---------------------------------------------------------------------------------------------
// metamorphic relations with exact data transformations

/// data on the grid 2^-16·Z with |x| < 64, so that x + c (c on the same grid, |c| < 2^34) and 2^k·x are exact
fn grid_data(rng: &mut Rng, n: usize) -> Vec<f64> {
    let s = rng.range(0.05, 8.0);
    (0..n).map(|_| ((rng.normal() * s).clamp(-60.0, 60.0) * 65536.0).round() / 65536.0).collect()
}

fn metamorphic(rng: &mut Rng, rep: &mut Report, maxlen: usize) {
    let n = gen_len(rng, maxlen, 2);
    let x = grid_data(rng, n);
    let y = grid_data(rng, n);
    let shift = |rng: &mut Rng| -> f64 {
        let mag = 10f64.powf(rng.range(0.0, 9.0)).min(8e9);
        (mag * rng.range(0.5, 1.0) * 65536.0).round() / 65536.0 * if rng.bool() { 1.0 } else { -1.0 }
    };
    let (cx, cy) = (shift(rng), shift(rng));
    let xs: Vec<f64> = x.iter().map(|&v| v + cx).collect();
    let ys: Vec<f64> = y.iter().map(|&v| v + cy).collect();
    // the shift really is exact
    let exact_shift = x.iter().zip(&xs).all(|(&a, &b)| (Dd::sum2(a, cx) - Dd::new(b)).f() == 0.0) && y.iter().zip(&ys).all(|(&a, &b)| (Dd::sum2(a, cy) - Dd::new(b)).f() == 0.0);
    if !exact_shift {
        rep.inconclusive(format!("metamorphic generator produced an inexact shift (cx={}, cy={})", cx, cy));
        return;
    }
    let nf = n as f64;
    let big = cx.abs().max(cy.abs());
    let sreg = if big >= 1e6 { "shift>=1e6" } else { "shift<1e6" };
    rep.case(&format!("meta:{}", sreg));
    let (mx, my, mxs, mys) = (moments(&x, false), moments(&y, false), moments(&xs, false), moments(&ys, false));
    let ctx = |obs: Value, extra: Value| json!({"n": n, "x": jf(&x), "y": jf(&y), "shift_x": cx, "shift_y": cy, "observed": obs, "detail": extra});
    let r = guard(|| (st::var(&x), st::var(&xs), q_sample_var(&x), q_sample_var(&xs), st::std(&x), st::std(&xs)));
    let (c0, c1) = (cov4(&x, &y), cov4(&xs, &ys));
    rep.note_add("library_calls", 14.0);
    match (r, c0, c1) {
        (Ok((v0, v1, sv0, sv1, sd0, sd1)), Ok(c0), Ok(c1)) => {
            let b = bound(&mx, &mx) + bound(&mxs, &mxs);
            rep.note_max("worst_ratio.shift.var", (v0 - v1).abs() / b);
            rep.check("C08.shift_invariance.var", sreg, (v0 - v1).abs() <= b, || ctx(json!({"var(x)": v0, "var(x+c)": v1}), json!({"tol": b})));
            let bs = b * nf / (nf - 1.0);
            rep.check("C08.shift_invariance.sample_var", sreg, (sv0 - sv1).abs() <= bs, || ctx(json!({"sample_var(x)": sv0, "sample_var(x+c)": sv1}), json!({"tol": bs})));
            let tsd = (b / sd0.max(1e-300)).min(b.sqrt()) + 8.0 * U * sd0;
            rep.check("C08.shift_invariance.std", sreg, (sd0 - sd1).abs() <= tsd, || ctx(json!({"std(x)": sd0, "std(x+c)": sd1}), json!({"tol": tsd})));
            let bc = bound(&mx, &my) + bound(&mxs, &mys);
            for a in ALGOS {
                let tol = if a == "twopass_pop" { bc } else { bc * nf / (nf - 1.0) };
                let err = (c0.get(a) - c1.get(a)).abs();
                let healthy = a != "online";
                rep.note_max(&format!("{}.shift.cov.{}", if healthy { "worst_ratio" } else { "observed_worst_ratio" }, a), if err.is_nan() { f64::INFINITY } else { err / tol });
                rep.check("C08.shift_invariance.cov", a, err <= tol, || ctx(json!({"cov(x,y)": jnum(c0.get(a)), "cov(x+c,y+d)": jnum(c1.get(a))}), json!({"algorithm": a, "tol": tol})));
            }
        }
        (a, b, c) => {
            let msg = a.err().or(b.err()).or(c.err()).unwrap_or_default();
            rep.check("C08.no_panic", "meta", false, || ctx(json!({"panic": msg}), json!(null)));
        }
    }
    // power-of-two scaling: every operation of a homogeneous algorithm commutes with it, so bitwise
    let (kx, ky) = (rng.int(-30, 30) as i32, rng.int(-30, 30) as i32);
    let (sx, sy) = (2f64.powi(kx) * if rng.bool() { 1.0 } else { -1.0 }, 2f64.powi(ky) * if rng.bool() { 1.0 } else { -1.0 });
    let (data_x, data_y) = if rng.bool() { (&xs, &ys) } else { (&x, &y) };
    let zx: Vec<f64> = data_x.iter().map(|&v| v * sx).collect();
    let zy: Vec<f64> = data_y.iter().map(|&v| v * sy).collect();
    rep.case("meta:scale-2^k");
    let ctx2 = |obs: Value| json!({"n": n, "x": jf(data_x), "y": jf(data_y), "scale_x": sx, "scale_y": sy, "observed": obs});
    let r0 = guard(|| (st::mean(data_x), st::welford_mean(data_x), st::var(data_x), q_sample_var(data_x), st::std(data_x), q_sample_std(data_x)));
    let r1 = guard(|| (st::mean(&zx), st::welford_mean(&zx), st::var(&zx), q_sample_var(&zx), st::std(&zx), q_sample_std(&zx)));
    rep.note_add("library_calls", 20.0);
    match (r0, r1, cov4(data_x, data_y), cov4(&zx, &zy)) {
        (Ok(p), Ok(q), Ok(c0), Ok(c1)) => {
            let pairs = [("mean", p.0 * sx, q.0), ("welford_mean", p.1 * sx, q.1), ("var", p.2 * sx * sx, q.2), ("sample_var", p.3 * sx * sx, q.3), ("std", p.4 * sx.abs(), q.4), ("sample_std", p.5 * sx.abs(), q.5)];
            for (name, want, got) in pairs {
                rep.check("C08.scaling_pow2", name, same_bits(want, got) || (want == 0.0 && got == 0.0), || ctx2(json!({"stat": name, "s^k * stat(x)": jnum(want), "stat(s*x)": jnum(got)})));
            }
            for a in ALGOS {
                let (want, got) = (c0.get(a) * sx * sy, c1.get(a));
                rep.check("C08.scaling_pow2", &format!("cov.{}", a), same_bits(want, got) || (want == 0.0 && got == 0.0), || ctx2(json!({"stat": a, "s*t*cov(x,y)": jnum(want), "cov(s*x,t*y)": jnum(got)})));
            }
        }
        (a, b, c, d) => {
            let msg = a.err().or(b.err()).or(c.err()).or(d.err()).unwrap_or_default();
            rep.check("C08.no_panic", "meta", false, || ctx2(json!({"panic": msg})));
        }
    }
    rep.distinct(Hasher::new().s("meta").fs(&x).fs(&y).f(cx).f(cy).finish(), mx.m2 > 0.0);
}

// ---------------------------------------------------------------------------------------------
// histogram bin centres

fn hist(rng: &mut Rng, rep: &mut Report, maxlen: usize) {
    let nb = match rng.usize(0, 5) {
        0 => 1,
        1 | 2 => rng.usize(2, 8),
        _ => rng.usize(9, 500.min(maxlen)),
    };
    let ne = nb + 1;
    let kind = rng.usize(0, 2);
    let (mut regime, edges): (&str, Vec<f64>) = match kind {
        0 => {
            // exactly uniform: e_0 and the width are small dyadic numbers
            let (e0, h) = (rng.int(-4096, 4096) as f64 / 16.0, rng.int(1, 64) as f64 / 16.0);
            ("uniform:dyadic", (0..ne).map(|i| e0 + i as f64 * h).collect())
        }
        1 => {
            let (lo, w) = (rng.range(-100.0, 100.0), rng.log_range(0.01, 100.0));
            let h = w / nb as f64;
            ("uniform:linspace", (0..ne).map(|i| lo + i as f64 * h).collect())
        }
        _ => {
            let (mut c, sc) = (rng.range(-100.0, 100.0), rng.log_range(0.01, 10.0));
            let r = *rng.choose(&[2.0, 10.0, 1e3]);
            let mut v = Vec::with_capacity(ne);
            for _ in 0..ne {
                v.push(c);
                c += sc * rng.log_range(1.0, r);
            }
            ("non-uniform", v)
        }
    };
    if nb == 1 {
        regime = "single-bin";
    }
    rep.case(&format!("hist:{}", regime));
    rep.distinct(Hasher::new().s("hist").fs(&edges).finish(), nb >= 2);
    let got = guard(|| st::hist_bin_centers(&edges).v.clone());
    rep.note_add("library_calls", 1.0);
    let ctx = |obs: Value, extra: Value| json!({"edges": jf(&edges), "n_edges": ne, "observed": obs, "detail": extra});
    match got {
        Err(msg) => {
            rep.check("C08.hist_bin_centers.no_panic", regime, false, || ctx(json!({"panic": msg}), json!(null)));
        }
        Ok(v) => {
            if !rep.check("C08.hist_bin_centers.len", regime, v.len() == nb, || ctx(jf(&v), json!({"expected_len": nb, "returned_len": v.len()}))) {
                return;
            }
            let mut worst = 0.0f64;
            let mut first_bad: Option<(usize, f64, f64)> = None;
            for i in 0..nb {
                let want = (Dd::sum2(edges[i], edges[i + 1]) * Dd::new(0.5)).f();
                // within 2 ulp of the centre (ulp taken at the larger edge magnitude: the centre may cancel)
                let tol = 2.0 * ulp(edges[i].abs().max(edges[i + 1].abs()));
                if regime == "uniform:linspace" {
                    rep.note_max("info.worst_ratio.hist_linspace_vs_strict_2ulp", (v[i] - want).abs() / tol);
                }
                // inexactly uniform grids: the cumulative construction the anchor describes carries the
                // rounding of i additions; that is still a rounding-level (γ_i) error, not a wrong formula
                let tol = if regime == "uniform:linspace" { tol + (i as f64) * U * edges[0].abs().max(edges[nb].abs()) } else { tol };
                let err = (v[i] - want).abs();
                worst = worst.max(if err.is_nan() { f64::INFINITY } else { err / tol });
                if !(err <= tol) && first_bad.is_none() {
                    first_bad = Some((i, v[i], want));
                }
            }
            rep.note_max(&format!("{}.hist_bin_centers.{}", if regime == "non-uniform" { "observed_worst_ratio" } else { "worst_ratio" }, regime), worst);
            rep.check("C08.hist_bin_centers", regime, first_bad.is_none(), || {
                let (i, o, w) = first_bad.unwrap();
                ctx(jf(&v), json!({"first_wrong_bin": i, "observed_centre": jnum(o), "expected_centre": w, "bin": [edges[i], edges[i + 1]], "worst_err_over_tol": jnum(worst)}))
            });
        }
    }
}

// ---------------------------------------------------------------------------------------------
// the smallest admissible length: one point for the population statistics (definition as oracle)

/// values a single data point is drawn from: ordinary, signed zeros, and the ends of the f64 range
fn point(rng: &mut Rng) -> f64 {
    match rng.usize(0, 7) {
        0 => *rng.choose(&[0.0, -0.0, 1.0, -1.0, 0.1, -0.1, 3.0, 1e8, -1e8, 1e300, -1e300, 1e-300, -1e-300, 5e-324, f64::MIN_POSITIVE, 1e154, 1e-154]),
        1 => rng.int(-1000, 1000) as f64,
        2 | 3 => rng.normal() * 10f64.powf(rng.range(-3.0, 3.0)),
        4 => rng.normal() * 1e8,
        5 => rng.log_range(1e-300, 1e-100) * if rng.bool() { 1.0 } else { -1.0 },
        6 => rng.log_range(1e100, 1e300) * if rng.bool() { 1.0 } else { -1.0 },
        _ => rng.range(-1.0, 1.0),
    }
}

/// Every population statistic of a one-point data set, through every API. The definitions give
/// mean = min = max = x, variance = standard deviation = covariance = 0 (exactly: the only deviation
/// from the mean is x − x), argmin = argmax = 0.
fn single_point(rng: &mut Rng, rep: &mut Report) {
    let (x, y) = (point(rng), point(rng));
    let val_eq = |a: f64, b: f64| a == b; // NaN fails; either zero for ±0
    for api in ["free", "vector", "matrix"] {
        let regime = format!("{}:len=1", api);
        rep.case(&regime);
        let ctx = |stat: &str, obs: Value, exp: Value| json!({"api": api, "stat": stat, "n": 1, "data": jf(&[x]), "observed": obs, "expected": exp, "oracle": "definition"});
        let s = match call_api_pop(api, &[x]) {
            Err(msg) => {
                rep.check("C08.no_panic", &regime, false, || ctx("*", json!({"panic": msg}), json!("values")));
                continue;
            }
            Ok(s) => s,
        };
        rep.check("C08.no_panic", &regime, true, || json!(null));
        rep.note_add("library_calls", if api == "free" { 8.0 } else { 7.0 });
        rep.check("C08.mean", &regime, val_eq(s.mean, x), || ctx("mean", jnum(s.mean), jnum(x)));
        if let Some(w) = s.welford_mean {
            rep.check("C08.welford_mean", &regime, val_eq(w, x), || ctx("welford_mean", jnum(w), jnum(x)));
        }
        rep.check("C08.var", &regime, val_eq(s.var, 0.0), || ctx("var", jnum(s.var), json!(0.0)));
        rep.check("C08.std", &regime, val_eq(s.std, 0.0), || ctx("std", jnum(s.std), json!(0.0)));
        rep.check("C08.min", &regime, val_eq(s.min, x), || ctx("min", jnum(s.min), jnum(x)));
        rep.check("C08.max", &regime, val_eq(s.max, x), || ctx("max", jnum(s.max), jnum(x)));
        rep.check("C08.argmin", &regime, s.argmin == 0, || ctx("argmin", json!(s.argmin), json!(0)));
        rep.check("C08.argmax", &regime, s.argmax == 0, || ctx("argmax", json!(s.argmax), json!(0)));
    }
    // population covariance of a single pair (the three sample algorithms are undefined here)
    let regime = "pair:len=1";
    rep.case(regime);
    for (a, b) in [(x, y), (y, x), (x, x)] {
        let got = guard(|| st::covariance(&[a], &[b]));
        rep.note_add("library_calls", 1.0);
        let ctx = |obs: Value| json!({"stat": "covariance", "n": 1, "x": jf(&[a]), "y": jf(&[b]), "observed": obs, "expected": 0.0, "oracle": "definition: (x - mean x)(y - mean y)/1 = 0"});
        match got {
            Err(msg) => {
                rep.check("C08.cov.no_panic", regime, false, || ctx(json!({"panic": msg})));
            }
            Ok(v) => {
                rep.check("C08.cov.twopass_pop", regime, val_eq(v, 0.0), || ctx(jnum(v)));
            }
        }
    }
    rep.distinct(Hasher::new().s("len1").f(x).f(y).finish(), false);
}

/// the population statistics only (the sample statistics are undefined for one point and may panic)
fn call_api_pop(api: &str, x: &[f64]) -> Result<Stats1, String> {
    guard(|| match api {
        "free" => Stats1 { mean: st::mean(x), welford_mean: Some(st::welford_mean(x)), var: st::var(x), sample_var: f64::NAN, std: st::std(x), sample_std: f64::NAN, min: st::min(x), max: st::max(x), argmin: st::argmin(x), argmax: st::argmax(x) },
        "vector" => {
            let v = Vector::from(x.to_vec());
            Stats1 { mean: v.mean(), welford_mean: None, var: v.var(), sample_var: f64::NAN, std: v.std(), sample_std: f64::NAN, min: v.min(), max: v.max(), argmin: v.argmin(), argmax: v.argmax() }
        }
        _ => {
            let m = Matrix::new(x.to_vec(), 1, x.len() as i32);
            let (r0, c0) = m.argmin();
            let (r1, c1) = m.argmax();
            let flat = |r: usize, c: usize| if r == 0 && c < x.len() { c } else { usize::MAX };
            Stats1 { mean: m.mean(), welford_mean: None, var: m.var(), sample_var: f64::NAN, std: m.std(), sample_std: f64::NAN, min: m.min(), max: m.max(), argmin: flat(r0, c0), argmax: flat(r1, c1) }
        }
    })
}

// ---------------------------------------------------------------------------------------------
// data at extreme scales: 2^k-multiples (k to ±480) of moderate data, and spreads far below 1e-8 of
// the unit. Every statistic is homogeneous (degree 1 or 2) and a power-of-two factor commutes with
// every rounding as long as nothing leaves the normal range, so stat(2^k x) = 2^(k or 2k) stat(x).
// A handful of the ~n smallest products (x_i − mean)·(x_i − mean') may drop below 2^-1022 when the
// result itself is near 2^-960; their total is < n·2^-1074, far below one ulp of the result, so the
// relation is required to 4 ulp here (bitwise in the moderate range, see `metamorphic`).

fn ulps_apart(a: f64, b: f64) -> f64 {
    if a == b {
        return 0.0;
    }
    if !(a.is_finite() && b.is_finite()) || (a < 0.0) != (b < 0.0) {
        return f64::INFINITY;
    }
    (a - b).abs() / ulp(a.abs().max(b.abs()))
}

fn extreme_scale(rng: &mut Rng, rep: &mut Report, maxlen: usize, big: bool) {
    let n = if rng.chance(0.3) { rng.usize(2, 9) } else { gen_len(rng, maxlen.min(2000), 2) };
    // base data: |x| < 64 on the grid 2^-40·Z; kind 0/1: zero-centred with spread s, kind 2: unit offset with
    // a spread of 2^-28..2^-38 (1e-9..1e-12 of the unit: the variance is far below f64::EPSILON)
    let kind = rng.usize(0, 2);
    let g = 2f64.powi(40);
    let (x, y): (Vec<f64>, Vec<f64>) = match kind {
        0 | 1 => {
            let s = if kind == 0 { rng.range(0.05, 8.0) } else { 2f64.powi(-(rng.usize(20, 36) as i32)) };
            let mk = |rng: &mut Rng| -> Vec<f64> { (0..n).map(|_| ((rng.normal() * s).clamp(-60.0, 60.0) * g).round() / g).collect() };
            (mk(rng), mk(rng))
        }
        _ => {
            let s = 2f64.powi(-(rng.usize(28, 38) as i32));
            let (cx, cy) = (rng.int(1, 3) as f64 * if rng.bool() { 1.0 } else { -1.0 }, rng.int(1, 3) as f64);
            let mk = |rng: &mut Rng, c: f64| -> Vec<f64> { (0..n).map(|_| c + ((rng.normal() * s).clamp(-0.5, 0.5) * g).round() / g).collect() };
            (mk(rng, cx), mk(rng, cy))
        }
    };
    let kreg = ["unit-spread", "spread=2^-20..2^-36", "offset:spread/mean=2^-28..2^-38"][kind];
    // scales: k in ±(300..480); for the bilinear covariance |kx + ky| <= 900
    // (towards zero the factor is limited so that the scaled variance / covariance, of order spread^2, stays
    // above 2^-940: the true result neither overflows nor underflows)
    let kx = if big { rng.int(300, 480) as i32 } else { -(rng.int(300, [466, 430, 430][kind]) as i32) };
    let ky = if rng.chance(0.5) { rng.int(0, if kind == 0 { 400 } else { 300 }) as i32 * if big { 1 } else { -1 } } else { rng.int(-40, 40) as i32 };
    let (sx, sy) = (2f64.powi(kx) * if rng.bool() { 1.0 } else { -1.0 }, 2f64.powi(ky));
    let zx: Vec<f64> = x.iter().map(|&v| v * sx).collect();
    let zy: Vec<f64> = y.iter().map(|&v| v * sy).collect();
    let regime = format!("xscale:{}:{}", if big { "2^+300..480" } else { "2^-300..480" }, kreg);
    rep.case(&regime);
    rep.seen(if big { "xscale:huge" } else { "xscale:tiny" }, 1);
    let ctx = |obs: Value| json!({"n": n, "x": jf(&x), "y": jf(&y), "scale_x": sx, "scale_y": sy, "observed": obs, "note": "stat(scale * data) must equal scale^(1|2) * stat(data) to 4 ulp"});
    let r0 = guard(|| (st::mean(&x), st::welford_mean(&x), st::var(&x), q_sample_var(&x), st::std(&x), q_sample_std(&x), st::min(&x), st::max(&x), st::argmin(&x), st::argmax(&x)));
    let r1 = guard(|| (st::mean(&zx), st::welford_mean(&zx), st::var(&zx), q_sample_var(&zx), st::std(&zx), q_sample_std(&zx), st::min(&zx), st::max(&zx), st::argmin(&zx), st::argmax(&zx)));
    let v1 = guard(|| {
        let v = Vector::from(zx.clone());
        let m = Matrix::new(zx.clone(), 1, n as i32);
        [v.var(), v.std(), v.q_sample_var(), v.q_sample_std(), m.var(), m.std(), m.q_sample_var(), m.q_sample_std()]
    });
    rep.note_add("library_calls", 36.0);
    match (r0, r1, v1, cov4(&x, &y), cov4(&zx, &zy)) {
        (Ok(p), Ok(q), Ok(w), Ok(c0), Ok(c1)) => {
            // the moderate-scale values themselves against the double-double reference (relative bound; the
            // generic bound's absolute floor plays no part at these magnitudes)
            let m = moments(&x, false);
            let b = bound(&m, &m);
            rep.check("C08.var", &regime, (p.2 - m.m2 / n as f64).abs() <= b, || ctx(json!({"stat": "var(x)", "observed": jnum(p.2), "expected": m.m2 / n as f64, "tol": b})));
            let vref = m.m2 / n as f64;
            let tsd = (b / vref.sqrt()).min(b.sqrt()) + 4.0 * U * vref.sqrt() + 1e-300;
            rep.check("C08.std", &regime, (p.4 - vref.sqrt()).abs() <= tsd, || ctx(json!({"stat": "std(x)", "observed": jnum(p.4), "expected": vref.sqrt(), "tol": tsd})));
            let a = sx.abs();
            let pairs = [("mean", p.0 * sx, q.0), ("welford_mean", p.1 * sx, q.1), ("var", p.2 * a * a, q.2), ("sample_var", p.3 * a * a, q.3), ("std", p.4 * a, q.4), ("sample_std", p.5 * a, q.5)];
            for (name, want, got) in pairs {
                let d = ulps_apart(want, got);
                rep.note_max("worst_ulps.scaling_extreme", d);
                rep.check("C08.scaling_pow2.extreme", name, d <= 4.0, || ctx(json!({"stat": name, "s^k * stat(x)": jnum(want), "stat(s*x)": jnum(got), "ulps": jnum(d)})));
            }
            // Vector / Matrix wrappers on the scaled data agree with the free functions bit for bit
            let free = [q.2, q.4, q.3, q.5, q.2, q.4, q.3, q.5];
            let names = ["Vector::var", "Vector::std", "Vector::sample_var", "Vector::sample_std", "Matrix::var", "Matrix::std", "Matrix::sample_var", "Matrix::sample_std"];
            for i in 0..8 {
                rep.check("C08.scaling_pow2.extreme", "method=free", same_bits(w[i], free[i]) || (w[i] == 0.0 && free[i] == 0.0), || ctx(json!({"stat": names[i], "method": jnum(w[i]), "free function": jnum(free[i])})));
            }
            // extremes: order statistics commute with a positive factor and swap under a negative one
            let (wmin, wmax, wamin, wamax) = if sx > 0.0 { (p.6 * sx, p.7 * sx, p.8, p.9) } else { (p.7 * sx, p.6 * sx, p.9, p.8) };
            rep.check("C08.min", &regime, q.6 == wmin, || ctx(json!({"stat": "min", "observed": jnum(q.6), "expected": jnum(wmin)})));
            rep.check("C08.max", &regime, q.7 == wmax, || ctx(json!({"stat": "max", "observed": jnum(q.7), "expected": jnum(wmax)})));
            rep.check("C08.argmin", &regime, q.8 == wamin, || ctx(json!({"stat": "argmin", "observed": q.8, "expected": wamin})));
            rep.check("C08.argmax", &regime, q.9 == wamax, || ctx(json!({"stat": "argmax", "observed": q.9, "expected": wamax})));
            for al in ALGOS {
                let (want, got) = (c0.get(al) * sx * sy, c1.get(al));
                let d = ulps_apart(want, got);
                rep.note_max("worst_ulps.scaling_extreme", d);
                rep.check("C08.scaling_pow2.extreme", &format!("cov.{}", al), d <= 4.0 || (want == 0.0 && got == 0.0), || ctx(json!({"stat": al, "s*t*cov(x,y)": jnum(want), "cov(s*x,t*y)": jnum(got), "ulps": jnum(d)})));
            }
        }
        (a, b, c, d, e) => {
            let msg = a.err().or(b.err()).or(c.err()).or(d.err()).or(e.err()).unwrap_or_default();
            rep.check("C08.no_panic", &regime, false, || ctx(json!({"panic": msg})));
        }
    }
    rep.distinct(Hasher::new().s("xscale").fs(&zx).fs(&zy).finish(), true);
}

// ---------------------------------------------------------------------------------------------
// near-ties: neighbouring doubles of the extremes (1..4 ulp away) before and after the true extreme

/// k representable steps from v towards -inf (k > 0) or +inf (k < 0)
fn step(v: f64, k: i32) -> f64 {
    let mut r = v;
    for _ in 0..k.abs() {
        r = if k > 0 { r.next_down() } else { r.next_up() };
    }
    r
}

/// A data set whose maximum and minimum are each accompanied by values 1..=4 ulp inside of them, at
/// least one of those in front of the extreme itself (n >= 4). Extremes and indices are exact
/// quantities: a neighbouring double is not the extreme.
fn gen_near_ties(rng: &mut Rng, n: usize) -> Vec<f64> {
    let base = *rng.choose(&["small-int", "gaussian", "offset", "sorted", "reversed", "constant", "ties"]);
    let mut x = gen_data(rng, base, n);
    let (mut lo, mut hi) = (x[0], x[0]);
    for &v in &x {
        lo = lo.min(v);
        hi = hi.max(v);
    }
    // the new extremes lie 8 ulp outside the base data, their neighbours 1..=4 ulp inside of them: every
    // base value stays strictly inside the neighbours, so the first occurrence of an extreme is a planted one
    let (lo, hi) = (step(lo, 8), step(hi, -8));
    // positions: p_max and p_min (distinct, both >= 1 so that a neighbour can precede them)
    let idx = rng.perm(n);
    let mut slots: Vec<usize> = idx[..4.min(n)].to_vec();
    slots.sort();
    // the two later slots carry the extremes, the two earlier ones their neighbours (in random assignment)
    let (a, b, c, d) = (slots[0], slots[1], slots[2], slots[3]);
    let (pn_max, pn_min) = if rng.bool() { (a, b) } else { (b, a) };
    let (p_max, p_min) = if rng.bool() { (c, d) } else { (d, c) };
    x[p_max] = hi;
    x[p_min] = lo;
    x[pn_max] = step(hi, rng.int(1, 4) as i32);
    x[pn_min] = step(lo, -(rng.int(1, 4) as i32));
    // further neighbours anywhere else (before or after), and sometimes a second copy of the extreme
    for &i in idx[4.min(n)..].iter().take(rng.usize(0, 4)) {
        match rng.usize(0, 3) {
            0 | 1 => x[i] = step(hi, rng.int(1, 4) as i32),
            2 => x[i] = step(lo, -(rng.int(1, 4) as i32)),
            _ => x[i] = if rng.bool() { hi } else { lo },
        }
    }
    x
}

// ---------------------------------------------------------------------------------------------
// structured bin edges: progressions a user would type (octaves, decades, arithmetic, ...)

const STRUCTURED_EDGES: [&str; 6] = ["geometric", "geometric-negative", "arithmetic", "shrinking-widths", "mixed", "integer-sequence"];

fn structured_edges(rng: &mut Rng, kind: usize) -> Vec<f64> {
    let ratio = |rng: &mut Rng| *rng.choose(&[2.0, 10.0, 3.0, 1.5, 4.0, 1.25, 5.0, 16.0]);
    let start = |rng: &mut Rng| match rng.usize(0, 5) {
        0 => 1.0,
        1 => *rng.choose(&[31.25, 0.5, 3.0, 0.001, 20.0, 440.0, 1e-6, 100.0]),
        2 => 2f64.powi(rng.int(-20, 20) as i32),
        3 => 10f64.powi(rng.int(-9, 9) as i32),
        4 => rng.int(1, 64) as f64 / 16.0,
        _ => rng.log_range(1e-6, 1e6),
    };
    // number of edges, limited so that start * ratio^(ne-1) stays below 1e100
    let ne_for = |rng: &mut Rng, r: f64, s: f64| {
        let cap = (((1e100f64 / s).ln() / r.ln()).floor() as usize).clamp(3, 48);
        if rng.chance(0.4) { rng.usize(3, 6.min(cap)) } else { rng.usize(3, cap) }
    };
    let geometric = |rng: &mut Rng| -> Vec<f64> {
        let (r, s) = (ratio(rng), start(rng));
        let ne = ne_for(rng, r, s);
        if rng.bool() {
            // running product (exact while the terms are representable)
            let mut e = s;
            (0..ne)
                .map(|_| {
                    let v = e;
                    e *= r;
                    v
                })
                .collect()
        } else {
            (0..ne).map(|i| s * r.powi(i as i32)).collect()
        }
    };
    match kind {
        0 => geometric(rng),
        1 => {
            let mut g: Vec<f64> = geometric(rng).iter().map(|v| -v).collect();
            g.reverse();
            if rng.chance(0.3) {
                g.push(0.0);
            }
            g
        }
        2 => {
            let ne = rng.usize(3, 48);
            let (a, h) = match rng.usize(0, 2) {
                0 => (rng.int(-100, 100) as f64, rng.int(1, 50) as f64),
                1 => (0.0, *rng.choose(&[0.1, 0.25, 0.5, 1.0, 2.5, 1e-3, 1e3])),
                _ => (rng.int(-100, 100) as f64 / 8.0, rng.int(1, 64) as f64 / 16.0),
            };
            (0..ne).map(|i| a + i as f64 * h).collect()
        }
        3 => {
            // widths shrink geometrically towards an end point: E - w*r^-i
            let r: f64 = *rng.choose(&[2.0, 10.0, 4.0, 1.5]);
            let ne = rng.usize(3, if r == 10.0 { 12 } else { 30 });
            let end = if rng.bool() { 0.0 } else { rng.int(-50, 50) as f64 };
            let w = 2f64.powi(rng.int(0, 10) as i32);
            (0..ne).map(|i| end - w / r.powi(i as i32)).collect()
        }
        4 => {
            // a geometric stretch continued by an arithmetic one (or preceded by one)
            let g = geometric(rng);
            let last = *g.last().unwrap();
            let h = last - g[g.len() - 2];
            let extra = rng.usize(1, 6);
            if rng.bool() {
                let mut v = g.clone();
                for i in 1..=extra {
                    v.push(last + i as f64 * h);
                }
                v
            } else {
                let h0 = g[0] / (extra as f64 + 1.0);
                let mut v: Vec<f64> = (0..extra).map(|i| g[0] - (extra - i) as f64 * h0).collect();
                v.extend_from_slice(&g);
                v
            }
        }
        _ => {
            let ne = rng.usize(3, 40);
            match rng.usize(0, 3) {
                0 => (1..=ne).map(|i| (i * i) as f64).collect(),
                1 => (1..=ne).map(|i| (i * (i + 1) / 2) as f64).collect(),
                2 => {
                    let (mut a, mut b) = (1.0f64, 2.0f64);
                    (0..ne)
                        .map(|_| {
                            let v = a;
                            let c = a + b;
                            a = b;
                            b = c;
                            v
                        })
                        .collect()
                }
                _ => (0..ne).map(|i| [1.0, 2.0, 5.0][i % 3] * 10f64.powi((i / 3) as i32)).collect(),
            }
        }
    }
}

fn hist_structured(rng: &mut Rng, rep: &mut Report, kind: usize) {
    let edges = structured_edges(rng, kind);
    let regime = format!("structured:{}", STRUCTURED_EDGES[kind]);
    hist_check_edges(rep, &regime, &edges, "hist-structured", "worst_ratio.hist_bin_centers.structured");
}

/// bin centres of one edge vector against (e_i + e_{i+1})/2 in double-double, 2 ulp of the larger edge magnitude
/// (one ulp is 2^-1074 everywhere below 2^-1022)
fn hist_check_edges(rep: &mut Report, regime: &str, edges: &[f64], hash_tag: &str, note: &str) {
    let nb = edges.len() - 1;
    rep.case(&format!("hist:{}", regime));
    rep.distinct(Hasher::new().s(hash_tag).fs(edges).finish(), nb >= 2);
    let got = guard(|| st::hist_bin_centers(edges).v.clone());
    rep.note_add("library_calls", 1.0);
    let ctx = |obs: Value, extra: Value| json!({"edges": jf(edges), "n_edges": nb + 1, "observed": obs, "detail": extra});
    match got {
        Err(msg) => {
            rep.check("C08.hist_bin_centers.no_panic", regime, false, || ctx(json!({"panic": msg}), json!(null)));
        }
        Ok(v) => {
            if !rep.check("C08.hist_bin_centers.len", regime, v.len() == nb, || ctx(jf(&v), json!({"expected_len": nb, "returned_len": v.len()}))) {
                return;
            }
            let mut worst = 0.0f64;
            let mut first_bad: Option<(usize, f64, f64)> = None;
            for i in 0..nb {
                let want = (Dd::sum2(edges[i], edges[i + 1]) * Dd::new(0.5)).f();
                let tol = 2.0 * ulp(edges[i].abs().max(edges[i + 1].abs()));
                let err = (v[i] - want).abs();
                worst = worst.max(if err.is_nan() { f64::INFINITY } else { err / tol });
                if !(err <= tol) && first_bad.is_none() {
                    first_bad = Some((i, v[i], want));
                }
            }
            rep.note_max(note, worst);
            rep.check("C08.hist_bin_centers", regime, first_bad.is_none(), || {
                let (i, o, w) = first_bad.unwrap();
                ctx(jf(&v), json!({"first_wrong_bin": i, "observed_centre": jnum(o), "expected_centre": w, "bin": [edges[i], edges[i + 1]], "worst_err_over_tol": jnum(worst)}))
            });
        }
    }
}


// ---------------------------------------------------------------------------------------------
// block / batch boundaries of long inputs: lengths at and next to the multiples of 2^6..2^13 (the
// sizes at which an unrolled, blocked, batched or pairwise implementation changes its code path),
// next to the multiples of 500 (decimal batch sizes) and at both ends of the length range

/// upper end of the property's length range
const MAX_LEN: usize = 10_000;

/// (length, family label, position): every length m−1, m, m+1 with m a multiple of 64 (labelled by the
/// largest power of two ≤ 2^13 dividing m) or of 500, inside 2..=MAX_LEN, and the ends of the range
fn block_edge_lengths() -> Vec<(usize, String, &'static str)> {
    let mut v: Vec<(usize, String, &'static str)> = Vec::new();
    let push = |v: &mut Vec<(usize, String, &'static str)>, n: usize, lab: String, off: &'static str| {
        if (2..=MAX_LEN).contains(&n) && !v.iter().any(|(m, _, _)| *m == n) {
            v.push((n, lab, off));
        }
    };
    for n in [2usize, 3, MAX_LEN - 2, MAX_LEN - 1, MAX_LEN] {
        push(&mut v, n, "range-end".to_string(), "");
    }
    let mut m = 64;
    while m <= MAX_LEN + 1 {
        let j = (m.trailing_zeros() as usize).min(13);
        for (n, off) in [(m - 1, "m-1"), (m, "m"), (m + 1, "m+1")] {
            push(&mut v, n, format!("k*2^{}", j), off);
        }
        m += 64;
    }
    let mut m = 500;
    while m <= MAX_LEN + 1 {
        for (n, off) in [(m - 1, "m-1"), (m, "m"), (m + 1, "m+1")] {
            push(&mut v, n, "k*500".to_string(), off);
        }
        m += 500;
    }
    v
}

/// the labels `block_edge_lengths` produces (for `require`)
fn block_edge_labels() -> Vec<String> {
    let mut l: Vec<String> = block_edge_lengths().into_iter().map(|(_, s, _)| s).collect();
    l.sort();
    l.dedup();
    l
}

/// one data set and one pair of the given length through every statistic, every API and every covariance
/// algorithm (reference: double-double / exact rational, bounds as everywhere else), plus the agreement
/// of the alternative algorithms
fn block_edge(rng: &mut Rng, rep: &mut Report, n: usize, label: &str, off: &str) {
    let tag = format!("blockedge:{}", label);
    rep.seen(&tag, 1);
    if !off.is_empty() {
        rep.seen(&format!("blockedge:len={}", off), 1);
        rep.seen(&format!("{}:len={}", tag, off), 1);
    }
    let class = *rng.choose(&["small-int", "gaussian", "offset", "sorted", "reversed", "ties"]);
    let x = gen_data(rng, class, n);
    check_single(rep, &tag, &x, rng);
    let pclass = *rng.choose(&["small-int", "gaussian", "offset", "sorted", "ties", "identical", "constant"]);
    let (x, y) = gen_pair(rng, pclass, n);
    check_pair_in(rep, &tag, &x, &y, Some(&tag));
}


// ---------------------------------------------------------------------------------------------
// data containing subnormal values
//
// "all finite data vectors": the finite doubles include the subnormal ones, 5e-324 .. 2.2250738585072009e-308
// of either sign (an underflowed likelihood, importance weight, far-tail density or p-value on its way to 0).
// They are ordinary data: a subnormal observation counts in n, moves the mean, can be the extreme.
// Four single-vector classes — all-subnormal, subnormal + signed zeros, subnormal + the smallest normal numbers
// (up to 2^-1012), subnormal values inside ordinary data — and pairs built from them (tiny x tiny, tiny x ordinary
// in either order, tiny x large (1e20..1e100), mixed x mixed), plus bin edges in and across the subnormal range.
//
// Oracle. Data that contain ordinary values go through `check_single` / `check_pair_in` unchanged (double-double
// reference, bound B; the subnormal entries are then far below B, but an observation that is dropped or
// miscounted changes the statistic by O(1/n) of itself). For "tiny" data (every |x| < 2^-1000) the reference is
// computed on the data multiplied by 2^700 — an exact map onto normal numbers whose squares are normal too — and the
// library's value is multiplied by the same power before the comparison, so the reference itself never underflows.
// Tolerance = B (without its 1e-300 floor) + an absolute UNDERFLOW ALLOWANCE: every operation whose result is
// subnormal (or underflows to 0) commits an absolute error of at most half an ulp of the smallest subnormal,
// d = 2^-1074, instead of a relative one. Per statistic, in units of d:
//   mean (sum / n)              2        (the sum of subnormals is exact, the division rounds once)
//   welford_mean                n/2 + 2  (n updates mean += delta/k, each rounded by <= d/2; the error of step j is
//                                         carried with weight j/n)
//   var / sample_var            4n       (every product of two tiny deviations is below d/2 and rounds to 0: the
//                                         true variance, < 2^-2000, is not representable; a result of a few d is tolerated)
//   covariance, 4 algorithms    4n (1 + rx + ry),  rx = max|x_i - mean x|, ry likewise: a running mean of tiny data is
//                                         off by <= n d/4, that error is multiplied by deviations of the other
//                                         variable (<= ry), there are n such terms and one division by n-1; the
//                                         n products themselves round by <= d/2 each
//   std                         through the variance tolerance, as everywhere else (min(b/sd, sqrt b))
// min / max / argmin / argmax are exact at every magnitude. The agreement of the covariance algorithms is asserted
// on the library's own outputs within twice that tolerance.

/// the smallest positive subnormal = one ulp everywhere below 2^-1022
const D_MIN: f64 = 5e-324;
/// tiny data are judged after multiplication by 2^TINY_K
const TINY_K: i32 = 700;
/// |x| below this for every element: "tiny" data
const TINY_MAX: f64 = 9.332636185032189e-302; // 2^-1000

const SUB_CLASSES: [&str; 4] = ["all-subnormal", "subnormal+zeros", "subnormal+min-normal", "subnormal+ordinary"];
const SUB_PAIR_CLASSES: [&str; 6] = ["tiny*tiny", "tiny*ordinary", "ordinary*tiny", "tiny*large", "mixed*mixed", "mixed*tiny"];

fn is_subnormal(v: f64) -> bool {
    v != 0.0 && v.abs() < f64::MIN_POSITIVE
}

/// one subnormal magnitude k * 2^-1074, k in 1..2^52
fn subnormal_mag(rng: &mut Rng) -> f64 {
    match rng.usize(0, 9) {
        0 => D_MIN,
        1 => f64::MIN_POSITIVE.next_down(),
        2 => rng.int(1, 8) as f64 * D_MIN,
        3 => (2.0f64).powi(-(rng.int(1023, 1074) as i32)),
        4 => 1e-310 * rng.range(0.1, 10.0),
        _ => rng.log_range(1.0, 4.5e15).floor() * D_MIN,
    }
}

fn gen_tiny(rng: &mut Rng, class: &str, n: usize) -> Vec<f64> {
    // sign pattern: both signs, or one sign (then the mean is as large as the data)
    let signs = rng.usize(0, 2);
    let sg = |rng: &mut Rng| match signs {
        0 => if rng.bool() { 1.0 } else { -1.0 },
        1 => 1.0,
        _ => -1.0,
    };
    // magnitudes: the whole subnormal range, a narrow band next to a base value (an "offset" in the subnormal
    // range), or the very first multiples of 2^-1074
    let style = rng.usize(0, 3);
    let base = rng.log_range(1e3, 4.0e15).floor();
    let mut x: Vec<f64> = (0..n)
        .map(|_| {
            let m = match style {
                0 | 1 => subnormal_mag(rng),
                2 => (base + rng.int(-500, 500) as f64) * D_MIN,
                _ => rng.int(1, 8) as f64 * D_MIN,
            };
            m * sg(rng)
        })
        .collect();
    match class {
        "subnormal+zeros" => {
            let q = rng.range(0.1, 0.7);
            for v in x.iter_mut() {
                if rng.chance(q) {
                    *v = if rng.bool() { 0.0 } else { -0.0 };
                }
            }
            let i = rng.usize(0, n - 1);
            x[i] = 0.0;
            if n > 1 {
                let j = (i + 1 + rng.usize(0, n - 2)) % n;
                x[j] = subnormal_mag(rng) * sg(rng);
            }
        }
        "subnormal+min-normal" => {
            let q = rng.range(0.1, 0.7);
            for v in x.iter_mut() {
                if rng.chance(q) {
                    *v = f64::MIN_POSITIVE * rng.log_range(1.0, 1000.0) * sg(rng);
                }
            }
            let i = rng.usize(0, n - 1);
            x[i] = f64::MIN_POSITIVE * sg(rng);
            if n > 1 {
                let j = (i + 1 + rng.usize(0, n - 2)) % n;
                x[j] = subnormal_mag(rng) * sg(rng);
            }
        }
        _ => {}
    }
    x
}

/// ordinary data (one of the main classes) in which a fraction of the entries (at least one) is subnormal or zero
fn gen_sub_in_ordinary(rng: &mut Rng, n: usize) -> Vec<f64> {
    let base = *rng.choose(&["gaussian", "small-int", "ties", "sorted", "gaussian"]);
    let mut x = gen_data(rng, base, n);
    let q = if rng.bool() { 1.5 / n as f64 } else { rng.range(0.05, 0.6) };
    for v in x.iter_mut() {
        if rng.chance(q) {
            *v = match rng.usize(0, 5) {
                0 => 0.0,
                _ => subnormal_mag(rng) * if rng.bool() { 1.0 } else { -1.0 },
            };
        }
    }
    let i = rng.usize(0, n - 1);
    x[i] = subnormal_mag(rng) * if rng.bool() { 1.0 } else { -1.0 };
    x
}

fn gen_sub_data(rng: &mut Rng, class: &str, n: usize) -> Vec<f64> {
    if class == "subnormal+ordinary" {
        gen_sub_in_ordinary(rng, n)
    } else {
        gen_tiny(rng, class, n)
    }
}

fn max_dev(z: &[f64], m: &Mom) -> f64 {
    z.iter().fold(0.0f64, |a, &v| a.max((Dd::new(v) - m.mean).f().abs()))
}

/// every single-vector statistic of tiny data (all |x| < 2^-1000) through the three APIs
fn check_tiny_single(rep: &mut Report, class: &str, x: &[f64], rng: &mut Rng) {
    let n = x.len();
    let nf = n as f64;
    let s = (2.0f64).powi(TINY_K);
    let z: Vec<f64> = x.iter().map(|&v| v * s).collect(); // exact
    let m = moments(&z, false);
    let (d1, d2) = (D_MIN * s, D_MIN * s * s); // 2^-1074 in the scaled units of degree-1 / degree-2 statistics
    let mean_tol = 8.0 * nf * U * m.max_abs + 2.0 * d1;
    let welford_tol = 8.0 * nf * U * m.max_abs + (nf / 2.0 + 2.0) * d1;
    let r_un = max_dev(&z, &m) / s;
    let b_pop = bound_nofloor(&m, &m) + 4.0 * nf * d2 * (1.0 + 2.0 * r_un);
    let b_smp = if n > 1 { b_pop * nf / (nf - 1.0) } else { f64::NAN };
    let (var_pop, var_smp) = (m.m2 / nf, m.m2 / (nf - 1.0));
    let std_tol = |v: f64, b: f64| (b / v.sqrt()).min(b.sqrt()) + 4.0 * U * v.sqrt();
    let (mut rmin, mut rmax, mut imin, mut imax) = (x[0], x[0], 0usize, 0usize);
    for (i, &v) in x.iter().enumerate() {
        if v < rmin {
            rmin = v;
            imin = i;
        }
        if v > rmax {
            rmax = v;
            imax = i;
        }
    }
    let divs: Vec<usize> = (1..=n.min(64)).filter(|d| n % d == 0).collect();
    let r = *rng.choose(&divs);
    let shape = if rng.bool() { (r, n / r) } else { (n / r, r) };
    for api in ["free", "vector", "matrix"] {
        let regime = format!("{}:{}", api, class);
        rep.case(&regime);
        let ctx = |stat: &str, obs: Value, exp: Value, extra: Value| json!({"api": api, "stat": stat, "class": class, "n": n, "matrix_shape": if api == "matrix" { json!([shape.0, shape.1]) } else { json!(null) }, "data": jf(x), "observed": obs, "expected": exp, "detail": extra,
            "note": "reference computed on 2^700 * data (exact map); tolerances are in those units and include the stated underflow allowance"});
        let st1 = match call_api(api, x, shape) {
            Err(msg) => {
                rep.check("C08.no_panic", &regime, false, || ctx("*", json!({"panic": msg}), json!("values"), json!(null)));
                continue;
            }
            Ok(v) => v,
        };
        rep.check("C08.no_panic", &regime, true, || json!(null));
        rep.note_add("library_calls", if api == "free" { 10.0 } else { 9.0 });
        let mut means = vec![("mean", st1.mean, mean_tol)];
        if let Some(w) = st1.welford_mean {
            means.push(("welford_mean", w, welford_tol));
        }
        for (name, v, tol) in means {
            let err = (Dd::new(v * s) - m.mean).f().abs();
            rep.note_max(&format!("worst_ratio.subnormal.{}", name), if err.is_nan() { f64::INFINITY } else { err / tol });
            rep.check(&format!("C08.{}", name), &regime, err <= tol, || ctx(name, jnum(v), json!(m.mean.f() / s), json!({"abs_err_scaled": jnum(err), "tol_scaled": tol, "err_in_units_of_2^-1074": jnum(err / d1)})));
        }
        let mut vs = vec![("var", st1.var, var_pop, b_pop, false), ("std", st1.std, var_pop, b_pop, true)];
        if n >= 2 {
            vs.push(("sample_var", st1.sample_var, var_smp, b_smp, false));
            vs.push(("sample_std", st1.sample_std, var_smp, b_smp, true));
        }
        for (name, v, refvar, b, is_sd) in vs {
            let (got, want, tol) = if is_sd { (v * s, refvar.sqrt(), std_tol(refvar, b)) } else { (v * s * s, refvar, b) };
            let err = (got - want).abs();
            rep.note_max(&format!("worst_ratio.subnormal.{}", name), if err.is_nan() { f64::INFINITY } else { err / tol });
            rep.check(&format!("C08.{}", name), &regime, err <= tol, || ctx(name, jnum(v), json!({"scaled_by_2^700 (sd) / 2^1400 (var)": want}), json!({"observed_scaled": jnum(got), "abs_err_scaled": jnum(err), "tol_scaled": tol})));
        }
        rep.check("C08.min", &regime, st1.min == rmin, || ctx("min", jnum(st1.min), jnum(rmin), json!(null)));
        rep.check("C08.max", &regime, st1.max == rmax, || ctx("max", jnum(st1.max), jnum(rmax), json!(null)));
        rep.check("C08.argmin", &regime, st1.argmin == imin, || ctx("argmin", json!(st1.argmin), json!(imin), json!({"min": jnum(rmin)})));
        rep.check("C08.argmax", &regime, st1.argmax == imax, || ctx("argmax", json!(st1.argmax), json!(imax), json!({"max": jnum(rmax)})));
    }
    rep.distinct(Hasher::new().s("sub-single").fs(x).finish(), n >= 2 && rmin != rmax);
    rep.sample(|| json!({"kind": "single", "class": class, "n": n, "data_head": jf(&x[..n.min(6)]), "ref_mean": m.mean.f() / s}));
}

fn gen_sub_pair(rng: &mut Rng, class: &str, n: usize) -> (Vec<f64>, Vec<f64>) {
    let tiny = |rng: &mut Rng| {
        let c = *rng.choose(&["all-subnormal", "all-subnormal", "subnormal+zeros", "subnormal+min-normal"]);
        gen_tiny(rng, c, n)
    };
    // an ordinary partner: independent of x, or following it (so that the covariance is far from 0)
    let partner = |rng: &mut Rng, x: &[f64], scale: f64| -> Vec<f64> {
        match rng.usize(0, 3) {
            0 => gen_data(rng, "gaussian", n).iter().map(|v| v * scale).collect(),
            1 => {
                let c = *rng.choose(&["small-int", "ties", "sorted"]);
                gen_data(rng, c, n).iter().map(|v| v * scale).collect()
            }
            _ => {
                let top = x.iter().fold(0.0f64, |a, v| a.max(v.abs())).max(D_MIN);
                let (a, c, e) = (rng.range(-3.0, 3.0), rng.range(0.5, 4.0) * if rng.bool() { 1.0 } else { -1.0 }, rng.range(0.0, 1.0));
                x.iter().map(|&v| scale * (a + c * (v / top) + e * rng.normal())).collect()
            }
        }
    };
    match class {
        "tiny*tiny" => (tiny(rng), tiny(rng)),
        "tiny*ordinary" => {
            let x = tiny(rng);
            let y = partner(rng, &x, 1.0);
            (x, y)
        }
        "ordinary*tiny" => {
            let y = tiny(rng);
            let x = partner(rng, &y, 1.0);
            (x, y)
        }
        "tiny*large" => {
            let x = tiny(rng);
            let sc = (10.0f64).powi(rng.int(20, 100) as i32);
            let y = partner(rng, &x, sc);
            if rng.bool() { (x, y) } else { (y, x) }
        }
        "mixed*tiny" => {
            let x = gen_sub_in_ordinary(rng, n);
            let y = tiny(rng);
            if rng.bool() { (x, y) } else { (y, x) }
        }
        _ => (gen_sub_in_ordinary(rng, n), gen_sub_in_ordinary(rng, n)),
    }
}

/// the four covariance algorithms on a pair of which at least one side is tiny
fn check_tiny_pair(rep: &mut Report, class: &str, x: &[f64], y: &[f64]) {
    let n = x.len();
    let nf = n as f64;
    let is_tiny = |v: &[f64]| v.iter().all(|a| a.abs() < TINY_MAX);
    let (kx, ky) = (if is_tiny(x) { TINY_K } else { 0 }, if is_tiny(y) { TINY_K } else { 0 });
    let (s, t) = ((2.0f64).powi(kx), (2.0f64).powi(ky));
    let zx: Vec<f64> = x.iter().map(|&v| v * s).collect();
    let zy: Vec<f64> = y.iter().map(|&v| v * t).collect();
    let regime = format!("pair:{}", class);
    rep.case(&regime);
    let (mx, my) = (moments(&zx, false), moments(&zy, false));
    let co = comoment(&zx, &zy, &mx, &my, false);
    let d2 = D_MIN * s * t;
    let (rx, ry) = (max_dev(&zx, &mx) / s, max_dev(&zy, &my) / t);
    let allowance = 4.0 * nf * d2 * (1.0 + rx + ry);
    let b_pop = bound_nofloor(&mx, &my) + allowance;
    let b_smp = b_pop * nf / (nf - 1.0);
    let ctx = |obs: Value, exp: Value, extra: Value| json!({"class": class, "n": n, "x": jf(x), "y": jf(y), "observed": obs, "expected_scaled": exp, "oracle": "double-double on (2^kx x, 2^ky y)", "kx": kx, "ky": ky, "detail": extra});
    let c = match cov4(x, y) {
        Err(msg) => {
            rep.check("C08.cov.no_panic", &regime, false, || ctx(json!({"panic": msg}), json!("values"), json!(null)));
            return;
        }
        Ok(c) => c,
    };
    rep.note_add("library_calls", 4.0);
    let up = |v: f64| v * s * t;
    for a in ALGOS {
        let (want, tol) = if a == "twopass_pop" { (co / nf, b_pop) } else { (co / (nf - 1.0), b_smp) };
        let v = c.get(a);
        let err = (up(v) - want).abs();
        rep.note_max(&format!("worst_ratio.subnormal.cov.{}", a), if err.is_nan() { f64::INFINITY } else { err / tol });
        rep.note_max(&format!("info.subnormal.cov_error_over_underflow_allowance_alone.{}", a), if err.is_nan() { f64::INFINITY } else { err / allowance });
        rep.check(&format!("C08.cov.{}", a), &regime, err <= tol, || ctx(jnum(v), json!(want), json!({"algorithm": a, "observed_scaled": jnum(up(v)), "abs_err_scaled": jnum(err), "tol_scaled": tol, "underflow_allowance_scaled": allowance, "all_four": c.js()})));
    }
    for (a, v) in [("twopass_pop", c.pop * nf / (nf - 1.0)), ("onepass", c.onepass), ("online", c.online)] {
        let err = (up(v) - up(c.smp)).abs();
        let tol = 2.0 * b_smp + 4.0 * U * up(c.smp).abs();
        rep.check("C08.cov.agree", &format!("{}~twopass_sample@{}", a, class), err <= tol, || ctx(c.js(), json!("equal after the n/(n-1) factor"), json!({"pair": a, "abs_diff_scaled": jnum(err), "tol_scaled": tol})));
    }
    match cov4(y, x) {
        Ok(cs) => {
            rep.note_add("library_calls", 4.0);
            for a in ALGOS {
                let err = (up(c.get(a)) - up(cs.get(a))).abs();
                let tol = 2.0 * if a == "twopass_pop" { b_pop } else { b_smp };
                rep.check("C08.cov.symmetry", &format!("{}@{}", a, class), err <= tol, || ctx(json!({"cov(x,y)": jnum(c.get(a)), "cov(y,x)": jnum(cs.get(a))}), json!("equal"), json!({"algorithm": a, "tol_scaled": tol})));
            }
        }
        Err(msg) => {
            rep.check("C08.cov.no_panic", &regime, false, || ctx(json!({"panic": msg}), json!("values"), json!(null)));
        }
    }
    rep.distinct(Hasher::new().s("sub-pair").fs(x).fs(y).finish(), mx.m2 > 0.0 && my.m2 > 0.0);
    rep.sample(|| json!({"kind": "pair", "class": class, "n": n, "x_head": jf(&x[..n.min(5)]), "y_head": jf(&y[..n.min(5)]), "ref_sample_cov_scaled": co / (nf - 1.0), "kx": kx, "ky": ky, "library": c.js()}));
}

const SUB_EDGES: [&str; 3] = ["subnormal", "subnormal-to-normal", "zero-and-subnormal"];

/// strictly increasing bin edges inside / across the subnormal range
fn subnormal_edges(rng: &mut Rng, kind: usize) -> Vec<f64> {
    let ne = rng.usize(3, 24);
    let mut e: Vec<f64> = match kind {
        0 => (0..ne).map(|_| subnormal_mag(rng) * if rng.chance(0.3) { -1.0 } else { 1.0 }).collect(),
        1 => (0..ne).map(|i| if i % 2 == 0 { subnormal_mag(rng) } else { f64::MIN_POSITIVE * rng.log_range(1.0, 1e6) } * if rng.chance(0.2) { -1.0 } else { 1.0 }).collect(),
        _ => {
            let mut v: Vec<f64> = (0..ne - 1).map(|_| rng.int(1, 40) as f64 * D_MIN * if rng.chance(0.3) { -1.0 } else { 1.0 }).collect();
            v.push(0.0);
            if rng.bool() {
                v.push(rng.range(0.5, 2.0));
            }
            v
        }
    };
    e.sort_by(|a, b| a.partial_cmp(b).unwrap());
    e.dedup();
    if e.len() < 2 {
        e.push(e[0] + 1.0);
    }
    e
}

pub fn run(cfg: &Cfg, rep: &mut Report) {
    rep.rule = "data sets of length 1..1e4 (>= 2 for sample statistics and pairs) from 8 classes (small integers, gaussian, offset with mean/sd 1e2..1e8, constant, sorted, reversed, ties, signed zeros), each pushed through the free functions, the Vector methods and the Matrix methods (random r x c shape); pairs from 8 classes (incl. identical and constant) through the four covariance algorithms; grid data with exact shifts up to 8e9 and exact 2^k scalings for the metamorphic relations; uniform (dyadic and linspace) and non-uniform bin edges (2..501 edges); one-point data sets (values 5e-324..1e300, signed zeros) through every population statistic and API with the definition as oracle, length 2 forced for the sample statistics; grid data times 2^+-(300..480) (unit spread, spreads 2^-20..2^-36, offset with spread/mean 2^-28..2^-38) for homogeneity of every statistic. one evaluation = one data set through one API (9-24 library calls, see notes.library_calls). non-trivial = length >= 2 and not constant (hist: >= 2 bins); distinct by bits of the data; near-tie data sets (values 1..4 ulp inside the maximum / minimum placed before and after it) through every API; structured bin edges (geometric progressions with ratios 2, 10, 3, 1.5, ..., their negatives, arithmetic, geometrically shrinking widths, mixed, integer sequences); block-edge lengths: every length m-1, m, m+1 for m a multiple of 64 (labelled by the largest power of two <= 2^13 dividing m) or of 500 inside 2..1e4, and the ends 2, 3, 9998, 9999, 1e4 of the range, each with one data set (6 classes) through every statistic and API and one pair (7 classes) through the four covariance algorithms; data containing subnormal values: all-subnormal (k * 2^-1074, k in 1..2^52, both signs / one sign / a narrow band / k <= 8), subnormal + signed zeros, subnormal + the smallest normal numbers, subnormal entries inside ordinary data, through every statistic and API; pairs tiny x tiny, tiny x ordinary (either order; independent or following x), tiny x large (1e20..1e100), mixed x tiny, mixed x mixed through the four covariance algorithms; bin edges inside and across the subnormal range".into();
    rep.assume("all data finite; empty input and sample statistics of a single value are outside the quantifier");
    rep.assume("'rounding-error bound of a numerically stable algorithm' is read as B = 16[n u sx sy + n u (sx|my| + sy|mx|) + (n u)^2 |mx my|] for (co)variances (Welford's own n·u·kappa bound is the middle term; DESIGN's tighter c·n·eps·(s^2 + eps·mu^2) is recorded under info.worst_ratio_vs_DESIGN_formula.* for comparison), 8 n u max|x| for means (1 ulp for `mean` of small integers), B/sd resp. sqrt(B) for standard deviations");
    rep.assume("min/max are compared by value (either zero accepted for +-0); argmin/argmax = first index whose value equals the extreme");
    rep.assume("power-of-two scaling is required bitwise (every algorithm built from + - * / and sqrt commutes with it when nothing under/overflows; data magnitudes keep 2^±60 away from the limits)");
    rep.assume("one data point (the smallest length of the population statistics): mean = welford_mean = min = max = x by value, var = std = covariance = 0 exactly (the only deviation from the mean is x - x), argmin = argmax = 0; values from signed zeros and subnormals to 1e300; sample statistics start at length 2 (forced in 1/16 of the single-vector and 1/8 of the pair cases)");
    rep.assume("extreme scales: grid data (|x| < 64, grid 2^-40; unit spread, spreads 2^-20..2^-36, or offset 1..3 with spread 2^-28..2^-38) multiplied by 2^±(300..480); the homogeneity relation is required to 4 ulp (not bitwise: up to n of the smallest squared deviations may fall below 2^-1022 while the result itself stays above 2^-940); factors are limited so that no true result over- or underflows");
    rep.assume("hist_bin_centers: 2 ulp of the larger edge magnitude; on inexactly uniform (linspace) edges an extra i·u·max|e| is allowed for bin i (accumulated rounding of a cumulative construction)");
    let maxlen = if cfg.miri() { 24 } else { 10_000 };
    let n_single = cfg.pick(1600, 32000, 8);
    let n_pair = cfg.pick(1000, 20000, 8);
    let n_meta = cfg.pick(400, 8000, 3);
    let n_hist = cfg.pick(600, 6000, 6);
    let n_len1 = cfg.pick(300, 4000, 4);
    let n_xscale = cfg.pick(400, 8000, 3);
    par_cases(cfg, rep, 1, n_single, |i, rng, rep| {
        let class = CLASSES[i % CLASSES.len()];
        // one case in 16 of every class at the smallest length of the population statistics, one at the smallest of
        // the sample statistics
        let n = match (i / CLASSES.len()) % 16 {
            3 => 1,
            11 => 2.min(maxlen),
            _ => gen_len(rng, maxlen, 1),
        };
        let x = gen_data(rng, class, n);
        check_single(rep, class, &x, rng);
        rep.seen(if n == 1 { "len=1" } else if n <= 9 { "len=2..9" } else if n <= 300 { "len=10..300" } else { "len>300" }, 1);
        if n == 2 {
            rep.seen("len=2", 1);
        }
    });
    par_cases(cfg, rep, 2, n_pair, |i, rng, rep| {
        let class = PAIR_CLASSES[i % PAIR_CLASSES.len()];
        let n = if (i / PAIR_CLASSES.len()) % 8 == 5 { 2 } else { gen_len(rng, maxlen, 2) };
        let (x, y) = gen_pair(rng, class, n);
        check_pair(rep, class, &x, &y);
        if n == 2 {
            rep.seen("pair:len=2", 1);
        }
    });
    par_cases(cfg, rep, 6, n_len1, |_i, rng, rep| single_point(rng, rep));
    par_cases(cfg, rep, 7, n_xscale, |i, rng, rep| extreme_scale(rng, rep, maxlen, i % 2 == 0));
    par_cases(cfg, rep, 3, n_meta, |_i, rng, rep| metamorphic(rng, rep, maxlen));
    par_cases(cfg, rep, 4, n_hist, |_i, rng, rep| hist(rng, rep, maxlen));
    // the DESIGN probes, literally
    par_cases(cfg, rep, 5, 1, |_i, _rng, rep| {
        let e = [0.0, 1.0, 3.0, 7.0];
        rep.case("hist:non-uniform");
        let got = guard(|| st::hist_bin_centers(&e).v.clone());
        rep.check("C08.hist_bin_centers", "non-uniform", matches!(&got, Ok(v) if v.as_slice() == [0.5, 2.0, 5.0]), || json!({"edges": jf(&e), "observed": got.as_ref().map(|v| jf(v)).unwrap_or(json!("panic")), "expected": [0.5, 2.0, 5.0]}));
        check_pair(rep, "small-int", &[1.0, 2.0, 4.0, 7.0], &[1.0, 3.0, 2.0, 5.0]);
        // ties: first occurrence
        let t = [2.0, 1.0, 3.0, 1.0, 3.0];
        rep.case("free:ties");
        let r = guard(|| (st::argmin(&t), st::argmax(&t)));
        rep.check("C08.argmin", "free:ties", matches!(r, Ok((1, _))), || json!({"data": jf(&t), "observed": format!("{:?}", r), "expected": 1}));
        rep.check("C08.argmax", "free:ties", matches!(r, Ok((_, 2))), || json!({"data": jf(&t), "observed": format!("{:?}", r), "expected": 2}));
    });
    // near-ties of the extremes and structured bin edges
    let n_near = cfg.pick(800, 12000, 6);
    par_cases(cfg, rep, 8, n_near, |i, rng, rep| {
        let n = if i % 4 == 0 { rng.usize(4, 9) } else { gen_len(rng, maxlen, 4) };
        let x = gen_near_ties(rng, n);
        // the construction itself: a strictly smaller (larger) neighbour within 4 ulp precedes the maximum (minimum)
        let (mut imax, mut imin) = (0, 0);
        for (j, &v) in x.iter().enumerate() {
            if v > x[imax] {
                imax = j;
            }
            if v < x[imin] {
                imin = j;
            }
        }
        if x[..imax].iter().any(|&v| v < x[imax] && v >= step(x[imax], 4)) {
            rep.seen("extreme:near-max-before-max", 1);
        }
        if x[..imin].iter().any(|&v| v > x[imin] && v <= step(x[imin], -4)) {
            rep.seen("extreme:near-min-before-min", 1);
        }
        check_single(rep, "near-ties", &x, rng);
    });
    let n_sh = cfg.pick(900, 9000, 12);
    par_cases(cfg, rep, 9, n_sh, |i, rng, rep| hist_structured(rng, rep, i % STRUCTURED_EDGES.len()));
    // lengths at the block / batch boundaries of long inputs (not under Miri: the lengths start at 63)
    if !cfg.miri() {
        let edges = block_edge_lengths();
        // sanitizer layers: the lengths next to the multiples of 1024 and the range ends only
        let edges: Vec<(usize, String, &'static str)> = if cfg.lite { edges.into_iter().filter(|(n, l, _)| l == "range-end" || (n + 1) % 1024 <= 2).collect() } else { edges };
        let reps = cfg.pick(1, 6, 1);
        par_cases(cfg, rep, 10, edges.len() * reps, |i, rng, rep| {
            let (n, label, off) = &edges[i % edges.len()];
            block_edge(rng, rep, *n, label, off);
        });
        for l in block_edge_labels() {
            if cfg.lite && !["range-end", "k*2^10", "k*2^11", "k*2^12", "k*2^13"].contains(&l.as_str()) {
                continue;
            }
            rep.require(&format!("blockedge:{}", l), 1);
            if l != "range-end" {
                for off in ["m-1", "m", "m+1"] {
                    rep.require(&format!("blockedge:{}:len={}", l, off), 1);
                }
            }
            rep.require(&format!("pair:blockedge:{}", l), 1);
            for api in ["free", "vector", "matrix"] {
                rep.require(&format!("{}:blockedge:{}", api, l), 1);
            }
        }
    }
    // data containing subnormal values (streams 11..13)
    rep.assume("subnormal data: tiny data sets (every |x| < 2^-1000) are judged after the exact multiplication by 2^700 (reference and tolerance in those units); tolerance = B without its floor + an absolute underflow allowance in units of d = 2^-1074: 2 d for mean, (n/2 + 2) d for welford_mean, 4 n d for (sample) variance, 4 n d (1 + max|x_i - mean x| + max|y_i - mean y|) for the covariances (each operation with a subnormal result rounds by <= d/2; a running mean of tiny data carries <= n d/4, which is multiplied by deviations of the other variable); data with ordinary values keep the ordinary reference and bound");
    let n_sub = cfg.pick(640, 9600, 8);
    par_cases(cfg, rep, 11, n_sub, |i, rng, rep| {
        let class = SUB_CLASSES[i % SUB_CLASSES.len()];
        let n = match (i / SUB_CLASSES.len()) % 8 {
            3 => 1,
            5 => 2.min(maxlen),
            _ => gen_len(rng, maxlen.min(3000), 1),
        };
        let x = gen_sub_data(rng, class, n);
        rep.seen(if x.iter().all(|v| is_subnormal(*v)) { "subnormal:all" } else { "subnormal:some" }, 1);
        if x.iter().any(|v| *v == D_MIN || *v == -D_MIN) {
            rep.seen("subnormal:contains-5e-324", 1);
        }
        if class == "subnormal+ordinary" {
            check_single(rep, class, &x, rng);
        } else {
            check_tiny_single(rep, class, &x, rng);
        }
    });
    let n_subpair = cfg.pick(600, 9600, 6);
    par_cases(cfg, rep, 12, n_subpair, |i, rng, rep| {
        let class = SUB_PAIR_CLASSES[i % SUB_PAIR_CLASSES.len()];
        let n = if (i / SUB_PAIR_CLASSES.len()) % 8 == 5 { 2 } else { gen_len(rng, maxlen.min(3000), 2) };
        let (x, y) = gen_sub_pair(rng, class, n);
        if x.iter().chain(y.iter()).any(|v| is_subnormal(*v)) {
            rep.seen("subnormal:pair-with-subnormal", 1);
        }
        if class == "mixed*mixed" {
            rep.case("pair:mixed*mixed");
            check_pair_in(rep, "subnormal+ordinary", &x, &y, Some("subnormal"));
        } else {
            check_tiny_pair(rep, class, &x, &y);
        }
    });
    let n_subedges = cfg.pick(90, 900, 3);
    par_cases(cfg, rep, 13, n_subedges, |i, rng, rep| {
        let kind = i % SUB_EDGES.len();
        let e = subnormal_edges(rng, kind);
        hist_check_edges(rep, &format!("edges:{}", SUB_EDGES[kind]), &e, "hist-subnormal", "worst_ratio.hist_bin_centers.subnormal");
    });
    for api in ["free", "vector", "matrix"] {
        for c in SUB_CLASSES {
            rep.require(&format!("{}:{}", api, c), 1);
        }
    }
    for c in SUB_PAIR_CLASSES {
        rep.require(&format!("pair:{}", c), 1);
    }
    for k in SUB_EDGES {
        rep.require(&format!("hist:edges:{}", k), 1);
    }
    rep.require("subnormal:all", 1);
    rep.require("subnormal:pair-with-subnormal", 1);
    if !cfg.lite {
        rep.require("subnormal:some", 1);
        rep.require("subnormal:contains-5e-324", 1);
    }
    for api in ["free", "vector", "matrix"] {
        rep.require(&format!("{}:near-ties", api), 1);
    }
    for r in ["extreme:near-max-before-max", "extreme:near-min-before-min"] {
        rep.require(r, 1);
    }
    for k in STRUCTURED_EDGES {
        rep.require(&format!("hist:structured:{}", k), 1);
    }
    for api in ["free", "vector", "matrix"] {
        for c in CLASSES {
            rep.require(&format!("{}:{}", api, c), 1);
        }
    }
    for c in PAIR_CLASSES {
        rep.require(&format!("pair:{}", c), 1);
    }
    rep.require("meta:scale-2^k", 1);
    for r in ["free:len=1", "vector:len=1", "matrix:len=1", "pair:len=1", "xscale:huge", "xscale:tiny"] {
        rep.require(r, 1);
    }
    rep.require("hist:non-uniform", 1);
    if !cfg.miri() {
        for r in ["pair-oracle:exact-rational", "pair-oracle:double-double", "hist:uniform:dyadic", "hist:uniform:linspace"] {
            rep.require(r, 1);
        }
    }
    if !cfg.lite {
        for r in ["meta:shift>=1e6", "meta:shift<1e6", "hist:single-bin", "len=1", "len=2", "pair:len=2", "len=2..9", "len=10..300", "len>300", "extreme:tied-min-not-at-0", "extreme:tied-max-not-at-0"] {
            rep.require(r, 1);
        }
    }
}
