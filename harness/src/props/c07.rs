//! C07 — quadrature rules are exact on their polynomial class and converge at order (DESIGN §3 C07).
//!
//! Events: return values of `trapz`, `romberg`, `quad5`, `trapezoid`.
//! Oracle: exact antiderivatives of monomials / random polynomials in double-double with the a-priori
//! rounding bound `|b-a|·P(X)·(32·γ_{N+4} + 16(d+1)u)`, `P(X) = Σ|c_i|·X^i`, `X = max(|a|,|b|)`
//! (for a monomial `P(X) = max|p|`; the second term covers the rounding of the integrand closure and
//! of the nodes); linearity, antisymmetry in the limits, `Q(a,a) = 0`; a catalogue of 22 smooth
//! integrands with closed antiderivative and an upper bound of max|f''| for the trapezoid error bound
//! and Romberg's tolerance-order bound (the level budget is judged on a reference tableau kept in
//! double-double); sampled `trapezoid` against `Σ (y_i+y_{i-1})/2·Δx_i` in double-double.
//!
//! `trapz` is watched through four assertions only (`affine_exact`, `linearity`, `antisymmetry`,
//! `error_bound`), each split into the regime where the end-point value f(a) (resp. f(a) − f(b))
//! vanishes and the regime where it does not, so a wrong end-point weight has a signature of its own.
use crate::gen::Rng;
use crate::oracle::dd::{gamma_n, Dd, U};
use crate::report::{guard, jf, jnum, par_cases, Cfg, Hasher, Report};
use compute::integrate::{quad5, romberg, trapezoid, trapz};
use serde_json::{json, Value};
use std::cell::Cell;
use std::f64::consts::{FRAC_PI_2, LN_2, PI};

// ---------------------------------------------------------------------------------------------
// rules

#[derive(Clone, Copy, Debug, PartialEq)]
enum Rule {
    Trapz(usize),
    /// romberg(f, a, b, 0, k): eps = 0 disables the early exit, the full k-level tableau is used
    Romberg(usize),
    Quad5,
}
impl Rule {
    fn name(self) -> &'static str {
        match self {
            Rule::Trapz(_) => "trapz",
            Rule::Romberg(_) => "romberg",
            Rule::Quad5 => "quad5",
        }
    }
    fn evals(self) -> usize {
        match self {
            Rule::Trapz(n) => n + 2,
            Rule::Romberg(k) => (1usize << (k - 1)) + 1,
            Rule::Quad5 => 10,
        }
    }
    fn js(self) -> Value {
        match self {
            Rule::Trapz(n) => json!({"trapz_panels": n}),
            Rule::Romberg(k) => json!({"romberg_eps": 0.0, "romberg_nmax": k}),
            Rule::Quad5 => json!("quad5"),
        }
    }
    fn tag(self) -> u64 {
        match self {
            Rule::Trapz(n) => 1_000_000 + n as u64,
            Rule::Romberg(k) => 2_000_000 + k as u64,
            Rule::Quad5 => 3_000_000,
        }
    }
}

/// records how often the integrand was evaluated and the largest |value| it returned
struct Probe {
    n: Cell<u64>,
    m: Cell<f64>,
}
impl Probe {
    fn new() -> Self {
        Probe { n: Cell::new(0), m: Cell::new(0.0) }
    }
    fn hit(&self, v: f64) -> f64 {
        self.n.set(self.n.get() + 1);
        if v.abs() > self.m.get() || v.is_nan() {
            self.m.set(v.abs());
        }
        v
    }
}

fn apply(rule: Rule, f: &dyn Fn(f64) -> f64, a: f64, b: f64) -> Result<f64, String> {
    guard(|| match rule {
        Rule::Trapz(n) => trapz(f, a, b, n),
        Rule::Romberg(k) => romberg(f, a, b, 0.0, k),
        Rule::Quad5 => quad5(f, a, b),
    })
}
/// apply with a probe: (value, evaluations, max |f| at the nodes)
fn apply_probed(rule: Rule, f: &dyn Fn(f64) -> f64, a: f64, b: f64) -> Result<(f64, u64, f64), String> {
    let p = Probe::new();
    let g = |x: f64| p.hit(f(x));
    let v = apply(rule, &g, a, b)?;
    Ok((v, p.n.get(), p.m.get()))
}

// ---------------------------------------------------------------------------------------------
// polynomials

#[derive(Clone, Debug)]
struct Poly {
    c: Vec<f64>,
    /// Some(d): the pure monomial x^d evaluated with powi
    mono: Option<i32>,
}
impl Poly {
    fn monomial(d: usize) -> Poly {
        let mut c = vec![0.0; d + 1];
        c[d] = 1.0;
        Poly { c, mono: Some(d as i32) }
    }
    /// random polynomial of a random degree in lo..=hi
    fn random_deg(rng: &mut Rng, lo: usize, hi: usize) -> Poly {
        let d = rng.usize(lo, hi);
        Poly::random(rng, d)
    }
    fn random(rng: &mut Rng, d: usize) -> Poly {
        let ints = rng.chance(0.25);
        let s = 10f64.powf(rng.range(-2.0, 2.0));
        let mut c: Vec<f64> = (0..=d).map(|_| if ints { rng.int(-9, 9) as f64 } else { rng.normal() * s }).collect();
        if c[d] == 0.0 {
            c[d] = 1.0;
        }
        Poly { c, mono: None }
    }
    fn deg(&self) -> usize {
        self.c.len() - 1
    }
    fn eval(&self, x: f64) -> f64 {
        if let Some(d) = self.mono {
            return x.powi(d);
        }
        let mut s = 0.0;
        for &c in self.c.iter().rev() {
            s = s * x + c;
        }
        s
    }
    /// Σ |c_i| X^i
    fn absval(&self, x: f64) -> f64 {
        let mut s = 0.0;
        for &c in self.c.iter().rev() {
            s = s * x.abs() + c.abs();
        }
        s
    }
    /// exact ∫_a^b p in double-double
    fn integral(&self, a: f64, b: f64) -> Dd {
        let (da, db) = (Dd::new(a), Dd::new(b));
        let (mut pa, mut pb) = (da, db);
        let mut s = Dd::ZERO;
        for (i, &c) in self.c.iter().enumerate() {
            if c != 0.0 {
                s = s + Dd::new(c) * (pb - pa) / Dd::new(i as f64 + 1.0);
            }
            pa = pa * da;
            pb = pb * db;
        }
        s
    }
    fn js(&self) -> Value {
        match self.mono {
            Some(d) => json!(format!("x^{}", d)),
            None => json!({"coefficients_low_to_high": jf(&self.c)}),
        }
    }
}

/// a-priori rounding bound for a rule applied to a polynomial of degree d (see module doc)
fn poly_tol(rule: Rule, a: f64, b: f64, pabs: f64, d: usize) -> f64 {
    (b - a).abs() * pabs * (32.0 * gamma_n(rule.evals() + 4) + 16.0 * (d as f64 + 1.0) * U) + 1e-300
}

// ---------------------------------------------------------------------------------------------
// intervals

fn gen_interval(rng: &mut Rng) -> (f64, f64) {
    let (mut a, mut b) = match rng.usize(0, 5) {
        0 => (rng.range(-1e3, 1e3), rng.range(-1e3, 1e3)),
        1 => {
            let a = rng.range(-2.0, 2.0);
            (a, a + rng.log_range(0.01, 4.0))
        }
        2 => {
            let c = rng.log_range(0.1, 1e3);
            (-c, c)
        }
        3 => {
            let a = rng.range(10.0, 999.0) * if rng.bool() { 1.0 } else { -1.0 };
            let w = rng.log_range(1e-3, 10.0);
            (a, (a + w).min(1e3))
        }
        4 => dyadic_interval(rng, -64.0, 64.0, 128.0),
        _ => (0.0, rng.log_range(0.1, 1e3)),
    };
    if a == b {
        b = a + 1.0;
    }
    if a > b {
        std::mem::swap(&mut a, &mut b);
    }
    if rng.chance(0.4) {
        std::mem::swap(&mut a, &mut b); // a > b
    }
    (a, b)
}
/// end points that are multiples of 2^-6 inside [lo, hi], a < b, length <= maxlen
fn dyadic_interval(rng: &mut Rng, lo: f64, hi: f64, maxlen: f64) -> (f64, f64) {
    let (l, h) = ((lo * 64.0).ceil() as i64, (hi * 64.0).floor() as i64);
    let a = rng.int(l, h - 1);
    let w = rng.int(1, ((maxlen * 64.0) as i64).min(h - a).max(1));
    (a as f64 / 64.0, (a + w) as f64 / 64.0)
}
fn orient(rep: &mut Report, a: f64, b: f64) {
    rep.seen(if a < b { "interval:a<b" } else if a > b { "interval:a>b" } else { "interval:a=b" }, 1);
}
fn panels(rng: &mut Rng) -> usize {
    match rng.usize(0, 3) {
        0 => *rng.choose(&[1usize, 2, 3, 4, 5, 7, 8, 16, 100, 1000, 4096]),
        1 => rng.usize(1, 12),
        _ => rng.log_range(1.0, 4096.99).floor() as usize,
    }
}

// ---------------------------------------------------------------------------------------------
// smooth catalogue

fn max_abs_sin(lo: f64, hi: f64) -> f64 {
    if hi - lo >= PI {
        return 1.0;
    }
    let k = ((lo - FRAC_PI_2) / PI).ceil();
    if FRAC_PI_2 + k * PI <= hi + 1e-9 {
        1.0
    } else {
        lo.sin().abs().max(hi.sin().abs())
    }
}
fn max_abs_cos(lo: f64, hi: f64) -> f64 {
    max_abs_sin(lo + FRAC_PI_2, hi + FRAC_PI_2)
}
/// max of |g| over the end points and the given stationary points of g inside [lo, hi]
fn ext(g: fn(f64) -> f64, lo: f64, hi: f64, crits: &[f64]) -> f64 {
    let mut m = g(lo).abs().max(g(hi).abs());
    for &c in crits {
        if c > lo && c < hi {
            m = m.max(g(c).abs());
        }
    }
    m
}
fn runge2(x: f64) -> f64 {
    (6.0 * x * x - 2.0) / (1.0 + x * x).powi(3)
}
const C_TANH: f64 = 0.658_478_948_462_408_4; // atanh(1/sqrt 3)
const C_LOGI: f64 = 1.316_957_896_924_816_6; // ln(2 + sqrt 3)
const C_ATAN: f64 = 0.577_350_269_189_625_8; // 1/sqrt 3
const C_LNX: f64 = 6.254_470_329_092_969; // e^(11/6)

struct Smooth {
    name: &'static str,
    f: fn(f64) -> f64,
    /// antiderivative: (value, Σ|terms|) — the second number scales the rounding allowance
    af: fn(f64) -> (f64, f64),
    /// upper bound of max |f''| on [lo, hi]
    m2: fn(f64, f64) -> f64,
    dom: (f64, f64),
    /// longest interval used with tolerance-driven Romberg (keeps oscillatory integrands resolved)
    rlen: f64,
}

fn catalogue() -> Vec<Smooth> {
    vec![
        Smooth { name: "sin x", f: |x| x.sin(), af: |x| (-x.cos(), 1.0), m2: max_abs_sin, dom: (-1e3, 1e3), rlen: 8.0 },
        Smooth { name: "cos x", f: |x| x.cos(), af: |x| (x.sin(), 1.0), m2: max_abs_cos, dom: (-1e3, 1e3), rlen: 8.0 },
        Smooth { name: "exp x", f: |x| x.exp(), af: |x| (x.exp(), x.exp()), m2: |_, hi| hi.exp(), dom: (-10.0, 10.0), rlen: 8.0 },
        Smooth { name: "exp(-x)", f: |x| (-x).exp(), af: |x| (-(-x).exp(), (-x).exp()), m2: |lo, _| (-lo).exp(), dom: (-10.0, 10.0), rlen: 8.0 },
        Smooth { name: "1/(1+x^2)", f: |x| 1.0 / (1.0 + x * x), af: |x| (x.atan(), FRAC_PI_2), m2: |lo, hi| ext(runge2, lo, hi, &[-1.0, 0.0, 1.0]), dom: (-1e3, 1e3), rlen: 10.0 },
        Smooth { name: "1/x", f: |x| 1.0 / x, af: |x| (x.ln(), x.ln().abs() + 1.0), m2: |lo, _| 2.0 / (lo * lo * lo), dom: (0.1, 1e3), rlen: 20.0 },
        Smooth { name: "ln x", f: |x| x.ln(), af: |x| (x * x.ln() - x, (x * x.ln()).abs() + x), m2: |lo, _| 1.0 / (lo * lo), dom: (0.1, 1e3), rlen: 20.0 },
        Smooth { name: "sqrt x", f: |x| x.sqrt(), af: |x| (x * x.sqrt() / 1.5, x * x.sqrt()), m2: |lo, _| 0.25 / (lo * lo.sqrt()), dom: (0.01, 1e3), rlen: 20.0 },
        Smooth {
            name: "x sqrt(1+2x)",
            f: |x| x * (1.0 + 2.0 * x).sqrt(),
            af: |x| {
                let u = 1.0 + 2.0 * x;
                (u * u * u.sqrt() / 10.0 - u * u.sqrt() / 6.0, u * u * u.sqrt() / 10.0 + u * u.sqrt() / 6.0)
            },
            m2: |lo, _| (2.0 + 3.0 * lo) / ((1.0 + 2.0 * lo) * (1.0 + 2.0 * lo).sqrt()),
            dom: (0.0, 100.0),
            rlen: 20.0,
        },
        Smooth { name: "sin^2 x cos^2 x", f: |x| x.sin().powi(2) * x.cos().powi(2), af: |x| (x / 8.0 - (4.0 * x).sin() / 32.0, x.abs() / 8.0 + 1.0 / 32.0), m2: |lo, hi| 2.0 * max_abs_cos(4.0 * lo, 4.0 * hi), dom: (-50.0, 50.0), rlen: 4.0 },
        Smooth { name: "sin^3 x cos x", f: |x| x.sin().powi(3) * x.cos(), af: |x| (x.sin().powi(4) / 4.0, 0.25), m2: |_, _| 3.0, dom: (-50.0, 50.0), rlen: 4.0 },
        Smooth { name: "1/(3x-7)^2", f: |x| 1.0 / (3.0 * x - 7.0).powi(2), af: |x| (-1.0 / (3.0 * (3.0 * x - 7.0)), 1.0 / (3.0 * (3.0 * x - 7.0))), m2: |lo, _| 54.0 / (3.0 * lo - 7.0).powi(4), dom: (3.0, 1e3), rlen: 20.0 },
        Smooth { name: "ln x / x", f: |x| x.ln() / x, af: |x| (x.ln() * x.ln() / 2.0, x.ln() * x.ln() / 2.0), m2: |lo, hi| ext(|x| (2.0 * x.ln() - 3.0) / (x * x * x), lo, hi, &[C_LNX]), dom: (1.0, 1e3), rlen: 20.0 },
        Smooth {
            name: "tanh x",
            f: |x| x.tanh(),
            af: |x| (x.abs() + (-2.0 * x.abs()).exp().ln_1p() - LN_2, x.abs() + 2.0 * LN_2),
            m2: |lo, hi| ext(|x| 2.0 * x.tanh() * (1.0 - x.tanh() * x.tanh()), lo, hi, &[-C_TANH, C_TANH]),
            dom: (-20.0, 20.0),
            rlen: 10.0,
        },
        Smooth { name: "x exp(-x)", f: |x| x * (-x).exp(), af: |x| (-(x + 1.0) * (-x).exp(), (x.abs() + 1.0) * (-x).exp()), m2: |lo, hi| ext(|x| (x - 2.0) * (-x).exp(), lo, hi, &[3.0]), dom: (-3.0, 30.0), rlen: 10.0 },
        Smooth { name: "cosh x", f: |x| x.cosh(), af: |x| (x.sinh(), x.cosh()), m2: |lo, hi| lo.abs().max(hi.abs()).cosh(), dom: (-10.0, 10.0), rlen: 8.0 },
        Smooth {
            name: "1/(1+exp(-x))",
            f: |x| 1.0 / (1.0 + (-x).exp()),
            af: |x| (x.max(0.0) + (-x.abs()).exp().ln_1p(), x.abs() + LN_2),
            m2: |lo, hi| {
                ext(
                    |x| {
                        let s = 1.0 / (1.0 + (-x).exp());
                        s * (1.0 - s) * (1.0 - 2.0 * s)
                    },
                    lo,
                    hi,
                    &[-C_LOGI, C_LOGI],
                )
            },
            dom: (-30.0, 30.0),
            rlen: 10.0,
        },
        Smooth { name: "x sin x", f: |x| x * x.sin(), af: |x| (x.sin() - x * x.cos(), 1.0 + x.abs()), m2: |lo, hi| 2.0 + lo.abs().max(hi.abs()), dom: (-50.0, 50.0), rlen: 8.0 },
        Smooth { name: "exp(x) sin x", f: |x| x.exp() * x.sin(), af: |x| (x.exp() * (x.sin() - x.cos()) / 2.0, x.exp()), m2: |_, hi| 2.0 * hi.exp(), dom: (-5.0, 5.0), rlen: 6.0 },
        Smooth { name: "x^4", f: |x| x * x * x * x, af: |x| (x.powi(5) / 5.0, x.powi(5).abs() / 5.0), m2: |lo, hi| 12.0 * (lo * lo).max(hi * hi), dom: (-10.0, 10.0), rlen: 20.0 },
        Smooth { name: "atan x", f: |x| x.atan(), af: |x| (x * x.atan() - 0.5 * (x * x).ln_1p(), (x * x.atan()).abs() + 0.5 * (x * x).ln_1p()), m2: |lo, hi| ext(|x| 2.0 * x / (1.0 + x * x).powi(2), lo, hi, &[-C_ATAN, C_ATAN]), dom: (-100.0, 100.0), rlen: 10.0 },
        Smooth { name: "1/(1+25x^2)", f: |x| 1.0 / (1.0 + 25.0 * x * x), af: |x| ((5.0 * x).atan() / 5.0, FRAC_PI_2 / 5.0), m2: |lo, hi| 25.0 * ext(runge2, 5.0 * lo, 5.0 * hi, &[-1.0, 0.0, 1.0]), dom: (-5.0, 5.0), rlen: 4.0 },
    ]
}

/// random interval inside the entry's domain: (a, b) with a != b, |b-a| <= maxlen, either orientation
fn smooth_interval(rng: &mut Rng, s: &Smooth, maxlen: f64, dyadic: bool) -> (f64, f64) {
    let (lo, hi) = s.dom;
    let (mut a, mut b);
    if dyadic {
        let (x, y) = dyadic_interval(rng, lo.max(-64.0), hi.min(64.0), maxlen.min(16.0));
        a = x;
        b = y;
    } else {
        let len = rng.log_range(0.05, maxlen.min(hi - lo));
        a = if rng.chance(0.5) { lo + (hi - lo - len) * rng.f64() } else { (lo + (hi - lo - len).min(6.0) * rng.f64()).max(lo) };
        if rng.chance(0.3) {
            // near the middle of the domain (0 for the symmetric ones)
            a = (0.5 * (lo + hi) - len * rng.f64()).max(lo);
        }
        b = (a + len).min(hi);
    }
    if rng.chance(0.35) {
        std::mem::swap(&mut a, &mut b);
    }
    (a, b)
}

/// I = F(b) − F(a) and the rounding allowance of this reference value
fn smooth_integral(s: &Smooth, a: f64, b: f64) -> (f64, f64) {
    let (fa, sa) = (s.af)(a);
    let (fb, sb) = (s.af)(b);
    (Dd::sum2(fb, -fa).f(), 16.0 * U * (sa + sb))
}

// ---------------------------------------------------------------------------------------------
// reference Romberg tableau (double-double tableau on f64 integrand values at the library's nodes)

struct RefTab<'a> {
    f: &'a dyn Fn(f64) -> f64,
    a: f64,
    b: f64,
    rows: Vec<Vec<Dd>>,
}
impl<'a> RefTab<'a> {
    fn new(f: &'a dyn Fn(f64) -> f64, a: f64, b: f64) -> Self {
        let r00 = Dd::sum2(b, -a) * Dd::new(0.5) * Dd::sum2(f(a), f(b));
        RefTab { f, a, b, rows: vec![vec![r00]] }
    }
    /// diagonal entry R[n][n], computing further rows on demand
    fn diag(&mut self, n: usize) -> f64 {
        while self.rows.len() <= n {
            let k = self.rows.len();
            let hn = (self.b - self.a) / 2f64.powi(k as i32);
            let mut s = Dd::ZERO;
            for j in 1..=(1u64 << (k - 1)) {
                s = s + Dd::new((self.f)(self.a + (2 * j - 1) as f64 * hn));
            }
            let mut row = vec![self.rows[k - 1][0] * Dd::new(0.5) + s * Dd::sum2(self.b, -self.a) / Dd::new(2f64.powi(k as i32))];
            for m in 1..=k {
                let d = row[m - 1] - self.rows[k - 1][m - 1];
                row.push(row[m - 1] + d / Dd::new(4f64.powi(m as i32) - 1.0));
            }
            self.rows.push(row);
        }
        self.rows[n][n].f()
    }
}
/// the library's stopping criterion
fn stop_crit(x: f64, y: f64, eps: f64) -> bool {
    let rd = if x == 0.0 {
        y.abs()
    } else if y == 0.0 {
        x.abs()
    } else {
        (x.abs() - y.abs()).abs() / x.abs().min(y.abs())
    };
    rd < eps || (x - y).abs() < eps
}

// ---------------------------------------------------------------------------------------------
// checks

fn ctx(rule: Rule, integrand: Value, a: f64, b: f64, extra: Value) -> Value {
    json!({"rule": rule.js(), "integrand": integrand, "a": a, "b": b, "detail": extra})
}

/// exactness of `rule` on polynomial `p` over [a,b]; returns error/tolerance
fn check_exact(rep: &mut Report, assertion: &str, regime: &str, rule: Rule, p: &Poly, f: &dyn Fn(f64) -> f64, pabs: f64, a: f64, b: f64, integral: Dd, assert: bool) -> f64 {
    let d = p.deg();
    let tol = poly_tol(rule, a, b, pabs, d);
    let np = format!("C07.{}.no_panic", rule.name());
    match apply(rule, f, a, b) {
        Err(msg) => {
            rep.check(&np, regime, false, || ctx(rule, p.js(), a, b, json!({"panic": msg})));
            f64::NAN
        }
        Ok(q) => {
            rep.check(&np, regime, true, || json!(null));
            let err = (Dd::new(q) - integral).f().abs();
            let ok = err <= tol; // NaN fails
            if assert {
                rep.check(assertion, regime, ok, || ctx(rule, p.js(), a, b, json!({"observed": jnum(q), "expected": integral.f(), "abs_err": jnum(err), "tol": tol, "f(a)": jnum(f(a)), "f(b)": jnum(f(b))})));
            }
            if err.is_nan() {
                f64::INFINITY
            } else {
                err / tol
            }
        }
    }
}

fn exact_trapz(rng: &mut Rng, rep: &mut Report) {
    let (a, b) = gen_interval(rng);
    let n = panels(rng);
    let rule = Rule::Trapz(n);
    orient(rep, a, b);
    let x = a.abs().max(b.abs());
    // half of the cases: an affine integrand with a root at the lower limit, f(x) = c·(x − a)
    if rng.chance(0.4) {
        let c = if rng.chance(0.3) { 1.0 } else { rng.normal() * 10f64.powf(rng.range(-2.0, 2.0)) };
        let f = move |t: f64| c * (t - a);
        let p = Poly { c: vec![-c * a, c], mono: None };
        let w = Dd::sum2(b, -a);
        let integral = Dd::new(c) * w * w * Dd::new(0.5);
        let regime = "trapz:affine:f(a)=0";
        rep.case(regime);
        rep.distinct(Hasher::new().u(rule.tag()).f(a).f(b).f(c).u(1).finish(), c != 0.0);
        let r = check_exact(rep, "C07.trapz.affine_exact", regime, rule, &p, &f, 2.0 * c.abs() * x, a, b, integral, true);
        rep.note_max("worst_ratio.trapz_affine_exact.f(a)=0", r);
        return;
    }
    let p = match rng.usize(0, 3) {
        0 => Poly::monomial(0),
        1 => Poly::monomial(1),
        _ => Poly::random(rng, 1),
    };
    let f = |t: f64| p.eval(t);
    let regime = if f(a) == 0.0 { "trapz:affine:f(a)=0" } else { "trapz:affine:f(a)!=0" };
    rep.case(regime);
    rep.distinct(Hasher::new().u(rule.tag()).f(a).f(b).fs(&p.c).finish(), true);
    let r = check_exact(rep, "C07.trapz.affine_exact", regime, rule, &p, &f, p.absval(x), a, b, p.integral(a, b), true);
    if regime.ends_with("f(a)=0") {
        rep.note_max("worst_ratio.trapz_affine_exact.f(a)=0", r);
    } else {
        rep.note_max("observed_worst_ratio.trapz_affine_exact.f(a)!=0", r);
    }
    rep.sample(|| json!({"rule": rule.js(), "integrand": p.js(), "a": a, "b": b, "regime": regime, "err_over_tol": jnum(r)}));
}

fn exact_romberg(rng: &mut Rng, rep: &mut Report, deep: bool) {
    let (a, b) = gen_interval(rng);
    orient(rep, a, b);
    let k = if deep { rng.usize(13, 20) } else if rng.chance(0.6) { rng.usize(2, 6) } else { rng.usize(7, 12) };
    let dmax = if deep { 3 } else { (2 * k - 1).min(23) };
    let d = match rng.usize(0, 4) {
        0 | 1 => dmax,
        2 => dmax.saturating_sub(1),
        _ => rng.usize(0, dmax),
    };
    let mono = rng.chance(0.5) && d <= 19;
    let p = if mono { Poly::monomial(d) } else { Poly::random(rng, d) };
    let f = |t: f64| p.eval(t);
    let rule = Rule::Romberg(k);
    let regime = if deep { "romberg:lowdeg:k=13..20" } else if mono { "romberg:monomial:k=2..12" } else { "romberg:randpoly:k=2..12" };
    rep.case(regime);
    rep.seen(&format!("romberg:k={}", k), 1);
    if d == 2 * k - 1 {
        rep.seen("romberg:top-degree-2k-1", 1);
    }
    rep.distinct(Hasher::new().u(rule.tag()).f(a).f(b).fs(&p.c).finish(), d >= 1);
    let x = a.abs().max(b.abs());
    let r = check_exact(rep, "C07.romberg.poly_exact", regime, rule, &p, &f, p.absval(x), a, b, p.integral(a, b), true);
    rep.note_max(if deep { "worst_ratio.romberg_poly_exact.deep" } else { "worst_ratio.romberg_poly_exact" }, r);
}

fn exact_quad5(rng: &mut Rng, rep: &mut Report) {
    let (a, b) = gen_interval(rng);
    orient(rep, a, b);
    let beyond = rng.chance(0.15); // degree 10..19: not promised by the property, recorded only
    let d = if beyond { rng.usize(10, 19) } else if rng.chance(0.4) { rng.usize(8, 9) } else { rng.usize(0, 9) };
    let mono = rng.chance(0.5);
    let p = if mono { Poly::monomial(d) } else { Poly::random(rng, d) };
    let f = |t: f64| p.eval(t);
    let regime = if beyond { "quad5:deg10..19(info)" } else if mono { "quad5:monomial:deg<=9" } else { "quad5:randpoly:deg<=9" };
    rep.case(regime);
    rep.seen(&format!("quad5:deg={}", d), 1);
    rep.distinct(Hasher::new().u(Rule::Quad5.tag()).f(a).f(b).fs(&p.c).finish(), d >= 1);
    let x = a.abs().max(b.abs());
    let r = check_exact(rep, "C07.quad5.poly_exact", regime, Rule::Quad5, &p, &f, p.absval(x), a, b, p.integral(a, b), !beyond);
    rep.note_max(if beyond { "info.worst_ratio.quad5_deg10..19" } else { "worst_ratio.quad5_poly_exact" }, r);
}

// ---------------------------------------------------------------------------------------------
// polynomials with double-double coefficients in a local variable (t = x − a, or u = x − midpoint)

/// Taylor shift: coefficients of p(a + t) in t (repeated synthetic division, double-double)
fn taylor_shift(c: &[f64], a: f64) -> Vec<Dd> {
    let mut q: Vec<Dd> = c.iter().map(|&v| Dd::new(v)).collect();
    let n = q.len();
    let da = Dd::new(a);
    for i in 0..n.saturating_sub(1) {
        for j in (i..n - 1).rev() {
            q[j] = q[j] + da * q[j + 1];
        }
    }
    q
}
/// p(t)·(t − root)
fn dmul_lin(p: &[Dd], root: f64) -> Vec<Dd> {
    let mut q = vec![Dd::ZERO; p.len() + 1];
    for (i, &c) in p.iter().enumerate() {
        q[i + 1] = q[i + 1] + c;
        q[i] = q[i] - c * Dd::new(root);
    }
    q
}
/// ∫_0^w p(t) dt
fn dint_0w(p: &[Dd], w: Dd) -> Dd {
    let mut s = Dd::ZERO;
    let mut pw = w;
    for (k, &c) in p.iter().enumerate() {
        s = s + c * pw / Dd::new(k as f64 + 1.0);
        pw = pw * w;
    }
    s
}
/// ∫_{−h}^{h} p(u) du (h may be negative: the limits are then swapped)
fn dint_sym(p: &[Dd], h: Dd) -> Dd {
    let mut s = Dd::ZERO;
    let mut pw = h;
    for (k, &c) in p.iter().enumerate() {
        if k % 2 == 0 {
            s = s + c * pw * Dd::new(2.0) / Dd::new(k as f64 + 1.0);
        }
        pw = pw * h;
    }
    s
}
impl Poly {
    /// exact ∫_a^b p in the shifted variable t = x − a: no cancellation between F(b) and F(a), so the
    /// reference stays accurate to ~2^-100·P(X)·|b−a| however narrow the interval is
    fn integral_shifted(&self, a: f64, b: f64) -> Dd {
        dint_0w(&taylor_shift(&self.c, a), Dd::sum2(b, -a))
    }
}

// ---------------------------------------------------------------------------------------------
// intervals that are narrow relative to the magnitude of their end points: |b − a| = |a|·2^-j

/// (a, b, j): |a| in [1e-2, 1e3], b = a ± |a|·2^-j (rounded), j = 10..50, either order of the limits
fn narrow_interval(rng: &mut Rng) -> (f64, f64, usize) {
    let mag = match rng.usize(0, 3) {
        0 => *rng.choose(&[1000.0, 999.0, 512.0, 250.0, 100.0, 3.0, 1.0, 0.75, 0.1]),
        1 => rng.log_range(100.0, 1e3),
        _ => rng.log_range(1e-2, 1e3),
    };
    let a = mag * if rng.bool() { 1.0 } else { -1.0 };
    let j = rng.usize(10, 50);
    let w = mag * 2f64.powi(-(j as i32));
    let mut b = if rng.bool() { a + w } else { a - w };
    if b.abs() > 1e3 {
        b = if b > a { a - w } else { a + w };
    }
    if rng.bool() {
        (a, b, j)
    } else {
        (b, a, j)
    }
}

/// exactness of the three rules on intervals of relative width 2^-10 .. 2^-50 (both orders of the limits);
/// the reference integral is evaluated in the shifted variable
fn exact_narrow(rng: &mut Rng, rep: &mut Report, which: usize) {
    let (a, b, j) = narrow_interval(rng);
    orient(rep, a, b);
    let (rule, dmax_mono, dmax_rand, regime, assertion) = match which {
        0 => (Rule::Trapz(panels(rng)), 1, 1, "trapz:narrow(w=|a|*2^-10..-50)", "C07.trapz.affine_exact"),
        1 => {
            let k = rng.usize(2, 20);
            let regime = if k <= 11 { "romberg:narrow(w=|a|*2^-10..-50):k=2..11" } else { "romberg:narrow(w=|a|*2^-10..-50):k=12..20" };
            (Rule::Romberg(k), (2 * k - 1).min(19), (2 * k - 1).min(12), regime, "C07.romberg.poly_exact")
        }
        _ => (Rule::Quad5, 9, 9, "quad5:narrow(w=|a|*2^-10..-50)", "C07.quad5.poly_exact"),
    };
    let mono = rng.bool();
    let dmax = if mono { dmax_mono } else { dmax_rand };
    let d = match rng.usize(0, 3) {
        0 => rng.usize(0, 2.min(dmax)),
        1 => dmax,
        _ => rng.usize(0, dmax),
    };
    let p = if mono { Poly::monomial(d) } else { Poly::random(rng, d) };
    let f = |t: f64| p.eval(t);
    rep.case(regime);
    rep.seen(if j < 30 { "narrow:j=10..29" } else if j < 42 { "narrow:j=30..41" } else { "narrow:j=42..50" }, 1);
    if let Rule::Romberg(k) = rule {
        rep.seen(&format!("romberg:narrow:k={}", k), 1);
        // hn drops below half an ulp of a inside the budget: new abscissae coincide with old ones
        if ((b - a).abs() / 2f64.powi(k as i32 - 1)) < 0.25 * (a.abs().next_up() - a.abs()) {
            rep.seen("romberg:narrow:abscissae-coincide", 1);
        }
    }
    rep.distinct(Hasher::new().s("narrow").u(rule.tag()).f(a).f(b).fs(&p.c).finish(), true);
    let x = a.abs().max(b.abs());
    let r = check_exact(rep, assertion, regime, rule, &p, &f, p.absval(x), a, b, p.integral_shifted(a, b), true);
    rep.note_max(&format!("worst_ratio.narrow.{}", rule.name()), r);
    rep.sample(|| json!({"rule": rule.js(), "integrand": p.js(), "a": a, "b": b, "regime": regime, "relative_width_log2": -(j as i32), "err_over_tol": jnum(r)}));
}

// ---------------------------------------------------------------------------------------------
// node-aliasing integrands: f(x) = C + s·r(u)·Π_i (u − ρ_i), u = x − midpoint, with the ρ_i the 2^L + 1
// coarsest equispaced abscissae of the interval (L = 0..4: the nodes of Romberg levels 0..L). On a
// dyadic interval every factor u − ρ_i is exact, so f takes the value C bit for bit at all those nodes:
// the L+1 coarsest trapezoid estimates and every tableau entry built from them equal C·(b−a) exactly,
// while the integral differs from C·(b−a) by s·∫ r·Π. The polynomial stays inside the rule's class.

struct Alias {
    mid: f64,
    c0: f64,
    s: f64,
    /// r(u) = Σ r_j u^j
    r: Vec<f64>,
    roots: Vec<f64>,
}
impl Alias {
    fn eval(&self, x: f64) -> f64 {
        let u = x - self.mid;
        let mut rv = 0.0;
        for &c in self.r.iter().rev() {
            rv = rv * u + c;
        }
        let mut pr = self.s * rv;
        for &q in &self.roots {
            pr *= u - q;
        }
        self.c0 + pr
    }
    /// s·r(u)·Π(u − ρ_i), without the constant
    fn wiggle(&self, u: f64) -> f64 {
        let mut rv = 0.0;
        for &c in self.r.iter().rev() {
            rv = rv * u + c;
        }
        let mut pr = self.s * rv;
        for &q in &self.roots {
            pr *= u - q;
        }
        pr
    }
    fn deg(&self) -> usize {
        self.roots.len() + self.r.len() - 1
    }
    /// exact ∫ over [mid − h, mid + h] of the non-constant part, h = (b − a)/2 signed
    fn wiggle_integral(&self, h: f64) -> Dd {
        let mut p: Vec<Dd> = self.r.iter().map(|&c| Dd::new(c) * Dd::new(self.s)).collect();
        for &q in &self.roots {
            p = dmul_lin(&p, q);
        }
        dint_sym(&p, Dd::new(h))
    }
    fn js(&self) -> Value {
        json!({"form": "C + s*r(u)*prod(u - root_i), u = x - mid", "mid": self.mid, "C": self.c0, "s": self.s, "r_low_to_high": jf(&self.r), "roots": jf(&self.roots)})
    }
}

fn alias_case(rng: &mut Rng, rep: &mut Report, quad: bool) {
    // dyadic interval: a on the 2^-6 grid in [-64, 64], width a multiple of 1/4 up to 32: every abscissa of
    // every Romberg level up to 20 is exact, and so is x − mid
    let a = rng.int(-4096, 4096) as f64 / 64.0;
    let wq = match rng.usize(0, 2) {
        0 => 1i64 << rng.usize(0, 7),
        _ => rng.int(1, 128),
    };
    let w = wq as f64 / 4.0 * if rng.chance(0.4) { -1.0 } else { 1.0 };
    let b = a + w;
    let (h, mid) = (0.5 * w, a + 0.5 * w);
    // quad5 is exact to degree 9: levels 0..2 only (2, 3, 5 nodes)
    let lev = if quad { rng.usize(0, 2) } else { *rng.choose(&[0usize, 1, 2, 2, 2, 3, 3, 4]) };
    let m = (1usize << lev) + 1;
    let roots: Vec<f64> = (0..m).map(|i| -h + i as f64 * (w / (1usize << lev) as f64)).collect();
    let dr_max = if quad { 9 - m } else { 3 };
    let dr = rng.usize(0, dr_max.min(3));
    // r(u) with small integer coefficients in u/2^e, 2^e ~ |h| (a power of two: no extra rounding)
    let e = h.abs().log2().round() as i32;
    let mut r: Vec<f64> = (0..=dr).map(|jj| rng.int(-4, 4) as f64 * 2f64.powi(-e * jj as i32)).collect();
    if r[dr] == 0.0 {
        r[dr] = 2f64.powi(-e * dr as i32);
    }
    let c0 = match rng.usize(0, 3) {
        0 => 0.0,
        1 => rng.int(-40, 40) as f64 / 8.0,
        2 => rng.int(1, 9) as f64,
        _ => rng.normal() * 10f64.powf(rng.range(-2.0, 2.0)),
    };
    // s: a power of two that brings the product term to the order 2^-2 .. 2^8
    let s = 2f64.powi(-e * m as i32 + rng.int(-2, 8) as i32) * if rng.bool() { 1.0 } else { -1.0 };
    let al = Alias { mid, c0, s, r, roots };
    let d = al.deg();
    let rule = if quad {
        Rule::Quad5
    } else {
        let kmin = (d + 2) / 2; // 2k − 1 >= d
        let k = match rng.usize(0, 9) {
            0..=5 => rng.usize(kmin, (kmin + 3).min(20)),
            6..=8 => rng.usize(kmin, 14.max(kmin)),
            _ => rng.usize(kmin, 20),
        };
        Rule::Romberg(k.max(2))
    };
    let regime: &str = if quad {
        "quad5:node-aliasing"
    } else {
        ["romberg:node-aliasing:2-nodes", "romberg:node-aliasing:3-nodes", "romberg:node-aliasing:5-nodes", "romberg:node-aliasing:9-nodes", "romberg:node-aliasing:17-nodes"][lev]
    };
    orient(rep, a, b);
    rep.case(regime);
    if let Rule::Romberg(k) = rule {
        rep.seen(&format!("romberg:alias:k={}", k), 1);
    }
    // the construction really aliases: f = C bit for bit at the m nodes a + i·(b−a)/2^lev
    let step = w / (1usize << lev) as f64;
    let aliased = (0..m).all(|i| al.eval(a + i as f64 * step).to_bits() == c0.to_bits() || (c0 == 0.0 && al.eval(a + i as f64 * step) == 0.0));
    if !aliased {
        rep.inconclusive(format!("node-aliasing generator: integrand does not take the value C at the nodes (a={}, b={}, lev={})", a, b, lev));
        return;
    }
    // sup of the non-constant part over the interval (sampled 32 times per node spacing, +50 %)
    let ns = 32 * (m - 1).max(1) * 2;
    let mut sup = 0.0f64;
    for i in 0..=ns {
        sup = sup.max(al.wiggle(-h + w * i as f64 / ns as f64).abs());
    }
    sup *= 1.5;
    let wi = al.wiggle_integral(h);
    let integral = Dd::prod(c0, w) + wi;
    let f = |t: f64| al.eval(t);
    let xmax = a.abs().max(b.abs());
    // evaluation error of the product form: relative (d+2)u per value; quad5's abscissae are rounded
    // (u·X each), which moves f by at most |f'|·u·X <= d²/|h|·sup·u·X (Markov); Romberg's are exact here
    let node_term = if quad { 8.0 * U * xmax * (d * d) as f64 * sup / h.abs() } else { 0.0 };
    let tol = w.abs() * ((c0.abs() + sup) * (32.0 * gamma_n(rule.evals() + 4) + 16.0 * (d as f64 + 2.0) * U) + node_term) + 1e-300;
    let powered = wi.f().abs() > 1e3 * tol;
    rep.seen(if powered { "alias:integral-differs-from-C(b-a)" } else { "alias:integral-indistinguishable(low-power)" }, 1);
    rep.distinct(Hasher::new().s("alias").u(rule.tag()).f(a).f(b).f(c0).f(s).fs(&al.r).u(lev as u64).finish(), powered);
    let np = format!("C07.{}.no_panic", rule.name());
    let assertion = format!("C07.{}.poly_exact", rule.name());
    match apply(rule, &f, a, b) {
        Err(msg) => {
            rep.check(&np, regime, false, || ctx(rule, al.js(), a, b, json!({"panic": msg})));
        }
        Ok(q) => {
            rep.check(&np, regime, true, || json!(null));
            let err = (Dd::new(q) - integral).f().abs();
            rep.note_max(if quad { "worst_ratio.alias.quad5" } else { "worst_ratio.alias.romberg" }, if err.is_nan() { f64::INFINITY } else { err / tol });
            rep.check(&assertion, regime, err <= tol, || {
                ctx(rule, al.js(), a, b, json!({"observed": jnum(q), "expected": integral.f(), "C*(b-a)": c0 * w, "integral_of_non_constant_part": wi.f(), "abs_err": jnum(err), "tol": tol, "degree": d, "nodes_with_f=C": m}))
            });
        }
    }
    rep.sample(|| json!({"rule": rule.js(), "integrand": al.js(), "a": a, "b": b, "regime": regime, "integral": integral.f()}));
}

fn pick_rule(rng: &mut Rng, which: usize) -> Rule {
    match which {
        0 => Rule::Trapz(panels(rng)),
        1 => Rule::Romberg(if rng.chance(0.8) { rng.usize(2, 9) } else { rng.usize(10, 14) }),
        _ => Rule::Quad5,
    }
}

/// Q(αf+βg) = αQf + βQg
fn linearity(rng: &mut Rng, rep: &mut Report, which: usize, cat: &[Smooth]) {
    let rule = pick_rule(rng, which);
    let bounded: Vec<&Smooth> = cat.iter().filter(|s| s.dom.0 <= -50.0 && s.dom.1 >= 50.0).collect();
    let (a, b) = {
        let (a, b) = gen_interval(rng);
        (a.clamp(-50.0, 50.0), b.clamp(-50.0, 50.0))
    };
    let (a, b) = if a == b { (a, a + 1.0) } else { (a, b) };
    orient(rep, a, b);
    let p1 = Poly::random_deg(rng, 0, 5);
    let p2 = Poly::random_deg(rng, 0, 5);
    let s2 = *rng.choose(&bounded);
    let use_smooth = rng.chance(0.5);
    let f = |t: f64| p1.eval(t);
    let g = |t: f64| if use_smooth { (s2.f)(t) } else { p2.eval(t) };
    let (al, be) = (rng.normal() * 10f64.powf(rng.range(-1.0, 1.0)), rng.normal() * 10f64.powf(rng.range(-1.0, 1.0)));
    let h = |t: f64| al * f(t) + be * g(t);
    let regime = rule.name();
    rep.case(&format!("{}:linearity", regime));
    rep.distinct(Hasher::new().s("lin").u(rule.tag()).f(a).f(b).fs(&p1.c).f(al).f(be).finish(), true);
    let assertion = format!("C07.{}.linearity", rule.name());
    let desc = json!({"f": p1.js(), "g": if use_smooth { json!(s2.name) } else { p2.js() }, "alpha": al, "beta": be});
    let r = (apply_probed(rule, &f, a, b), apply_probed(rule, &g, a, b), apply_probed(rule, &h, a, b));
    match r {
        (Ok((qf, _, mf)), Ok((qg, _, mg)), Ok((qh, _, _))) => {
            // node perturbation does not enter: the three calls use bit-identical nodes
            let tol = 32.0 * gamma_n(rule.evals() + 4) * (b - a).abs() * (al.abs() * mf + be.abs() * mg) + 1e-300;
            let err = (Dd::new(qh) - (Dd::prod(al, qf) + Dd::prod(be, qg))).f().abs();
            rep.note_max(&format!("worst_ratio.linearity.{}", rule.name()), err / tol);
            rep.check(&assertion, regime, err <= tol, || ctx(rule, desc.clone(), a, b, json!({"Q(f)": qf, "Q(g)": qg, "Q(alpha f + beta g)": qh, "abs_err": jnum(err), "tol": tol})));
        }
        (x, y, z) => {
            let msg = [x.err(), y.err(), z.err()].iter().flatten().next().cloned().unwrap_or_default();
            rep.check(&format!("C07.{}.no_panic", rule.name()), &format!("{}:linearity", regime), false, || ctx(rule, desc.clone(), a, b, json!({"panic": msg})));
        }
    }
}

/// Q(a,b) = −Q(b,a)
fn antisymmetry(rng: &mut Rng, rep: &mut Report, which: usize, cat: &[Smooth]) {
    let rule0 = pick_rule(rng, which);
    let kind = rng.usize(0, 3);
    // kind 0: even polynomial about the midpoint on a dyadic interval (f(a) = f(b) bitwise)
    // kind 1: random polynomial, any interval; kind 2: monomial; kind 3: smooth entry on a dyadic interval, dyadic rule
    let (rule, a, b, desc, f, tol_rel): (Rule, f64, f64, Value, Box<dyn Fn(f64) -> f64>, f64) = match kind {
        0 => {
            let (a, b) = dyadic_interval(rng, -64.0, 64.0, 128.0);
            let m = 0.5 * (a + b);
            let (c0, c2) = (rng.normal() * 3.0, if rng.chance(0.2) { 0.0 } else { rng.normal() });
            let x = 2.0 * a.abs().max(b.abs());
            let pabs = c0.abs() + c2.abs() * x * x;
            (rule0, a, b, json!({"even_about_midpoint": {"c0": c0, "c2": c2, "m": m}}), Box::new(move |t: f64| c0 + c2 * (t - m) * (t - m)), pabs * (64.0 * gamma_n(rule0.evals() + 4) + 32.0 * 3.0 * U))
        }
        1 | 2 => {
            let (a, b) = gen_interval(rng);
            let p = if kind == 1 { Poly::random_deg(rng, 0, 5) } else { Poly::monomial(rng.usize(0, 7)) };
            let pabs = p.absval(a.abs().max(b.abs()));
            let d = p.deg();
            (rule0, a, b, p.js(), Box::new(move |t: f64| p.eval(t)), pabs * (64.0 * gamma_n(rule0.evals() + 4) + 32.0 * (d as f64 + 1.0) * U))
        }
        _ => {
            let s = rng.choose(cat);
            let (a, b) = smooth_interval(rng, s, 16.0, true);
            let rule = match rule0 {
                Rule::Trapz(_) => Rule::Trapz(1 << rng.usize(0, 12)),
                r => r,
            };
            let fp = s.f;
            // nodes are exact dyadic numbers in both directions: only the summation order differs;
            // max|f| is measured at the nodes below
            (rule, a, b, json!(s.name), Box::new(move |t: f64| fp(t)), -1.0)
        }
    };
    orient(rep, a, b);
    let fa = f(a);
    let fb = f(b);
    let regime = match rule {
        Rule::Trapz(_) => (if fa == fb { "trapz:f(a)=f(b)" } else { "trapz:f(a)!=f(b)" }).to_string(),
        r => r.name().to_string(),
    };
    rep.case(&format!("{}:antisymmetry", regime));
    rep.distinct(Hasher::new().s("anti").u(rule.tag()).f(a).f(b).f(fa).f(fb).finish(), true);
    let assertion = format!("C07.{}.antisymmetry", rule.name());
    match (apply_probed(rule, &*f, a, b), apply_probed(rule, &*f, b, a)) {
        (Ok((q1, _, m1)), Ok((q2, _, m2))) => {
            let tol = (b - a).abs() * if tol_rel >= 0.0 { tol_rel } else { 64.0 * gamma_n(rule.evals() + 4) * m1.max(m2) } + 1e-300;
            let err = (q1 + q2).abs();
            let key = if regime == "trapz:f(a)!=f(b)" { "observed_worst_ratio.antisymmetry.trapz:f(a)!=f(b)".to_string() } else { format!("worst_ratio.antisymmetry.{}", regime) };
            rep.note_max(&key, if err.is_nan() { f64::INFINITY } else { err / tol });
            rep.check(&assertion, &regime, err <= tol, || ctx(rule, desc.clone(), a, b, json!({"Q(a,b)": jnum(q1), "Q(b,a)": jnum(q2), "sum": jnum(q1 + q2), "tol": tol, "f(a)": jnum(fa), "f(b)": jnum(fb)})));
        }
        (x, y) => {
            let msg = x.err().or(y.err()).unwrap_or_default();
            rep.check(&format!("C07.{}.no_panic", rule.name()), &format!("{}:antisymmetry", regime), false, || ctx(rule, desc.clone(), a, b, json!({"panic": msg})));
        }
    }
}

/// Q(a,a) = 0
fn zero_width(rng: &mut Rng, rep: &mut Report, cat: &[Smooth]) {
    let s = rng.choose(cat);
    let a = (s.dom.0 + (s.dom.1 - s.dom.0) * rng.f64()).clamp(-1e3, 1e3);
    let p = Poly::random_deg(rng, 0, 9);
    let usep = rng.bool();
    let fp = s.f;
    let f = |t: f64| if usep { p.eval(t) } else { fp(t) };
    let desc = if usep { p.js() } else { json!(s.name) };
    orient(rep, a, a);
    let n = panels(rng);
    for (name, r) in [
        ("trapz", guard(|| trapz(&f, a, a, n))),
        ("romberg", guard(|| romberg(&f, a, a, 0.0, 6))),
        ("romberg", guard(|| romberg(&f, a, a, 1e-8, 6))),
        ("quad5", guard(|| quad5(&f, a, a))),
    ] {
        rep.case("a=b");
        let ok = matches!(&r, Ok(v) if *v == 0.0);
        rep.check(&format!("C07.{}.zero_width", name), "a=b", ok, || json!({"integrand": desc.clone(), "a": a, "b": a, "observed": match &r { Ok(v) => jnum(*v), Err(e) => json!({"panic": e}) }, "expected": 0.0}));
    }
    rep.distinct(Hasher::new().s("zero").f(a).fs(&p.c).finish(), false);
}

/// trapezoid error bound on the smooth catalogue
fn smooth_trapz(rng: &mut Rng, rep: &mut Report, cat: &[Smooth]) {
    let s = rng.choose(cat);
    let (a, b) = smooth_interval(rng, s, 60.0, false);
    orient(rep, a, b);
    let n = panels(rng);
    let rule = Rule::Trapz(n);
    let rooted = rng.chance(0.4); // integrand shifted to vanish at the lower limit: g = f − f(a)
    let fp = s.f;
    let fa0 = fp(a);
    let shift = if rooted { fa0 } else { 0.0 };
    let f = |t: f64| fp(t) - shift;
    let regime = if f(a) == 0.0 { "trapz:smooth:f(a)=0" } else { "trapz:smooth:f(a)!=0" };
    rep.case(regime);
    rep.seen(&format!("smooth:{}", s.name), 1);
    rep.distinct(Hasher::new().s("st").s(s.name).u(n as u64).f(a).f(b).u(rooted as u64).finish(), true);
    let (i0, iallow) = smooth_integral(s, a, b);
    let integral = Dd::new(i0) - Dd::new(shift) * Dd::sum2(b, -a);
    let (lo, hi) = (a.min(b), a.max(b));
    let m2 = (s.m2)(lo, hi);
    let w = (b - a).abs();
    let h = w / n as f64;
    let desc = json!({"f": s.name, "minus_constant": shift});
    match apply_probed(rule, &f, a, b) {
        Err(msg) => {
            rep.check("C07.trapz.no_panic", regime, false, || ctx(rule, desc.clone(), a, b, json!({"panic": msg})));
        }
        Ok((q, nev, m0)) => {
            let x = lo.abs().max(hi.abs());
            let rounding = 32.0 * gamma_n(nev as usize + 4) * w * m0 + 8.0 * U * x * (2.0 * m0 + m2 * w * w) + iallow + 4.0 * U * shift.abs() * w;
            let bound = w * h * h / 12.0 * m2 * (1.0 + 1e-9) + rounding + 1e-300;
            let err = (Dd::new(q) - integral).f().abs();
            let ratio = if err.is_nan() { f64::INFINITY } else { err / bound };
            rep.note_max(if regime.ends_with("f(a)=0") { "worst_ratio.trapz_error_bound.f(a)=0" } else { "observed_worst_ratio.trapz_error_bound.f(a)!=0" }, ratio);
            rep.check("C07.trapz.error_bound", regime, err <= bound, || {
                ctx(rule, desc.clone(), a, b, json!({"observed": jnum(q), "integral": integral.f(), "abs_err": jnum(err), "bound": bound, "h": h, "max_f2": m2, "f(a)": jnum(f(a)), "h*f(a)": jnum(h * f(a))}))
            });
        }
    }
}

/// Romberg with a requested tolerance on the smooth catalogue
fn smooth_romberg(rng: &mut Rng, rep: &mut Report, cat: &[Smooth], max_levels: usize) {
    let mut s = rng.choose(cat);
    let (mut a, mut b) = smooth_interval(rng, s, s.rlen, false);
    let mut nmax = if rng.chance(0.75) { rng.usize(2, 14.min(max_levels)) } else { rng.usize(2, max_levels) };
    if rng.chance(0.08) {
        // aliasing intervals: the integrand (nearly) vanishes or repeats at a, the midpoint and b, so the two
        // coarsest estimates agree although both are wrong — the reason the stopping rule waits for
        // level 2; on the last one levels 0..2 all alias (method limitation, regime criterion-fooled)
        const ALIAS: [(&str, f64, f64); 6] = [("sin^2 x cos^2 x", 0.0, PI), ("sin^2 x cos^2 x", -FRAC_PI_2, FRAC_PI_2), ("x sin x", 0.0, 2.0 * PI), ("x sin x", -2.0 * PI, 0.0), ("cos x", 0.0, 4.0 * PI), ("sin^2 x cos^2 x", 0.0, 2.0 * PI)];
        let (name, x0, x1) = *rng.choose(&ALIAS);
        s = cat.iter().find(|e| e.name == name).unwrap();
        a = x0;
        b = x1;
        if rng.chance(0.3) {
            std::mem::swap(&mut a, &mut b);
        }
        nmax = rng.usize(8, 14.min(max_levels));
        rep.seen("romberg:smooth:aliasing-interval", 1);
    }
    orient(rep, a, b);
    let tau = 10f64.powi(-(rng.usize(3, 12) as i32));
    let fp = s.f;
    let f = |t: f64| fp(t);
    let (i0, iallow) = smooth_integral(s, a, b);
    let desc = json!({"f": s.name, "eps": tau, "nmax": nmax});
    rep.seen(&format!("romberg:nmax={}", nmax), 1);
    rep.seen(&format!("romberg:tau=1e{}", tau.log10().round() as i32), 1);
    rep.distinct(Hasher::new().s("sr").s(s.name).u(nmax as u64).f(tau).f(a).f(b).finish(), true);
    judge_romberg(rep, &f, a, b, tau, nmax, i0, iallow, desc, "romberg:smooth");
}

/// Romberg with a requested tolerance `tau` and level budget `nmax` on an integrand with known integral `i0`
/// (rounding allowance `iallow`): the tolerance-order bound is asserted when the exact-arithmetic method
/// (reference tableau in double-double) converges within the budget and its criterion is not fooled.
/// Regimes `<family>:budget-suffices`, `<family>:criterion-fooled`, `<family>:undecided(...)`.
fn judge_romberg(rep: &mut Report, f: &dyn Fn(f64) -> f64, a: f64, b: f64, tau: f64, nmax: usize, i0: f64, iallow: f64, desc: Value, family: &str) {
    let scale = i0.abs().max(1.0);
    let p = Probe::new();
    let got = guard(|| romberg(|t| p.hit(f(t)), a, b, tau, nmax));
    let q = match got {
        Err(msg) => {
            rep.case(&format!("{}:panic", family));
            rep.check("C07.romberg.no_panic", family, false, || json!({"integrand": desc.clone(), "a": a, "b": b, "panic": msg}));
            return;
        }
        Ok(q) => q,
    };
    let w = (b - a).abs();
    let m0 = p.m.get();
    // rounding noise of a level-n diagonal entry (2^n + 1 integrand values enter it)
    let noise = |n: usize| 32.0 * gamma_n((1usize << n) + 5) * w * m0 + iallow;
    // what could the exact-arithmetic method have done within this level budget?
    let mut tab = RefTab::new(f, a, b);
    let mut candidates: Vec<usize> = Vec::new();
    let mut sure: Option<usize> = None;
    for n in 2..nmax {
        let (d1, d0) = (tab.diag(n), tab.diag(n - 1));
        if stop_crit(d1, d0, 4.0 * tau + 2.0 * noise(n)) {
            candidates.push(n);
        }
        // the library certainly stops here: the reference meets the criterion at eps/2 and the
        // rounding noise of the library's own entries cannot push its difference above eps
        if stop_crit(d1, d0, 0.5 * tau) && noise(n) <= tau / 8.0 * d1.abs().min(d0.abs()).max(1.0) {
            sure = Some(n);
            break;
        }
    }
    let regime;
    match sure {
        None => {
            regime = format!("{}:undecided(budget-short-or-rounding-limited)", family);
            rep.case(&regime);
            // nothing is promised when the budget runs out; the value must at least be finite
            rep.check("C07.romberg.finite", &regime, q.is_finite(), || json!({"integrand": desc.clone(), "a": a, "b": b, "observed": jnum(q)}));
        }
        Some(ns) => {
            let genuine = candidates.iter().all(|&m| (tab.diag(m) - i0).abs() <= 10.0 * tau * scale + noise(m));
            if !genuine {
                regime = format!("{}:criterion-fooled", family);
                rep.case(&regime);
                rep.check("C07.romberg.finite", &regime, q.is_finite(), || json!({"integrand": desc.clone(), "a": a, "b": b, "observed": jnum(q)}));
            } else {
                regime = format!("{}:budget-suffices", family);
                rep.case(&regime);
                let tol = 100.0 * tau * scale + noise(ns);
                let err = (q - i0).abs();
                rep.note_max("worst_ratio.romberg_tolerance_order", if err.is_nan() { f64::INFINITY } else { err / tol });
                rep.note_max("worst_err_over_tau.romberg", if err.is_nan() { f64::INFINITY } else { (err - noise(ns)).max(0.0) / (tau * scale) });
                rep.check("C07.romberg.tolerance_order", &regime, err <= tol, || {
                    json!({"integrand": desc.clone(), "a": a, "b": b, "observed": jnum(q), "integral": i0, "abs_err": jnum(err), "tol": tol, "reference_stop_levels": candidates.clone(), "evaluations": p.n.get()})
                });
            }
        }
    }
    rep.sample(|| json!({"rule": "romberg", "integrand": desc.clone(), "a": a, "b": b, "observed": jnum(q), "integral": i0, "regime": regime}));
}

/// trapezoid(y, x | dx) = Σ (y_i + y_{i−1})/2 · Δx_i
fn samples(rng: &mut Rng, rep: &mut Report, maxlen: usize) {
    let n = match rng.usize(0, 3) {
        0 => rng.usize(2, 9),
        _ => rng.log_range(2.0, maxlen as f64 + 0.99).floor() as usize,
    };
    let n = n.clamp(2, maxlen);
    let ys = 10f64.powf(rng.range(-3.0, 3.0));
    let off = if rng.chance(0.3) { rng.normal() * 100.0 * ys } else { 0.0 };
    let y: Vec<f64> = (0..n).map(|_| off + rng.normal() * ys).collect();
    let kind = rng.usize(0, 3);
    let (regime, xs, dx): (&str, Option<Vec<f64>>, Option<f64>) = match kind {
        0 => {
            let (x0, h) = (rng.range(-1e3, 1e3), rng.log_range(1e-3, 10.0));
            ("samples:x-uniform", Some((0..n).map(|i| x0 + i as f64 * h).collect()), None)
        }
        1 => {
            let (mut c, sc) = (rng.range(-1e3, 1e3), rng.log_range(1e-3, 10.0));
            let r = *rng.choose(&[10.0, 1e3, 1e6]);
            let mut v = Vec::with_capacity(n);
            for _ in 0..n {
                v.push(c);
                c += sc * rng.log_range(1.0, r);
            }
            ("samples:x-nonuniform", Some(v), None)
        }
        2 => ("samples:dx", None, Some(rng.log_range(1e-3, 10.0) * if rng.chance(0.1) { -1.0 } else { 1.0 })),
        _ => ("samples:default-dx", None, None),
    };
    rep.case(regime);
    rep.seen(if n <= 9 { "samples:len=2..9" } else if n <= 1000 { "samples:len=10..1000" } else { "samples:len>1000" }, 1);
    let mut h = Hasher::new().s(regime).fs(&y);
    if let Some(x) = &xs {
        h = h.fs(x);
    }
    rep.distinct(h.f(dx.unwrap_or(0.0)).finish(), n >= 3);
    let mut sref = Dd::ZERO;
    let mut sabs = 0.0;
    for i in 1..n {
        let d = match &xs {
            Some(x) => Dd::sum2(x[i], -x[i - 1]),
            None => Dd::new(dx.unwrap_or(1.0)),
        };
        let t = Dd::sum2(y[i], y[i - 1]) * Dd::new(0.5) * d;
        sref = sref + t;
        sabs += t.f().abs();
    }
    let got = guard(|| trapezoid(&y, xs.as_deref(), dx));
    let detail = |obs: Value, extra: Value| json!({"y": jf(&y), "x": xs.as_ref().map(|x| jf(x)), "dx": dx, "n": n, "observed": obs, "expected": sref.f(), "detail": extra});
    match got {
        Err(msg) => {
            rep.check("C07.trapezoid.no_panic", regime, false, || detail(json!({"panic": msg}), json!(null)));
        }
        Ok(q) => {
            rep.check("C07.trapezoid.no_panic", regime, true, || json!(null));
            let tol = 8.0 * gamma_n(n + 3) * sabs + 1e-300;
            let err = (Dd::new(q) - sref).f().abs();
            rep.note_max("worst_ratio.trapezoid_samples", if err.is_nan() { f64::INFINITY } else { err / tol });
            rep.check("C07.trapezoid.samples", regime, err <= tol, || detail(jnum(q), json!({"abs_err": jnum(err), "tol": tol})));
        }
    }
}

// ---------------------------------------------------------------------------------------------
// sampled rule on degenerate and special grids
//
// The quantifier contains a = b (spacing exactly ±0, all abscissae equal), a > b (negative spacing,
// decreasing abscissae) and intervals of any width inside ±1e3 (spacings down to the subnormal range);
// tabulated data with jumps repeat an abscissa (zero-width panels). The reference is the same
// Σ (y_i+y_{i−1})/2·Δx_i in double-double, evaluated with all widths multiplied by 2^k (k = minus the
// binary exponent of the largest width) so that it neither underflows nor overflows; the observed value
// is multiplied by the same power of two (exact) before the comparison.

/// floor(log2 |x|) for finite non-zero x (subnormals included)
fn ilog2(x: f64) -> i32 {
    let m = x.abs();
    if m < f64::MIN_POSITIVE {
        return ilog2(m * 2f64.powi(200)) - 200;
    }
    ((m.to_bits() >> 52) & 0x7ff) as i32 - 1023
}
/// x·2^k in steps (exact unless the result itself leaves the normal range)
fn scale2(mut x: f64, mut k: i32) -> f64 {
    while k > 0 {
        let s = k.min(900);
        x *= 2f64.powi(s);
        k -= s;
    }
    while k < 0 {
        let s = (-k).min(900);
        x *= 2f64.powi(-s);
        k += s;
    }
    x
}
/// v rounded to 30 significant bits (so that small integer multiples of it are exact)
fn quant30(v: f64) -> f64 {
    if v == 0.0 || !v.is_finite() {
        return v;
    }
    let e = ilog2(v);
    scale2(scale2(v, 29 - e).round(), e - 29)
}

struct SRef {
    k: i32,
    n: usize,
    /// reference integral × 2^k
    sref: Dd,
    /// Σ |terms| × 2^k
    sabs: f64,
}
impl SRef {
    fn new(y: &[f64], xs: Option<&[f64]>, dx: Option<f64>) -> SRef {
        let n = y.len();
        let w: Vec<Dd> = (1..n)
            .map(|i| match xs {
                Some(x) => Dd::sum2(x[i], -x[i - 1]),
                None => Dd::new(dx.unwrap_or(1.0)),
            })
            .collect();
        let wmax = w.iter().fold(0.0f64, |m, d| m.max(d.hi.abs()));
        let k = if wmax > 0.0 && wmax.is_finite() { -ilog2(wmax) } else { 0 };
        let mut sref = Dd::ZERO;
        let mut sabs = 0.0;
        for i in 1..n {
            let d = Dd { hi: scale2(w[i - 1].hi, k), lo: scale2(w[i - 1].lo, k) };
            let t = Dd::sum2(y[i], y[i - 1]) * Dd::new(0.5) * d;
            sref = sref + t;
            sabs += t.f().abs();
        }
        SRef { k, n, sref, sabs }
    }
    /// rounding allowance × 2^k: the usual 8γ_{n+3}·Σ|terms| plus 8 units of the subnormal grid per panel
    /// (a product that falls into the subnormal range is rounded to within half a unit)
    fn tol(&self) -> f64 {
        8.0 * gamma_n(self.n + 3) * self.sabs + scale2(8.0 * self.n as f64, self.k - 1074) + 1e-300
    }
    /// |q − reference| × 2^k (infinite for NaN)
    fn err(&self, q: f64) -> f64 {
        let e = (Dd::new(scale2(q, self.k)) - self.sref).f().abs();
        if e.is_nan() {
            f64::INFINITY
        } else {
            e
        }
    }
    fn expected(&self) -> f64 {
        scale2(self.sref.f(), -self.k)
    }
}

/// sample values: generic, constant, small integers (exact zeros), one-signed, with signed zeros
fn special_y(rng: &mut Rng, n: usize) -> Vec<f64> {
    let ys = 10f64.powf(rng.range(-3.0, 3.0));
    match rng.usize(0, 5) {
        0 | 1 => (0..n).map(|_| rng.normal() * ys).collect(),
        2 => {
            let c = if rng.bool() { 1.0 } else { rng.normal() * ys };
            vec![if c == 0.0 { 1.0 } else { c }; n]
        }
        3 => (0..n).map(|_| rng.int(-9, 9) as f64).collect(),
        4 => (0..n).map(|_| (0.5 + rng.f64()) * ys).collect(),
        _ => (0..n).map(|_| if rng.chance(0.3) { if rng.bool() { 0.0 } else { -0.0 } } else { rng.normal() * ys }).collect(),
    }
}
fn special_len(rng: &mut Rng, maxlen: usize) -> usize {
    let n = match rng.usize(0, 3) {
        0 => rng.usize(2, 9),
        1 => *rng.choose(&[2usize, 3, 4, 5, 8, 9, 16, 17, 32, 33, 64, 65, 128, 129]),
        _ => rng.log_range(2.0, 2000.99).floor() as usize,
    };
    n.clamp(2, maxlen.max(2))
}

/// one sampled-rule call against the reference; returns (value, reference) when the call returned
fn sampled_call(rep: &mut Report, regime: &str, y: &[f64], xs: Option<&[f64]>, dx: Option<f64>) -> Option<(f64, SRef)> {
    let r = SRef::new(y, xs, dx);
    let detail = |obs: Value, extra: Value| json!({"y": jf(y), "x": xs.map(jf), "dx": dx.map(jnum), "n": y.len(), "observed": obs, "expected": jnum(r.expected()), "detail": extra});
    match guard(|| trapezoid(y, xs, dx)) {
        Err(msg) => {
            rep.check("C07.trapezoid.no_panic", regime, false, || detail(json!({"panic": msg}), json!(null)));
            None
        }
        Ok(q) => {
            rep.check("C07.trapezoid.no_panic", regime, true, || json!(null));
            let (err, tol) = (r.err(q), r.tol());
            rep.note_max("worst_ratio.trapezoid_samples.special_grids", err / tol);
            rep.check("C07.trapezoid.samples", regime, err <= tol, || detail(jnum(q), json!({"abs_err_scaled": jnum(err), "tol_scaled": tol, "scaled_by_2^k": r.k})));
            Some((q, r))
        }
    }
}
/// a second call whose exact value is `sign`·(the first one's): compared on the first call's scale
fn sampled_relation(rep: &mut Report, assertion: &str, regime: &str, what: &str, first: (f64, &SRef), sign: f64, y: &[f64], xs: Option<&[f64]>, dx: Option<f64>) {
    let (q, r) = first;
    match guard(|| trapezoid(y, xs, dx)) {
        Err(msg) => {
            rep.check("C07.trapezoid.no_panic", regime, false, || json!({"relation": what, "y": jf(y), "x": xs.map(jf), "dx": dx.map(jnum), "panic": msg}));
        }
        Ok(q2) => {
            let e = (Dd::new(scale2(q2, r.k)) - Dd::new(scale2(sign * q, r.k))).f().abs();
            let e = if e.is_nan() { f64::INFINITY } else { e };
            let tol = 2.0 * r.tol();
            rep.note_max(&format!("worst_ratio.{}", assertion), e / tol);
            rep.check(assertion, regime, e <= tol, || json!({"relation": what, "y": jf(y), "x": xs.map(jf), "dx": dx.map(jnum), "n": y.len(), "first_call": jnum(q), "second_call": jnum(q2), "expected_second_call": jnum(sign * q), "exact_integral_first_call": jnum(r.expected()), "tol_scaled": tol, "scaled_by_2^k": r.k}));
        }
    }
}

const DX_CLASSES: [&str; 9] = [
    "samples:dx=+0(a=b)",
    "samples:dx=-0(a=b)",
    "samples:dx=+-1",
    "samples:dx<0",
    "samples:dx=power-of-two",
    "samples:dx-tiny(2^-1000..2^-500)",
    "samples:dx-subnormal",
    "samples:dx-huge(2^100..2^500)",
    "samples:dx=None-vs-unit-spacing",
];

/// spacing form on special spacings: reference value, oddness in dx, agreement with the abscissa form on
/// the same (exactly representable) grid x_i = (j0 + i)·dx
fn samples_special_dx(rng: &mut Rng, rep: &mut Report, maxlen: usize, class: usize) {
    let regime = DX_CLASSES[class];
    let n = special_len(rng, maxlen);
    let y = special_y(rng, n);
    let sgn = if rng.bool() { 1.0 } else { -1.0 };
    let dx: Option<f64> = match class {
        0 => Some(0.0),
        1 => Some(-0.0),
        2 => Some(sgn),
        3 => Some(-quant30(rng.log_range(1e-3, 10.0))),
        4 => Some(sgn * 2f64.powi(rng.int(-40, 10) as i32)),
        5 => Some(sgn * quant30(scale2(1.0 + rng.f64(), -(rng.int(500, 1000) as i32)))),
        6 => Some(sgn * f64::from_bits(if rng.chance(0.3) { 1u64 << rng.usize(0, 51) } else { rng.int(1, (1 << 22) - 1) as u64 })),
        7 => Some(sgn * quant30(scale2(1.0 + rng.f64(), rng.int(100, 500) as i32))),
        _ => None,
    };
    rep.case(regime);
    rep.seen(if n <= 9 { "samples:len=2..9" } else if n <= 1000 { "samples:len=10..1000" } else { "samples:len>1000" }, 1);
    rep.distinct(Hasher::new().s(regime).fs(&y).f(dx.unwrap_or(7.0)).finish(), n >= 3 && y.iter().any(|v| *v != 0.0));
    let Some((q, r)) = sampled_call(rep, regime, &y, None, dx) else { return };
    let step = dx.unwrap_or(1.0);
    // I(−dx) = −I(dx)
    sampled_relation(rep, "C07.trapezoid.odd_in_dx", regime, "trapezoid(y, None, -dx) = -trapezoid(y, None, dx)", (q, &r), -1.0, &y, None, Some(-step));
    if dx.is_none() {
        sampled_relation(rep, "C07.trapezoid.default_is_unit_spacing", regime, "trapezoid(y, None, None) = trapezoid(y, None, 1.0)", (q, &r), 1.0, &y, None, Some(1.0));
    }
    // the abscissa form on the same grid (every x_i exact: dx has <= 30 significant bits, |j0 + i| < 2^21)
    let xs: Vec<f64> = if step == 0.0 {
        let rv = rng.range(-1e3, 1e3);
        let c = *rng.choose(&[0.0, -0.0, 1.0, -1000.0, 1000.0, rv]);
        vec![c; n]
    } else {
        let j0 = match rng.usize(0, 2) {
            0 => 0,
            1 => -(rng.int(0, n as i64 - 1)),
            _ => rng.int(-(1 << 20), 1 << 20),
        };
        (0..n as i64).map(|i| (j0 + i) as f64 * step).collect()
    };
    let exact_grid = (1..n).all(|i| xs[i] - xs[i - 1] == step);
    if exact_grid {
        rep.seen("samples:dx-form-vs-abscissa-form", 1);
        sampled_relation(rep, "C07.trapezoid.dx_form_equals_abscissa_form", regime, "trapezoid(y, x, None) with x_i = (j0+i)*dx equals trapezoid(y, None, dx)", (q, &r), 1.0, &y, Some(&xs), None);
        // and the abscissa form against its own reference
        let _ = sampled_call(rep, regime, &y, Some(&xs), None);
    } else {
        rep.inconclusive(format!("special-dx generator: grid (j0+i)*dx is not exact for dx = {:e}", step));
    }
    rep.sample(|| json!({"rule": "trapezoid(samples)", "regime": regime, "n": n, "dx": dx.map(jnum), "observed": jnum(q), "expected": jnum(r.expected())}));
}

const X_CLASSES: [&str; 5] = [
    "samples:x-all-equal(a=b)",
    "samples:x-repeated(zero-width-panels)",
    "samples:x-decreasing(a>b)",
    "samples:x-contains-signed-zero",
    "samples:x-tiny-or-subnormal-scale",
];

/// abscissa form on special grids: reference value, reversal antisymmetry, invariance under duplicating a
/// sample (a zero-width panel)
fn samples_special_x(rng: &mut Rng, rep: &mut Report, maxlen: usize, class: usize) {
    let regime = X_CLASSES[class];
    let n = special_len(rng, maxlen);
    let y = special_y(rng, n);
    // strictly increasing dyadic grid (multiples of 2^-10 inside ±1e3) with spacing ratios up to 2^12
    let increasing = |rng: &mut Rng, m: usize| -> Vec<f64> {
        let big = if rng.bool() { 1i64 } else { 1 << rng.usize(0, 12) };
        let mut steps: Vec<i64> = (0..m).map(|_| if rng.chance(0.5) { 1 } else { rng.int(1, big.max(1)) }).collect();
        let total: i64 = steps.iter().sum();
        let room = 2_000i64 << 10;
        if total > room {
            for s in steps.iter_mut() {
                *s = 1;
            }
        }
        let total: i64 = steps.iter().sum();
        let start = rng.int(-(1000i64 << 10), (1000i64 << 10) - total);
        let mut c = start;
        steps
            .iter()
            .map(|s| {
                let v = c as f64 / 1024.0;
                c += s;
                v
            })
            .collect()
    };
    let xs: Vec<f64> = match class {
        0 => {
            let (rv, rs) = (rng.range(-1e3, 1e3), rng.range(-1.0, 1.0));
            let c = *rng.choose(&[0.0, -0.0, 1.0, -1.0, 1000.0, -1000.0, rv, rs]);
            vec![c; n]
        }
        1 => {
            // every abscissa repeated 1..3 times (at least one repeat)
            let mut v = Vec::with_capacity(n);
            let base = increasing(rng, n);
            let mut j = 0;
            while v.len() < n {
                let r = if v.is_empty() { 2 } else { *rng.choose(&[1usize, 1, 2, 3]) };
                for _ in 0..r.min(n - v.len()) {
                    v.push(base[j]);
                }
                j += 1;
            }
            v
        }
        2 => {
            let mut v = increasing(rng, n);
            v.reverse();
            v
        }
        3 => {
            // a grid through 0 whose zero entry is +0.0, −0.0, or the pair (−0.0, +0.0) / (+0.0, −0.0)
            let h = quant30(rng.log_range(1e-3, 2.0)) * if rng.chance(0.25) { -1.0 } else { 1.0 };
            let jr = rng.usize(0, n - 1);
            let j0 = *rng.choose(&[0usize, n - 1, jr]);
            let mut v: Vec<f64> = (0..n).map(|i| (i as f64 - j0 as f64) * h).collect();
            let z = if rng.bool() { 0.0 } else { -0.0 };
            v[j0] = z;
            if n >= 3 && rng.chance(0.4) {
                // shift the upper part down by one slot: two zero abscissae of opposite sign in a row
                let j1 = if j0 + 1 < n { j0 + 1 } else { j0 - 1 };
                let (lo, hi) = (j0.min(j1), j0.max(j1));
                for i in (hi + 1..n).rev() {
                    v[i] = v[i - 1];
                }
                v[lo] = z;
                v[hi] = -z;
            }
            v
        }
        _ => {
            // integer multiples of 2^-1074 (subnormal), 2^-1040, 2^-700 or 2^-500
            let e = *rng.choose(&[-1074, -1074, -1040, -700, -500]);
            let mut c = rng.int(-(1 << 20), 1 << 20);
            let dir = if rng.chance(0.25) { -1 } else { 1 };
            (0..n)
                .map(|_| {
                    let v = scale2(c as f64, e);
                    let top = 1i64 << rng.usize(0, 10);
                    c += dir * rng.int(1, top);
                    v
                })
                .collect()
        }
    };
    rep.case(regime);
    rep.seen(if n <= 9 { "samples:len=2..9" } else if n <= 1000 { "samples:len=10..1000" } else { "samples:len>1000" }, 1);
    rep.distinct(Hasher::new().s(regime).fs(&y).fs(&xs).finish(), n >= 3 && y.iter().any(|v| *v != 0.0));
    let Some((q, r)) = sampled_call(rep, regime, &y, Some(&xs), None) else { return };
    // reversal: the same polygon traversed from the other end
    let (yr, xr): (Vec<f64>, Vec<f64>) = (y.iter().rev().copied().collect(), xs.iter().rev().copied().collect());
    sampled_relation(rep, "C07.trapezoid.reversal_antisymmetry", regime, "trapezoid(reverse y, reverse x) = -trapezoid(y, x)", (q, &r), -1.0, &yr, Some(&xr), None);
    // a duplicated sample adds a zero-width panel
    let j = rng.usize(0, n - 1);
    let (mut y2, mut x2) = (y.clone(), xs.clone());
    y2.insert(j, y[j]);
    x2.insert(j, xs[j]);
    sampled_relation(rep, "C07.trapezoid.duplicate_sample_invariance", regime, "duplicating sample j (a zero-width panel) leaves the integral unchanged", (q, &r), 1.0, &y2, Some(&x2), None);
    rep.sample(|| json!({"rule": "trapezoid(samples)", "regime": regime, "n": n, "x_head": jf(&xs[..n.min(6)]), "observed": jnum(q), "expected": jnum(r.expected())}));
}

// ---------------------------------------------------------------------------------------------
// periodic integrands over whole and half periods (tolerance-driven Romberg)
//
// A T-periodic integrand integrated over a whole number of periods takes one value at a, at b and — from
// two periods on, or when only even harmonics are present — at the midpoint; the coarsest estimates of the
// tableau then coincide although they are far from the integral. Closed antiderivatives are exact for any
// limits, so the family also walks half periods and arbitrary phases.

struct Periodic {
    name: String,
    f: Box<dyn Fn(f64) -> f64>,
    /// antiderivative: (value, Σ|terms|)
    af: Box<dyn Fn(f64) -> (f64, f64)>,
    /// base period T = 2π/ω
    period: f64,
}

fn periodic_integrand(rng: &mut Rng) -> Periodic {
    // base angular frequency: period 2π, 1, 2, or a random period in 0.5..8
    let (w, wname) = match rng.usize(0, 4) {
        0 | 1 => (1.0, "x".to_string()),
        2 => (2.0 * PI, "2πx".to_string()),
        3 => (PI, "πx".to_string()),
        _ => {
            let t = rng.log_range(0.5, 8.0);
            (2.0 * PI / t, format!("2πx/{}", t))
        }
    };
    let period = 2.0 * PI / w;
    let m = rng.usize(1, 3) as f64;
    let n = {
        let n = rng.usize(1, 4) as f64;
        if n == m {
            n + 1.0
        } else {
            n
        }
    };
    let (f, af, name): (Box<dyn Fn(f64) -> f64>, Box<dyn Fn(f64) -> (f64, f64)>, String) = match rng.usize(0, 7) {
        0 => (Box::new(move |x: f64| (m * w * x).sin().powi(2)), Box::new(move |x: f64| (0.5 * x - (2.0 * m * w * x).sin() / (4.0 * m * w), 0.5 * x.abs() + 0.25 / (m * w))), format!("sin^2({}·{})", m, wname)),
        1 => (Box::new(move |x: f64| (m * w * x).cos().powi(2)), Box::new(move |x: f64| (0.5 * x + (2.0 * m * w * x).sin() / (4.0 * m * w), 0.5 * x.abs() + 0.25 / (m * w))), format!("cos^2({}·{})", m, wname)),
        2 => (
            Box::new(move |x: f64| (m * w * x).sin() * (n * w * x).sin()),
            Box::new(move |x: f64| (((m - n) * w * x).sin() / (2.0 * (m - n) * w) - ((m + n) * w * x).sin() / (2.0 * (m + n) * w), 1.0 / (2.0 * (m - n).abs() * w) + 1.0 / (2.0 * (m + n) * w))),
            format!("sin({}·{})·sin({}·{})", m, wname, n, wname),
        ),
        3 => (
            Box::new(move |x: f64| (m * w * x).cos() * (n * w * x).cos()),
            Box::new(move |x: f64| (((m - n) * w * x).sin() / (2.0 * (m - n) * w) + ((m + n) * w * x).sin() / (2.0 * (m + n) * w), 1.0 / (2.0 * (m - n).abs() * w) + 1.0 / (2.0 * (m + n) * w))),
            format!("cos({}·{})·cos({}·{})", m, wname, n, wname),
        ),
        4 => (
            Box::new(move |x: f64| (m * w * x).sin() * (n * w * x).cos()),
            Box::new(move |x: f64| (-((m + n) * w * x).cos() / (2.0 * (m + n) * w) - ((m - n) * w * x).cos() / (2.0 * (m - n) * w), 1.0 / (2.0 * (m - n).abs() * w) + 1.0 / (2.0 * (m + n) * w))),
            format!("sin({}·{})·cos({}·{})", m, wname, n, wname),
        ),
        5 => {
            let (c0, amp, ph) = (rng.int(-3, 3) as f64, rng.range(0.2, 3.0), rng.range(-PI, PI));
            (Box::new(move |x: f64| c0 + amp * (m * w * x + ph).cos()), Box::new(move |x: f64| (c0 * x + amp * (m * w * x + ph).sin() / (m * w), (c0 * x).abs() + amp / (m * w))), format!("{} + {}·cos({}·{} + {})", c0, amp, m, wname, ph))
        }
        _ => {
            // random trigonometric polynomial c0 + Σ a_j cos(jωx) + b_j sin(jωx), j = 1..4; one time in two even harmonics only
            let even_only = rng.bool();
            let c0 = rng.normal();
            let terms: Vec<(f64, f64, f64)> = (1..=4)
                .filter(|j| !(even_only && j % 2 == 1))
                .map(|j| (j as f64, if rng.chance(0.6) { rng.normal() } else { 0.0 }, if rng.chance(0.6) { rng.normal() } else { 0.0 }))
                .collect();
            let t2 = terms.clone();
            let name = format!("trig-poly(ω·x = {}): c0 = {}, (j, a_j, b_j) = {:?}", wname, c0, terms);
            (
                Box::new(move |x: f64| terms.iter().fold(c0, |s, &(j, aj, bj)| s + aj * (j * w * x).cos() + bj * (j * w * x).sin())),
                Box::new(move |x: f64| t2.iter().fold((c0 * x, (c0 * x).abs()), |(s, sa), &(j, aj, bj)| (s + (aj * (j * w * x).sin() - bj * (j * w * x).cos()) / (j * w), sa + (aj.abs() + bj.abs()) / (j * w)))),
                name,
            )
        }
    };
    Periodic { name, f, af, period }
}

fn periodic_romberg(rng: &mut Rng, rep: &mut Report, max_levels: usize) {
    let pf = periodic_integrand(rng);
    let t = pf.period;
    // q half periods: [0, qT/2], [−qT/4, qT/4] (symmetric), or starting at any phase; either orientation
    let q = *rng.choose(&[1usize, 2, 2, 2, 3, 4, 4]);
    let len = q as f64 * t / 2.0;
    let (mut a, mut b) = match rng.usize(0, 3) {
        0 => (0.0, len),
        1 => (-0.5 * len, 0.5 * len),
        _ => {
            let s = rng.range(-t, t);
            (s, s + len)
        }
    };
    if rng.chance(0.3) {
        std::mem::swap(&mut a, &mut b);
    }
    orient(rep, a, b);
    let nmax = rng.usize(8.min(max_levels), 14.min(max_levels));
    let tau = 10f64.powi(-(rng.usize(3, 12) as i32));
    let f = |x: f64| (pf.f)(x);
    let (fa, sa) = (pf.af)(a);
    let (fb, sb) = (pf.af)(b);
    // the limits are rounded multiples of the period: the closed form is evaluated at the rounded limits,
    // its own rounding is 16u·Σ|terms| (argument reduction of sin/cos at |ωx| <= 60 is exact to < 1 ulp)
    let (i0, iallow) = (Dd::sum2(fb, -fa).f(), 16.0 * U * (sa + sb) + 64.0 * U * (b - a).abs());
    let family = if q % 2 == 0 { "romberg:periodic:whole-periods" } else { "romberg:periodic:half-periods" };
    // do the two coarsest estimates (one trapezoid, Simpson on three points) agree although the integrand is not affine?
    let mid = a + 0.5 * (b - a);
    let (r00, r11) = ((b - a) / 2.0 * (f(a) + f(b)), (b - a) / 6.0 * (f(a) + 4.0 * f(mid) + f(b)));
    if stop_crit(r11, r00, tau) {
        rep.seen("romberg:periodic:two-coarsest-estimates-agree", 1);
        if (r11 - i0).abs() > 1e3 * tau * i0.abs().max(1.0) {
            rep.seen("romberg:periodic:two-coarsest-estimates-agree-and-are-wrong", 1);
        }
    }
    rep.distinct(Hasher::new().s("pr").s(&pf.name).u(nmax as u64).f(tau).f(a).f(b).finish(), true);
    let desc = json!({"f": pf.name, "eps": tau, "nmax": nmax, "half_periods": q});
    judge_romberg(rep, &f, a, b, tau, nmax, i0, iallow, desc, family);
}

/// catalogue entries with a domain symmetric about 0 over exactly symmetric intervals [−c, c]
fn symmetric_romberg(rng: &mut Rng, rep: &mut Report, cat: &[Smooth], max_levels: usize) {
    let sym: Vec<&Smooth> = cat.iter().filter(|s| s.dom.0 == -s.dom.1).collect();
    let s = *rng.choose(&sym);
    let c = 0.5 * rng.log_range(0.05, s.rlen.min(2.0 * s.dom.1));
    let (a, b) = if rng.chance(0.3) { (c, -c) } else { (-c, c) };
    orient(rep, a, b);
    let nmax = rng.usize(2, 14.min(max_levels));
    let tau = 10f64.powi(-(rng.usize(3, 12) as i32));
    let fp = s.f;
    let f = |t: f64| fp(t);
    let (i0, iallow) = smooth_integral(s, a, b);
    rep.distinct(Hasher::new().s("sym").s(s.name).u(nmax as u64).f(tau).f(a).finish(), true);
    judge_romberg(rep, &f, a, b, tau, nmax, i0, iallow, json!({"f": s.name, "eps": tau, "nmax": nmax}), "romberg:symmetric-interval");
}

// ---------------------------------------------------------------------------------------------
// re-entrancy: integrands that are themselves computed by a quadrature rule (iterated integrals)

#[derive(Clone, Copy, Debug)]
struct NRule {
    rule: Rule,
    /// Romberg's tolerance (ignored by the other rules)
    eps: f64,
}
impl NRule {
    /// not guarded: inner calls run inside the guarded outer call
    fn call(self, f: &dyn Fn(f64) -> f64, a: f64, b: f64) -> f64 {
        match self.rule {
            Rule::Trapz(n) => trapz(f, a, b, n),
            Rule::Romberg(k) => romberg(f, a, b, self.eps, k),
            Rule::Quad5 => quad5(f, a, b),
        }
    }
    fn js(self) -> Value {
        match self.rule {
            Rule::Romberg(k) => json!({"romberg_eps": self.eps, "romberg_nmax": k}),
            r => r.js(),
        }
    }
    /// highest degree integrated exactly (eps = 0), capped at 9
    fn class_degree(self) -> usize {
        match self.rule {
            Rule::Trapz(_) => 1,
            Rule::Romberg(k) => (2 * k - 1).min(9),
            Rule::Quad5 => 9,
        }
    }
}
fn nested_rule(rng: &mut Rng, which: usize, exact: bool, kmax: usize) -> NRule {
    match which {
        0 => NRule { rule: Rule::Trapz(if rng.bool() { rng.usize(1, 8) } else { rng.usize(9, 64) }), eps: 0.0 },
        1 => {
            let k = if rng.chance(0.8) { rng.usize(2, kmax.min(6)) } else { rng.usize(2, kmax) };
            NRule { rule: Rule::Romberg(k), eps: if exact || rng.chance(0.4) { 0.0 } else { *rng.choose(&[1e-3, 1e-6, 1e-9, 1e-12]) } }
        }
        _ => NRule { rule: Rule::Quad5, eps: 0.0 },
    }
}

/// p(x, y) = Σ c[i][j] x^i y^j
struct BiPoly {
    c: Vec<Vec<f64>>,
}
impl BiPoly {
    fn random(rng: &mut Rng, dx: usize, dy: usize) -> BiPoly {
        let ints = rng.chance(0.4);
        let mut c: Vec<Vec<f64>> = (0..=dx).map(|_| (0..=dy).map(|_| if ints { rng.int(-5, 5) as f64 } else { rng.normal() }).collect()).collect();
        if c[dx][dy] == 0.0 {
            c[dx][dy] = 1.0;
        }
        BiPoly { c }
    }
    fn eval(&self, x: f64, y: f64) -> f64 {
        let mut s = 0.0;
        for row in self.c.iter().rev() {
            let mut r = 0.0;
            for &v in row.iter().rev() {
                r = r * y + v;
            }
            s = s * x + r;
        }
        s
    }
    fn absval(&self, x: f64, y: f64) -> f64 {
        let mut s = 0.0;
        for row in self.c.iter().rev() {
            let mut r = 0.0;
            for &v in row.iter().rev() {
                r = r * y.abs() + v.abs();
            }
            s = s * x.abs() + r;
        }
        s
    }
    /// exact ∫_a^b ∫_{l0}^{u0 + u1·x} p(x, y) dy dx in double-double
    fn iterated_integral(&self, a: f64, b: f64, l0: f64, u0: f64, u1: f64) -> Dd {
        let (dx, dy) = (self.c.len() - 1, self.c[0].len() - 1);
        // g(x) = Σ_ij c_ij/(j+1) · x^i · (U(x)^{j+1} − l0^{j+1}), coefficients in x
        let mut g = vec![Dd::ZERO; dx + dy + 2];
        let mut up = vec![Dd::ONE];
        let mut lp = Dd::ONE;
        for j in 0..=dy {
            // U^{j+1} = U^j·(u0 + u1·x)
            let mut nx = vec![Dd::ZERO; up.len() + 1];
            for (m, &c) in up.iter().enumerate() {
                nx[m] = nx[m] + c * Dd::new(u0);
                nx[m + 1] = nx[m + 1] + c * Dd::new(u1);
            }
            up = nx;
            lp = lp * Dd::new(l0);
            for i in 0..=dx {
                let cij = self.c[i][j];
                if cij == 0.0 {
                    continue;
                }
                let s = Dd::new(cij) / Dd::new(j as f64 + 1.0);
                for (m, &um) in up.iter().enumerate() {
                    g[i + m] = g[i + m] + s * um;
                }
                g[i] = g[i] - s * lp;
            }
        }
        let (da, db) = (Dd::new(a), Dd::new(b));
        let (mut pa, mut pb) = (da, db);
        let mut s = Dd::ZERO;
        for (m, &c) in g.iter().enumerate() {
            s = s + c * (pb - pa) / Dd::new(m as f64 + 1.0);
            pa = pa * da;
            pb = pb * db;
        }
        s
    }
    fn js(&self) -> Value {
        json!({"c[i][j] of x^i y^j": self.c.iter().map(|r| jf(r)).collect::<Vec<Value>>()})
    }
}

const RULE_NAMES: [&str; 3] = ["trapz", "romberg", "quad5"];

/// outer interval, inner limits l0 and U(x) = u0 + u1·x
fn nested_region(rng: &mut Rng, variable_limit: bool) -> (f64, f64, f64, f64, f64) {
    let dyadic = rng.chance(0.4);
    let g = |rng: &mut Rng, lo: f64, hi: f64| if dyadic { rng.int((lo * 8.0) as i64, (hi * 8.0) as i64) as f64 / 8.0 } else { rng.range(lo, hi) };
    let a = g(rng, -3.0, 3.0);
    let mut b = a + if dyadic { rng.int(1, 24) as f64 / 8.0 } else { rng.log_range(0.1, 3.0) };
    let mut a = a;
    if rng.chance(0.35) {
        std::mem::swap(&mut a, &mut b);
    }
    let l0 = g(rng, -2.0, 2.0);
    let wy = (if dyadic { rng.int(1, 16) as f64 / 8.0 } else { rng.log_range(0.1, 2.0) }) * if rng.chance(0.25) { -1.0 } else { 1.0 };
    let u1 = if variable_limit { if dyadic { *rng.choose(&[1.0, -1.0, 0.5, 2.0, -0.25]) } else { rng.normal() * 0.7 } } else { 0.0 };
    // x-dependent upper limit: l0 + wy at the middle of the outer interval
    let u0 = if variable_limit && rng.bool() { l0 } else { l0 + wy - u1 * 0.5 * (a + b) };
    (a, b, l0, u0, u1)
}

/// iterated integral of a bivariate polynomial, each rule inside its exactness class, against the exact value
fn nested_exact(rng: &mut Rng, rep: &mut Report, combo: usize, kmax: usize) {
    let (wo, wi) = (combo % 3, combo / 3 % 3);
    let outer = nested_rule(rng, wo, true, kmax);
    let inner = nested_rule(rng, wi, true, kmax);
    let variable_limit = rng.chance(0.4);
    let dy = rng.usize(0, inner.class_degree());
    let dmax_o = outer.class_degree();
    // the inner integral is a polynomial in x of degree dx (+ dy + 1 with an x-dependent limit)
    let (dy, dx) = if variable_limit {
        let dy = dy.min(dmax_o.saturating_sub(1));
        (dy, rng.usize(0, dmax_o - (dy + 1).min(dmax_o)))
    } else {
        (dy, rng.usize(0, dmax_o))
    };
    let variable_limit = variable_limit && dy + 1 + dx <= dmax_o;
    let p = BiPoly::random(rng, dx, dy);
    let (a, b, l0, u0, u1) = nested_region(rng, variable_limit);
    orient(rep, a, b);
    let regime = format!("nested:{}({})", RULE_NAMES[wo], RULE_NAMES[wi]);
    rep.case(&regime);
    rep.seen(if variable_limit { "nested:inner-limit-depends-on-x" } else { "nested:rectangle" }, 1);
    let dg = dx + if variable_limit { dy + 1 } else { 0 };
    rep.distinct(Hasher::new().s("nest").u(outer.rule.tag()).u(inner.rule.tag()).f(a).f(b).f(l0).f(u0).f(u1).fs(&p.c[dx]).finish(), dg >= 1 || dy >= 1);
    let integral = p.iterated_integral(a, b, l0, u0, u1);
    let x = a.abs().max(b.abs());
    let y = l0.abs().max(u0.abs() + u1.abs() * x);
    let wy = (u0 + u1 * a - l0).abs().max((u0 + u1 * b - l0).abs());
    let pabs = p.absval(x, y);
    // inner quadrature: rounding bound of the rule on a degree-dy polynomial, plus the rounding of the limit U(x)
    let tol_in = wy * pabs * (32.0 * gamma_n(inner.rule.evals() + 4) + 16.0 * (dy + dx + 1) as f64 * U) + 4.0 * U * y * pabs;
    // outer quadrature: its own bound on g (Σ|coefficients| <= 2·Y·P(X,Y)) plus the inner errors (Σ|weights| <= 4|b−a|)
    let tol = poly_tol(outer.rule, a, b, 2.0 * y * pabs, dg) + 4.0 * (b - a).abs() * tol_in;
    let desc = json!({"p(x,y)": p.js(), "inner": {"rule": inner.js(), "from": l0, "to": format!("{} + {}*x", u0, u1)}, "form": "outer rule applied to g(x) = inner rule applied to y -> p(x, y)"});
    let g = |t: f64| inner.call(&|s: f64| p.eval(t, s), l0, u0 + u1 * t);
    let np = format!("C07.{}.no_panic", RULE_NAMES[wo]);
    match guard(|| outer.call(&g, a, b)) {
        Err(msg) => {
            rep.check(&np, &regime, false, || ctx(outer.rule, desc.clone(), a, b, json!({"panic": msg})));
        }
        Ok(q) => {
            rep.check(&np, &regime, true, || json!(null));
            let err = (Dd::new(q) - integral).f().abs();
            rep.note_max(&format!("worst_ratio.nested_exact.{}", RULE_NAMES[wo]), if err.is_nan() { f64::INFINITY } else { err / tol });
            // either rule may be at fault: the assertion is named after the construction, the regime names both rules
            rep.check("C07.iterated.poly_exact", &regime, err <= tol, || ctx(outer.rule, desc.clone(), a, b, json!({"observed": jnum(q), "expected": integral.f(), "abs_err": jnum(err), "tol": tol, "degree_of_g": dg})));
        }
    }
    rep.sample(|| json!({"rule": outer.js(), "integrand": desc.clone(), "a": a, "b": b, "regime": regime, "integral": integral.f()}));
}

/// an integrand that calls another rule on the side (result discarded): the outer value must not notice
fn nested_side_call(rng: &mut Rng, rep: &mut Report, combo: usize, kmax: usize) {
    let (wo, wi) = (combo % 3, combo / 3 % 3);
    let outer = nested_rule(rng, wo, true, kmax);
    let inner = nested_rule(rng, wi, false, kmax);
    let d = rng.usize(0, outer.class_degree());
    let p = Poly::random(rng, d);
    let q = Poly::random_deg(rng, 0, 6);
    let (a, b, l0, u0, _) = nested_region(rng, false);
    orient(rep, a, b);
    let regime = format!("nested:{}(side-call:{})", RULE_NAMES[wo], RULE_NAMES[wi]);
    rep.case(&regime);
    rep.distinct(Hasher::new().s("side").u(outer.rule.tag()).u(inner.rule.tag()).f(a).f(b).fs(&p.c).finish(), d >= 1);
    let side = Cell::new(0.0f64);
    let f = |t: f64| {
        side.set(side.get() + inner.call(&|s: f64| q.eval(s) + t, l0, u0));
        p.eval(t)
    };
    let x = a.abs().max(b.abs());
    let assertion = if wo == 0 { "C07.trapz.affine_exact".to_string() } else { format!("C07.{}.poly_exact", RULE_NAMES[wo]) };
    let r = check_exact(rep, &assertion, &regime, outer.rule, &p, &f, p.absval(x), a, b, p.integral(a, b), true);
    rep.note_max(&format!("worst_ratio.nested_side_call.{}", RULE_NAMES[wo]), r);
    std::hint::black_box(side.get());
}

fn bivariate(idx: usize, x: f64, y: f64) -> f64 {
    match idx {
        0 => (-x * y).exp(),
        1 => (x + y).sin(),
        2 => 1.0 / (1.0 + x * x + y * y),
        3 => x * y.cos() + y,
        4 => (x - y).tanh(),
        _ => x * x * x + y,
    }
}
const BIVARIATE: [&str; 6] = ["exp(-x y)", "sin(x + y)", "1/(1 + x^2 + y^2)", "x cos y + y", "tanh(x - y)", "x^3 + y"];

/// nested evaluation against its tabulated twin: the inner integrals g(x_i) recorded during the nested run are
/// recomputed one after the other outside any other call, and the outer rule is applied once more to the table.
/// Linear rules give Q(g) − Q(g_table) = Q(0) = 0 up to rounding. Any tolerance, any smooth integrand, depth 2 or 3.
fn nested_twin(rng: &mut Rng, rep: &mut Report, combo: usize, kmax: usize) {
    let (wo, wi) = (combo % 3, combo / 3 % 3);
    let outer = nested_rule(rng, wo, false, kmax);
    let inner = nested_rule(rng, wi, false, kmax);
    let depth3 = rng.chance(0.2);
    let w3 = rng.usize(0, 2);
    let inner2 = nested_rule(rng, w3, false, kmax.min(4));
    let variable_limit = rng.chance(0.4);
    let (a, b, l0, u0, u1) = nested_region(rng, variable_limit);
    let hid = rng.usize(0, BIVARIATE.len() - 1);
    orient(rep, a, b);
    let regime = format!("nested:{}({}):vs-tabulated", RULE_NAMES[wo], RULE_NAMES[wi]);
    rep.case(&regime);
    rep.seen(if depth3 { "nested:depth-3" } else { "nested:depth-2" }, 1);
    if outer.eps > 0.0 || inner.eps > 0.0 {
        rep.seen("nested:romberg-eps>0", 1);
    }
    rep.distinct(Hasher::new().s("twin").u(outer.rule.tag()).u(inner.rule.tag()).f(outer.eps).f(inner.eps).f(a).f(b).f(l0).f(u0).f(u1).u(hid as u64).u(depth3 as u64).finish(), true);
    let hmax = Cell::new(0.0f64);
    let h = |x: f64, y: f64| {
        let v = if depth3 { inner2.call(&|z: f64| bivariate(hid, x, y + 0.5 * z), 0.0, 1.0) } else { bivariate(hid, x, y) };
        if !(v.abs() <= hmax.get()) {
            hmax.set(v.abs());
        }
        v
    };
    let g_direct = |x: f64| inner.call(&|y: f64| h(x, y), l0, u0 + u1 * x);
    let desc = json!({"h(x,y)": BIVARIATE[hid], "depth": if depth3 { 3 } else { 2 }, "innermost": if depth3 { inner2.js() } else { json!(null) }, "inner": {"rule": inner.js(), "from": l0, "to": format!("{} + {}*x", u0, u1)}, "form": "outer rule applied to g(x) = inner rule applied to y -> h(x, y)"});
    let np = format!("C07.{}.no_panic", RULE_NAMES[wo]);
    // 1. nested
    let log = std::cell::RefCell::new(Vec::<(f64, f64)>::new());
    let nested = guard(|| {
        outer.call(
            &|x: f64| {
                let v = g_direct(x);
                log.borrow_mut().push((x, v));
                v
            },
            a,
            b,
        )
    });
    let qn = match nested {
        Err(msg) => {
            rep.check(&np, &regime, false, || ctx(outer.rule, desc.clone(), a, b, json!({"panic": msg})));
            return;
        }
        Ok(q) => q,
    };
    rep.check(&np, &regime, true, || json!(null));
    let log = log.into_inner();
    // 2. the same inner integrals, one after the other (the innermost level of depth 3 stays nested in the inner one)
    let mut table: std::collections::HashMap<u64, f64> = std::collections::HashMap::new();
    let mut gmax = 0.0f64;
    let mut worst_inner = 0.0f64;
    let mut at: Option<(f64, f64, f64)> = None;
    for &(x, v) in &log {
        let v2 = match guard(|| g_direct(x)) {
            Ok(v2) => v2,
            Err(msg) => {
                rep.check(&format!("C07.{}.no_panic", RULE_NAMES[wi]), &regime, false, || ctx(inner.rule, desc.clone(), l0, u0 + u1 * x, json!({"panic": msg, "x": x})));
                return;
            }
        };
        gmax = gmax.max(v2.abs()).max(v.abs());
        let d = (v - v2).abs();
        if d > worst_inner || d.is_nan() {
            worst_inner = if d.is_nan() { f64::INFINITY } else { d };
            at = Some((x, v, v2));
        }
        table.insert(x.to_bits(), v2);
    }
    let wy = (u0 + u1 * a - l0).abs().max((u0 + u1 * b - l0).abs());
    let tol_in = 64.0 * gamma_n(inner.rule.evals() + 4) * wy * hmax.get() + 1e-300;
    rep.check(&format!("C07.{}.same_value_when_called_from_an_integrand", RULE_NAMES[wi]), &regime, worst_inner <= tol_in, || {
        let (x, v, v2) = at.unwrap_or((f64::NAN, f64::NAN, f64::NAN));
        ctx(inner.rule, desc.clone(), l0, u0 + u1 * x, json!({"x": x, "value_inside_outer_call": jnum(v), "value_on_its_own": jnum(v2), "tol": tol_in}))
    });
    // 3. outer rule on the table
    let miss = Cell::new(false);
    let tabulated = guard(|| {
        outer.call(
            &|x: f64| match table.get(&x.to_bits()) {
                Some(v) => *v,
                None => {
                    miss.set(true);
                    f64::NAN
                }
            },
            a,
            b,
        )
    });
    let qt = match tabulated {
        Err(msg) => {
            rep.check(&np, &regime, false, || ctx(outer.rule, desc.clone(), a, b, json!({"panic": msg, "integrand": "table of the values returned during the nested run"})));
            return;
        }
        Ok(q) => q,
    };
    if miss.get() {
        // the rule asked for an abscissa it had not asked for with the same values before
        rep.check(&format!("C07.{}.nested_equals_tabulated", RULE_NAMES[wo]), &regime, false, || ctx(outer.rule, desc.clone(), a, b, json!({"reason": "the rule evaluated the tabulated twin at an abscissa it did not use in the nested run although all values agree", "nested": jnum(qn)})));
        return;
    }
    let tol = 64.0 * gamma_n(outer.rule.evals() + 4) * (b - a).abs() * gmax + 8.0 * (b - a).abs() * worst_inner + 1e-300;
    let err = (qn - qt).abs();
    rep.note_max(&format!("worst_ratio.nested_vs_tabulated.{}", RULE_NAMES[wo]), if err.is_nan() && !(qn.is_nan() && qt.is_nan()) { f64::INFINITY } else if err.is_nan() { 0.0 } else { err / tol });
    rep.check(&format!("C07.{}.nested_equals_tabulated", RULE_NAMES[wo]), &regime, err <= tol || (qn.is_nan() && qt.is_nan()), || {
        ctx(outer.rule, desc.clone(), a, b, json!({"nested": jnum(qn), "tabulated": jnum(qt), "abs_diff": jnum(err), "tol": tol, "outer_evaluations": log.len()}))
    });
}

pub fn run(cfg: &Cfg, rep: &mut Report) {
    rep.rule = "rule x integrand x interval evaluations. intervals: end points in +-1e3 (wide, unit-scale, symmetric, narrow-far-from-0, dyadic, [0,c]), 40% with a > b, a = b separately; trapz panels 1..4096; romberg(eps=0) level budgets 2..12 on monomials/random polynomials up to degree 2k-1 (<= 23) and 13..20 on degree <= 3; quad5 degrees 0..9 (10..19 recorded, not asserted); linearity and antisymmetry per rule; 22 smooth integrands for the trapezoid error bound and romberg with eps in 1e-3..1e-12, budgets 2..20; sampled trapezoid lengths 2..1e4 with uniform x, non-uniform x (spacing ratios to 1e6), dx, default dx; sampled trapezoid on special grids (lengths 2..2000, block edges 2^k, 2^k+1): dx exactly +0.0 / -0.0, +-1, negative, powers of two, 2^-1000..2^-500, subnormal, 2^100..2^500, None, each also as abscissae x_i = (j0+i)*dx; abscissae all equal, repeated (zero-width panels), decreasing, through +-0.0 (also -0.0,+0.0 in a row), multiples of 2^-1074..2^-500; sample values generic / constant / small integers / one-signed / with signed zeros; narrow intervals |b-a| = |a|*2^-j (j = 10..50, |a| to 1e3, both orders) for all three rules with romberg(eps=0) budgets 2..20 on monomials to degree min(2k-1,19) / random polynomials to degree 12; node-aliasing polynomials C + s*r*prod(x - node_i) over the 2, 3, 5, 9, 17 coarsest equispaced nodes of dyadic intervals for romberg(eps=0, smallest sufficient budget .. 20) and quad5. periodic integrands (sin^2, cos^2, products sin/cos(m.)·sin/cos(n.), shifted cosines, random trigonometric polynomials; periods 2pi, 1, 2, random) over 1..4 half periods from 0, symmetric about 0 or from any phase with romberg eps 1e-3..1e-12, budgets 8..14; catalogue entries with symmetric domain over exactly symmetric intervals; re-entrancy: all 9 (outer rule)(inner rule) pairs on iterated integrals of bivariate polynomials inside both exactness classes (rectangles and x-dependent inner limit) against the exact value, on smooth bivariate integrands (depth 2 and 3, romberg eps 0..1e-3) against the tabulated twin, and integrands that call another rule on the side. one evaluation = one relation checked (1-3 library calls). non-trivial = non-constant integrand, a != b (samples: length >= 3); distinct by (rule, parameters, limits, integrand)".into();
    rep.assume("integrands are finite on the interval; smooth catalogue entries are used inside their natural domain only (exp on +-10, 1/x on [0.1,1e3], ...)");
    rep.assume("romberg linearity / antisymmetry / polynomial exactness are judged at eps = 0 (fixed tableau); with eps > 0 the stopping level depends on the integrand");
    rep.assume("romberg tolerance-order bound is asserted only when the exact-arithmetic method (reference tableau in double-double) converges within the level budget and its stopping criterion is not fooled (every level at which it could stop is within 10*eps*max(1,|I|)); other cases are counted under romberg:smooth:undecided(...) / criterion-fooled");
    rep.assume("narrow intervals: |b-a| = |a|*2^-j, j = 10..50, |a| in 1e-2..1e3, both orders; same exactness tolerance as everywhere (|b-a|*P(X)*(32 gamma_{N+4} + 16(d+1)u)); the reference integral is evaluated in the shifted variable t = x - a (Taylor shift in double-double) so that it does not cancel");
    rep.assume("node-aliasing integrands C + s*r(u)*prod(u - node_i) on dyadic intervals (all abscissae exact): tolerance |b-a|*((|C| + sup|s r prod|)*(32 gamma_{N+4} + 16(d+2)u)) (+ the effect of quad5's rounded abscissae, 8u*X*d^2*sup/|h|); sup sampled at 32 points per node spacing, +50%; romberg at eps = 0 with budgets from the smallest k with 2k-1 >= degree up to 20");
    rep.assume("iterated integrals: an integrand may itself be computed with trapz / romberg / quad5 (the crate has no 2-D rule); tolerance = the rule's own polynomial bound on g(x) = inner integral, with P = 2Y*P(X,Y), plus 4|b-a| times the inner rule's bound; nested versus tabulated twin: 64 gamma_{N+4} |b-a| max|g| (linearity applied to the zero difference)");
    rep.assume("periodic family: reference = closed antiderivative at the (rounded) limits with allowance 16u*sum|terms| + 64u|b-a|; judged like the smooth catalogue (asserted only where the reference tableau converges genuinely within the budget)");
    rep.assume("sampled rule on special grids: spacing exactly +0.0 / -0.0 and all-equal abscissae are the tabulated form of a = b (integral 0), negative spacing / decreasing abscissae of a > b; spacings down to the subnormal range are intervals of tiny width inside +-1e3; spacings 2^100..2^500 lie outside +-1e3 and are kept as a scale-invariance probe of the same formula (no overflow: |y| <= 1e4, n <= 2000); repeated abscissae are zero-width panels (data with jumps). Reference and observed value are compared after an exact multiplication by 2^k (k = -exponent of the largest width); allowance 8 gamma_{n+3} sum|terms| + 8n*2^-1074 (products that fall into the subnormal range); relations between two calls (oddness in dx, dx form = abscissa form on an exactly representable grid, reversal, duplicated sample, None = unit spacing) are judged at twice that allowance, not bit-wise");
    rep.assume("quad5 is required to be exact to degree 9 only; degrees 10..19 are recorded (info.*) but not asserted");
    rep.assume("max|f''| is an upper bound evaluated from the closed form at the end points and interior stationary points");
    let cat = catalogue();
    let cat = &cat;
    let n_trapz = cfg.pick(1200, 20000, 10);
    let n_romb = cfg.pick(1200, 20000, 10);
    let n_deep = cfg.pick(10, 160, 0);
    let n_quad = cfg.pick(800, 12000, 10);
    let n_lin = cfg.pick(300, 5000, 3); // per rule
    let n_anti = cfg.pick(300, 5000, 3); // per rule
    let n_zero = cfg.pick(50, 500, 2);
    let n_strapz = cfg.pick(900, 15000, 10);
    let n_sromb = cfg.pick(500, 8000, 6);
    let n_samp = cfg.pick(600, 10000, 8);
    let n_narrow = cfg.pick(300, 5000, 4); // per rule
    let n_alias = cfg.pick(500, 8000, 5);
    let n_periodic = cfg.pick(400, 6000, 3);
    let n_symm = cfg.pick(150, 2500, 2);
    let n_nested = cfg.pick(900, 13500, 9); // 9 outer × inner combinations in turn
    let kmax_nested = if cfg.miri() { 3 } else { 9 };
    let max_levels = if cfg.miri() { 8 } else { 20 };
    let maxlen = if cfg.miri() { 40 } else { 10_000 };
    par_cases(cfg, rep, 1, n_trapz, |_i, rng, rep| exact_trapz(rng, rep));
    par_cases(cfg, rep, 2, n_romb, |_i, rng, rep| exact_romberg(rng, rep, false));
    par_cases(cfg, rep, 3, n_deep, |_i, rng, rep| exact_romberg(rng, rep, true));
    par_cases(cfg, rep, 4, n_quad, |_i, rng, rep| exact_quad5(rng, rep));
    par_cases(cfg, rep, 5, 3 * n_lin, |i, rng, rep| linearity(rng, rep, i % 3, cat));
    par_cases(cfg, rep, 6, 3 * n_anti, |i, rng, rep| antisymmetry(rng, rep, i % 3, cat));
    par_cases(cfg, rep, 7, n_zero, |_i, rng, rep| zero_width(rng, rep, cat));
    par_cases(cfg, rep, 8, n_strapz, |_i, rng, rep| smooth_trapz(rng, rep, cat));
    par_cases(cfg, rep, 9, n_sromb, |_i, rng, rep| smooth_romberg(rng, rep, cat, max_levels));
    par_cases(cfg, rep, 10, n_samp, |_i, rng, rep| samples(rng, rep, maxlen));
    // sampled rule on degenerate / special grids (classes in turn)
    let n_sdx = cfg.pick(40, 400, 1) * DX_CLASSES.len();
    let n_sx = cfg.pick(50, 500, 1) * X_CLASSES.len();
    par_cases(cfg, rep, 20, n_sdx, |i, rng, rep| samples_special_dx(rng, rep, maxlen, i % DX_CLASSES.len()));
    par_cases(cfg, rep, 21, n_sx, |i, rng, rep| samples_special_x(rng, rep, maxlen, i % X_CLASSES.len()));
    // narrow intervals (3 rules in turn; under Miri trapz and quad5 only: a 20-level tableau is 5e5 evaluations)
    par_cases(cfg, rep, 12, 3 * n_narrow, |i, rng, rep| exact_narrow(rng, rep, if cfg.miri() { [0, 2, 0][i % 3] } else { i % 3 }));
    if !cfg.miri() {
        par_cases(cfg, rep, 13, n_alias, |i, rng, rep| alias_case(rng, rep, i % 5 == 4));
        // the literal intervals of the class: a few ulps wide next to ±1000, 250 and 1, budgets across 2..20
        par_cases(cfg, rep, 14, 1, |_i, _rng, rep| {
            let t33 = 2f64.powi(-33);
            for (a, b) in [(1000.0 - t33, 1000.0), (1000.0, 1000.0 - t33), (-1000.0, -1000.0 + t33), (250.0, 250.0 + 2f64.powi(-36)), (1.0 + 2f64.powi(-44), 1.0), (999.0, 999.0 + 2f64.powi(-40))] {
                for k in 2..=if cfg.lite { 12 } else { 20 } {
                    for d in [0usize, 1, 2, 3] {
                        if d > 2 * k - 1 {
                            continue;
                        }
                        let p = Poly::monomial(d);
                        let f = |t: f64| p.eval(t);
                        let regime = if k <= 11 { "romberg:narrow(w=|a|*2^-10..-50):k=2..11" } else { "romberg:narrow(w=|a|*2^-10..-50):k=12..20" };
                        rep.case(regime);
                        let x = a.abs().max(b.abs());
                        check_exact(rep, "C07.romberg.poly_exact", regime, Rule::Romberg(k), &p, &f, p.absval(x), a, b, p.integral_shifted(a, b), true);
                    }
                }
            }
        });
    }
    // periodic integrands over whole / half periods and symmetric intervals, eps > 0
    par_cases(cfg, rep, 15, n_periodic, |_i, rng, rep| periodic_romberg(rng, rep, max_levels));
    par_cases(cfg, rep, 16, n_symm, |_i, rng, rep| symmetric_romberg(rng, rep, cat, max_levels));
    // re-entrancy: each rule inside an integrand of each rule
    par_cases(cfg, rep, 17, n_nested, |i, rng, rep| nested_exact(rng, rep, i % 9, kmax_nested));
    par_cases(cfg, rep, 18, n_nested, |i, rng, rep| nested_twin(rng, rep, i % 9, kmax_nested));
    par_cases(cfg, rep, 19, n_nested / 3, |i, rng, rep| nested_side_call(rng, rep, i % 9, kmax_nested));
    // the DESIGN probe, literally: trapz(1, 0, 1, 4) and trapz(x, 0, 1, 4)
    par_cases(cfg, rep, 11, 1, |_i, _rng, rep| {
        let one = Poly::monomial(0);
        let f = |t: f64| one.eval(t);
        rep.case("trapz:affine:f(a)!=0");
        check_exact(rep, "C07.trapz.affine_exact", "trapz:affine:f(a)!=0", Rule::Trapz(4), &one, &f, 1.0, 0.0, 1.0, Dd::ONE, true);
        let id = Poly::monomial(1);
        let g = |t: f64| id.eval(t);
        rep.case("trapz:affine:f(a)=0");
        check_exact(rep, "C07.trapz.affine_exact", "trapz:affine:f(a)=0", Rule::Trapz(4), &id, &g, 1.0, 0.0, 1.0, Dd::new(0.5), true);
    });
    // under Miri the workload is a smoke run of a few dozen calls: only the rule-level regimes are required there
    let basic = ["trapz:linearity", "romberg:linearity", "quad5:linearity", "samples:x-uniform", "interval:a<b"];
    let full = [
        "trapz:affine:f(a)=0", "trapz:affine:f(a)!=0", "romberg:monomial:k=2..12", "romberg:randpoly:k=2..12", "quad5:monomial:deg<=9", "quad5:randpoly:deg<=9",
        "trapz:f(a)=f(b):antisymmetry", "trapz:f(a)!=f(b):antisymmetry", "romberg:antisymmetry", "quad5:antisymmetry",
        "a=b", "trapz:smooth:f(a)=0", "trapz:smooth:f(a)!=0", "romberg:smooth:budget-suffices", "samples:x-nonuniform", "samples:dx", "samples:default-dx",
        "interval:a>b", "interval:a=b",
    ];
    for r in basic {
        rep.require(r, 1);
    }
    if !cfg.miri() {
        for r in full {
            rep.require(r, 1);
        }
    }
    for r in DX_CLASSES.iter().chain(X_CLASSES.iter()) {
        rep.require(r, 1);
    }
    rep.require("samples:dx-form-vs-abscissa-form", DX_CLASSES.len() as u64);
    rep.require("trapz:narrow(w=|a|*2^-10..-50)", 1);
    rep.require("quad5:narrow(w=|a|*2^-10..-50)", 1);
    if !cfg.miri() {
        rep.require("romberg:narrow(w=|a|*2^-10..-50):k=2..11", 1);
        rep.require("romberg:narrow(w=|a|*2^-10..-50):k=12..20", 1);
    }
    for o in RULE_NAMES {
        for i in RULE_NAMES {
            rep.require(&format!("nested:{}({})", o, i), 1);
            rep.require(&format!("nested:{}({}):vs-tabulated", o, i), 1);
            if !cfg.miri() {
                rep.require(&format!("nested:{}(side-call:{})", o, i), 1);
            }
        }
    }
    if !cfg.lite {
        for r in ["romberg:periodic:whole-periods:budget-suffices", "romberg:periodic:half-periods:budget-suffices", "romberg:periodic:two-coarsest-estimates-agree-and-are-wrong", "romberg:symmetric-interval:budget-suffices", "nested:inner-limit-depends-on-x", "nested:rectangle", "nested:depth-3", "nested:depth-2", "nested:romberg-eps>0"] {
            rep.require(r, 1);
        }
    }
    if !cfg.lite {
        for r in ["narrow:j=10..29", "narrow:j=30..41", "narrow:j=42..50", "romberg:narrow:abscissae-coincide", "quad5:node-aliasing", "alias:integral-differs-from-C(b-a)"] {
            rep.require(r, 1);
        }
        for r in ["romberg:node-aliasing:2-nodes", "romberg:node-aliasing:3-nodes", "romberg:node-aliasing:5-nodes", "romberg:node-aliasing:9-nodes", "romberg:node-aliasing:17-nodes"] {
            rep.require(r, 1);
        }
        for k in 2..=20 {
            rep.require(&format!("romberg:narrow:k={}", k), 1);
        }
        rep.require("romberg:lowdeg:k=13..20", 1);
        rep.require("romberg:top-degree-2k-1", 10);
        rep.require("romberg:smooth:aliasing-interval", 1);
        for k in 2..=12 {
            rep.require(&format!("romberg:k={}", k), 1);
        }
        for d in 0..=9 {
            rep.require(&format!("quad5:deg={}", d), 1);
        }
        for s in cat.iter() {
            rep.require(&format!("smooth:{}", s.name), 1);
        }
        for r in ["samples:len=2..9", "samples:len=10..1000", "samples:len>1000"] {
            rep.require(r, 1);
        }
    }
}
