//! C11 — factorisations reconstruct the input and have the promised structure (DESIGN §3 C11).
//!
//! Events: every return (value or panic) of `cholesky`, `lu`, `lu_solve`, `cholesky_solve`,
//! `forward_substitution`, `backward_substitution` in their slice and `Matrix` forms, of `solve` on
//! SPD input, and of `Matrix::det` / `Matrix::lu_det`.
//! Oracle: structure checks are exact (zero upper triangle, positive diagonal, |l_ij| ≤ 1, pivots a
//! permutation, slice factors bit-equal to Matrix factors); reconstruction `L·Lᵀ = A`, `P·A = L·U` and
//! all triangular-solve residuals are evaluated in double-double against a-priori `C·n·ε` bounds; the
//! determinant is compared with the product of U's diagonal times the permutation sign that the
//! harness recomputes by cycle counting, and that signed product with the exact (Bareiss) determinant
//! of integer matrices — exactly for (scaled) permutation matrices, all 873 of order ≤ 6 are
//! enumerated. Input that is not positive definite must make `cholesky` panic, never return
//! non-finite factors.
//! The lite mode (Miri / memcheck) keeps every order and reads every output element: the slice
//! substitution routines write into `set_len` buffers.
use crate::gen::Rng;
use crate::oracle::dd::Dd;
use crate::oracle::{exact, linref};
use crate::report::{guard, jf, jnum, par_cases, same_bits_slice, Cfg, Hasher, Report};
use compute::linalg::{backward_substitution, cholesky, cholesky_solve, forward_substitution, lu, lu_solve, solve, Matrix, Solve, Vector};
use serde_json::{json, Value};

/// rounding-bound constant: every bound below is C · n · ε · (scale named at the check)
const C: f64 = 16.0;
const EPS: f64 = f64::EPSILON;

// ------------------------------------------------------------------------------------------------
// helpers (row-major)

fn max_abs(x: &[f64]) -> f64 {
    x.iter().fold(0.0f64, |m, v| if v.is_nan() { f64::NAN } else { m.max(v.abs()) })
}
fn all_finite(x: &[f64]) -> bool {
    x.iter().all(|v| v.is_finite())
}
fn col(m: &[f64], n: usize, k: usize, j: usize) -> Vec<f64> {
    (0..n).map(|i| m[i * k + j]).collect()
}
fn is_diagonal(a: &[f64], n: usize) -> bool {
    (0..n).all(|i| (0..n).all(|j| i == j || a[i * n + j] == 0.0))
}

/// |Σ_t x_t·y_t − c| with the sum in double-double. Under Miri a double-double operation costs about a
/// millisecond, so there the sum is taken in plain f64: its own rounding error is at most
/// (len+1)·ε/2·(Σ|x_t·y_t| + |c|), which adds less than 1 to ratios that are compared with C = 16.
fn sum_prod_minus(c: f64, len: usize, term: impl Fn(usize) -> (f64, f64)) -> f64 {
    if cfg!(miri) {
        let mut s = -c;
        for t in 0..len {
            let (x, y) = term(t);
            s += x * y;
        }
        s.abs()
    } else {
        let mut s = Dd::new(-c);
        for t in 0..len {
            let (x, y) = term(t);
            s = s + Dd::prod(x, y);
        }
        s.f().abs()
    }
}

/// κ∞(A) from an inverse computed in double-double (natively) or by plain f64 Gauss–Jordan with
/// partial pivoting (Miri; only used as a gate / forward-error scale, where 1e-16·κ accuracy suffices)
fn cond_inf(a: &[f64], n: usize) -> f64 {
    if !cfg!(miri) {
        return linref::cond_inf(a, n);
    }
    let mut m = a.to_vec();
    let mut inv = vec![0.0; n * n];
    for i in 0..n {
        inv[i * n + i] = 1.0;
    }
    for c in 0..n {
        let mut p = c;
        for r in c + 1..n {
            if m[r * n + c].abs() > m[p * n + c].abs() {
                p = r;
            }
        }
        if m[p * n + c] == 0.0 || !m[p * n + c].is_finite() {
            return f64::INFINITY;
        }
        if p != c {
            for j in 0..n {
                m.swap(p * n + j, c * n + j);
                inv.swap(p * n + j, c * n + j);
            }
        }
        let piv = m[c * n + c];
        for j in 0..n {
            m[c * n + j] /= piv;
            inv[c * n + j] /= piv;
        }
        for r in 0..n {
            if r != c && m[r * n + c] != 0.0 {
                let f = m[r * n + c];
                for j in 0..n {
                    m[r * n + j] -= f * m[c * n + j];
                    inv[r * n + j] -= f * inv[c * n + j];
                }
            }
        }
    }
    linref::inf_norm(a, n, n) * linref::inf_norm(&inv, n, n)
}

/// ‖A·x − b‖∞ / (‖A‖∞‖x‖∞ + ‖b‖∞), residual in double-double; +inf for a non-finite or mis-sized x.
/// Every element of `x` is read.
fn backward_error(a: &[f64], n: usize, x: &[f64], b: &[f64]) -> f64 {
    if x.len() != n || !all_finite(x) {
        return f64::INFINITY;
    }
    let mut r = 0.0f64;
    for i in 0..n {
        let v = sum_prod_minus(b[i], n, |t| (a[i * n + t], x[t]));
        if v.is_nan() {
            return f64::INFINITY;
        }
        r = r.max(v);
    }
    let den = linref::inf_norm(a, n, n) * max_abs(x) + max_abs(b);
    if den == 0.0 {
        if r == 0.0 {
            0.0
        } else {
            f64::INFINITY
        }
    } else {
        r / den
    }
}

/// cheap order-sensitive digest of the bit patterns (the byte-wise `Hasher::fs` costs 3 ms per float under Miri)
fn bits_digest(xs: &[f64]) -> u64 {
    let mut h: u64 = 0x9E3779B97F4A7C15;
    for x in xs {
        h = (h.rotate_left(5) ^ x.to_bits()).wrapping_mul(0x100000001b3);
    }
    h
}

/// sign of the permutation `p` (must be a permutation of 0..n) by cycle counting, and its longest cycle
fn perm_sign_cycles(p: &[usize]) -> (f64, usize) {
    let n = p.len();
    let mut seen = vec![false; n];
    let mut sign = 1.0;
    let mut longest = 0;
    for i in 0..n {
        if seen[i] {
            continue;
        }
        let mut len = 0;
        let mut j = i;
        while !seen[j] {
            seen[j] = true;
            j = p[j];
            len += 1;
        }
        if len % 2 == 0 {
            sign = -sign;
        }
        longest = longest.max(len);
    }
    (sign, longest)
}

fn as_perm(piv: &[i32], n: usize) -> Option<Vec<usize>> {
    if piv.len() != n {
        return None;
    }
    let mut seen = vec![false; n];
    let mut out = Vec::with_capacity(n);
    for &p in piv {
        if p < 0 || p as usize >= n || seen[p as usize] {
            return None;
        }
        seen[p as usize] = true;
        out.push(p as usize);
    }
    Some(out)
}

fn rhs(rng: &mut Rng, n: usize) -> Vec<f64> {
    (0..n).map(|i| (0.25 + rng.f64()) * (1.0 + i as f64 * 0.125) * if rng.chance(0.3) { -1.0 } else { 1.0 }).collect()
}

fn mat(a: &[f64], n: usize) -> Matrix {
    Matrix::new(a.to_vec(), n as i32, n as i32)
}

fn detail(class: &str, how: &str, n: usize, a: &[f64], observed: Value) -> Value {
    json!({"class": class, "how": how, "n": n, "A": jf(a), "observed": observed})
}

/// assertion ids of one solve routine (static strings: `format!` costs milliseconds under Miri)
struct SolveIds {
    no_panic: &'static str,
    residual: &'static str,
    note: &'static str,
}
const CHOLESKY_SOLVE: SolveIds = SolveIds { no_panic: "C11.cholesky_solve.no_panic", residual: "C11.cholesky_solve.residual", note: "worst_ratio.cholesky_solve.backward_error_over_n_eps" };
const SOLVE_SPD: SolveIds = SolveIds { no_panic: "C11.solve_spd.no_panic", residual: "C11.solve_spd.residual", note: "worst_ratio.solve_spd.backward_error_over_n_eps" };
const LU_SOLVE: SolveIds = SolveIds { no_panic: "C11.lu_solve.no_panic", residual: "C11.lu_solve.residual", note: "worst_ratio.lu_solve.backward_error_over_n_eps" };
const FORWARD_SUBST: SolveIds = SolveIds { no_panic: "C11.forward_substitution.no_panic", residual: "C11.forward_substitution.residual", note: "worst_ratio.forward_substitution.backward_error_over_n_eps" };
const BACKWARD_SUBST: SolveIds = SolveIds { no_panic: "C11.backward_substitution.no_panic", residual: "C11.backward_substitution.residual", note: "worst_ratio.backward_substitution.backward_error_over_n_eps" };

/// one residual assertion shared by all triangular / factor solves; records headroom
fn check_solve(rep: &mut Report, ids: &SolveIds, regime: &str, how: &str, form: &str, a: &[f64], n: usize, x: &Result<Vec<f64>, String>, b: &[f64]) -> bool {
    match x {
        Err(e) => {
            rep.check(ids.no_panic, regime, false, || detail(regime, how, n, a, json!({"form": form, "b": jf(b), "panic": e})));
            false
        }
        Ok(x) => {
            let be = backward_error(a, n, x, b);
            let tol = C * n as f64 * EPS;
            let ok = be <= tol;
            if ok {
                rep.note_max(ids.note, be / (n as f64 * EPS));
            }
            rep.check(ids.residual, regime, ok, || {
                detail(regime, how, n, a, json!({"form": form, "b": jf(b), "x": jf(x), "len": x.len(), "backward_error": jnum(be), "bound": tol}))
            })
        }
    }
}

// ------------------------------------------------------------------------------------------------
// generators

fn gen_spd(rng: &mut Rng, n: usize) -> (Vec<f64>, String) {
    let integer = rng.chance(0.25);
    let g: Vec<f64> = if integer { rng.ints(n * n, -3, 3) } else { (0..n * n).map(|_| rng.range(-1.0, 1.0)).collect() };
    let mut a = vec![0.0; n * n];
    for i in 0..n {
        for j in i..n {
            let mut s = 0.0;
            for t in 0..n {
                s += g[t * n + i] * g[t * n + j];
            }
            a[i * n + j] = s;
            a[j * n + i] = s;
        }
    }
    if integer {
        let d = rng.int(1, 4) as f64;
        for i in 0..n {
            a[i * n + i] += d;
        }
        return (a, format!("G^T G + {} I with integer G (entries -3..3)", d));
    }
    let u = rng.range(0.0, 8.0);
    let delta = (linref::inf_norm(&a, n, n) * 10f64.powf(-u)).max(f64::MIN_POSITIVE);
    for i in 0..n {
        a[i * n + i] += delta;
    }
    (a, format!("G^T G + delta I, G uniform(-1,1), delta = |G^T G|_inf * 1e-{:.2} (cond <= 1e8)", u))
}

fn gen_sym_indef(rng: &mut Rng, n: usize) -> Vec<f64> {
    let mut a = vec![0.0; n * n];
    for i in 0..n {
        for j in i..n {
            let v = if i == j { rng.range(0.1, 1.0) } else { rng.range(-1.0, 1.0) };
            a[i * n + j] = v;
            a[j * n + i] = v;
        }
    }
    let p = rng.usize(0, n - 2);
    let q = rng.usize(p + 1, n - 1);
    let v = rng.range(1.25, 2.0) * (a[p * n + p] * a[q * n + q]).sqrt() * if rng.bool() { 1.0 } else { -1.0 };
    a[p * n + q] = v;
    a[q * n + p] = v;
    a
}

/// exactly singular positive semi-definite integer matrix with positive diagonal: G·Gᵀ, G n×r, r < n
fn gen_psd_singular(rng: &mut Rng, n: usize) -> (Vec<f64>, String) {
    let r = rng.usize(1, n - 1);
    let mut g = rng.ints(n * r, -2, 2);
    for i in 0..n {
        if (0..r).all(|t| g[i * r + t] == 0.0) {
            g[i * r] = if rng.bool() { 1.0 } else { -1.0 };
        }
    }
    let mut a = vec![0.0; n * n];
    for i in 0..n {
        for j in 0..n {
            a[i * n + j] = (0..r).map(|t| g[i * r + t] * g[j * r + t]).sum();
        }
    }
    (a, format!("G G^T with integer G {}x{} (rank <= {})", n, r, r))
}

const LU_CLASSES: [&str; 8] = [
    "lu:dense",
    "lu:integer",
    "lu:singular",
    "lu:rank-deficient",
    "lu:zero-leading",
    "lu:perm-matrix",
    "lu:sym-indef-posdiag",
    "lu:diag-dominant",
];

struct LuInput {
    regime: &'static str,
    how: String,
    n: usize,
    a: Vec<f64>,
    /// every entry is an integer (exact determinant by Bareiss when the order allows)
    integer: bool,
    /// elimination stays exact (0/±2^k entries, one per row and column): determinant known exactly
    exact_det: Option<f64>,
}

fn perm_matrix(sigma: &[usize], vals: &[f64]) -> Vec<f64> {
    let n = sigma.len();
    let mut a = vec![0.0; n * n];
    for i in 0..n {
        a[i * n + sigma[i]] = vals[i];
    }
    a
}

fn gen_lu(rng: &mut Rng, class: &'static str, n: usize, alt: bool) -> LuInput {
    let mut regime = class;
    let mut integer = false;
    let mut exact_det = None;
    let (a, how): (Vec<f64>, String) = match class {
        "lu:dense" => {
            let scale = rng.log_range(1e-3, 1e3);
            ((0..n * n).map(|_| scale * rng.range(-1.0, 1.0)).collect(), format!("uniform(-1,1) x {:e}", scale))
        }
        "lu:integer" => {
            integer = true;
            (rng.ints(n * n, -5, 5), "integer entries -5..5".into())
        }
        "lu:singular" => {
            integer = true;
            let mut a = rng.ints(n * n, -5, 5);
            let kind = rng.usize(0, 4);
            let p = rng.usize(0, n - 1);
            let q = if n > 1 { (p + rng.usize(1, n - 1)) % n } else { p };
            let how = match kind {
                0 => {
                    (0..n).for_each(|j| a[p * n + j] = 0.0);
                    format!("integer -5..5, row {} zero", p)
                }
                1 => {
                    (0..n).for_each(|i| a[i * n + p] = 0.0);
                    format!("integer -5..5, column {} zero", p)
                }
                2 if n > 1 => {
                    (0..n).for_each(|j| a[q * n + j] = a[p * n + j]);
                    format!("integer -5..5, row {} = row {}", q, p)
                }
                3 if n > 1 => {
                    (0..n).for_each(|i| a[i * n + q] = a[i * n + p]);
                    format!("integer -5..5, column {} = column {}", q, p)
                }
                _ if n > 2 => {
                    let r = (0..n).find(|&r| r != p && r != q).unwrap();
                    (0..n).for_each(|j| a[r * n + j] = a[p * n + j] - a[q * n + j]);
                    format!("integer, row {} = row {} - row {}", r, p, q)
                }
                _ => {
                    a.iter_mut().for_each(|v| *v = 0.0);
                    "zero matrix".to_string()
                }
            };
            (a, how)
        }
        "lu:rank-deficient" => {
            integer = true;
            if n == 1 {
                (vec![0.0], "zero 1x1".into())
            } else {
                let r = rng.usize(1, n - 1);
                let b = rng.ints(n * r, -1, 1);
                let c = rng.ints(r * n, -1, 1);
                let mut a = vec![0.0; n * n];
                for i in 0..n {
                    for j in 0..n {
                        a[i * n + j] = (0..r).map(|t| b[i * r + t] * c[t * n + j]).sum();
                    }
                }
                (a, format!("B·C with B {}x{}, C {}x{}, entries -1..1 (rank <= {})", n, r, r, n, r))
            }
        }
        "lu:zero-leading" => {
            integer = rng.bool();
            let mut a: Vec<f64> = if integer { rng.ints(n * n, -5, 5) } else { (0..n * n).map(|_| rng.range(-1.0, 1.0)).collect() };
            let m = rng.usize(1, (n / 2).max(1));
            for i in 0..m {
                for j in 0..m {
                    a[i * n + j] = 0.0;
                }
            }
            (a, format!("{} entries, leading {}x{} block zero", if integer { "integer -5..5" } else { "uniform(-1,1)" }, m, m))
        }
        "lu:perm-matrix" => {
            let sigma = rng.perm(n);
            let (sg, _) = perm_sign_cycles(&sigma);
            if !alt {
                integer = true;
                exact_det = Some(sg);
                (perm_matrix(&sigma, &vec![1.0; n]), format!("permutation matrix, sigma = {:?}", sigma))
            } else {
                regime = "lu:perm-scaled";
                let vals: Vec<f64> = (0..n).map(|_| 2f64.powi(rng.int(-3, 3) as i32) * if rng.bool() { 1.0 } else { -1.0 }).collect();
                exact_det = Some(vals.iter().fold(sg, |acc, v| acc * v));
                (perm_matrix(&sigma, &vals), format!("A[i][sigma(i)] = ±2^k, sigma = {:?}", sigma))
            }
        }
        "lu:sym-indef-posdiag" => {
            if n == 1 {
                (vec![rng.range(0.1, 1.0)], "1x1 positive".into())
            } else {
                (gen_sym_indef(rng, n), "symmetric uniform(-1,1), diagonal in (0.1,1), one 2x2 principal minor negative".into())
            }
        }
        _ => {
            let mut a: Vec<f64> = (0..n * n).map(|_| rng.range(-1.0, 1.0)).collect();
            for i in 0..n {
                let off: f64 = (0..n).filter(|&j| j != i).map(|j| a[i * n + j].abs()).sum();
                let d = off + rng.range(0.1, 1.0);
                a[i * n + i] = if rng.bool() { d } else { -d };
            }
            (a, "strictly row diagonally dominant (no row exchange needed)".into())
        }
    };
    // the absolute scale of the input is arbitrary: non-integer classes are sometimes multiplied by a
    // power of two (exact; L is unchanged and U scales), far below and above 1
    let (mut a, mut how) = (a, how);
    if !integer && exact_det.is_none() && rng.chance(0.25) {
        let k = rng.int(40, 200) as i32 * if rng.bool() { 1 } else { -1 };
        let f = 2f64.powi(k);
        a.iter_mut().for_each(|v| *v *= f);
        how = format!("{} x 2^{}", how, k);
    }
    LuInput { regime, how, n, a, integer, exact_det }
}

// ------------------------------------------------------------------------------------------------
// Cholesky on SPD input

fn check_chol_factor(rep: &mut Report, regime: &str, how: &str, form: &str, a: &[f64], n: usize, l: &[f64]) -> bool {
    let d = |obs: Value| detail(regime, how, n, a, obs);
    if !rep.check("C11.chol.shape", regime, l.len() == n * n, || d(json!({"form": form, "len": l.len()}))) {
        return false;
    }
    let fin = rep.check("C11.chol.finite", regime, all_finite(l), || d(json!({"form": form, "L": jf(l)})));
    let lower = (0..n).all(|i| (i + 1..n).all(|j| l[i * n + j] == 0.0));
    rep.check("C11.chol.lower_triangular", regime, lower, || d(json!({"form": form, "L": jf(l)})));
    let posdiag = (0..n).all(|i| l[i * n + i] > 0.0);
    rep.check("C11.chol.diag_positive", regime, posdiag, || d(json!({"form": form, "diag": jf(&(0..n).map(|i| l[i * n + i]).collect::<Vec<_>>())})));
    if !fin {
        return false;
    }
    // ‖L·Lᵀ − A‖∞ ≤ C·n·ε·‖A‖∞ (lower triangle of L only, so a stray upper entry is reported once, above)
    let mut worst = 0.0f64;
    for i in 0..n {
        let mut row = 0.0;
        for j in 0..n {
            row += sum_prod_minus(a[i * n + j], i.min(j) + 1, |t| (l[i * n + t], l[j * n + t]));
        }
        worst = worst.max(row);
    }
    let scale = linref::inf_norm(a, n, n);
    let tol = C * n as f64 * EPS * scale;
    let ok = worst <= tol;
    if ok && scale > 0.0 {
        rep.note_max("worst_ratio.chol.reconstruct_over_n_eps_normA", worst / (n as f64 * EPS * scale));
    }
    rep.check("C11.chol.reconstruct", regime, ok, || d(json!({"form": form, "L": jf(l), "norm_LLt_minus_A": jnum(worst), "bound": jnum(tol)})));
    ok && lower && posdiag
}

/// SPD with exact zeros where fill-in occurs (arrowhead / grid-Laplacian pattern / band with holes),
/// strictly diagonally dominant with positive diagonal.
fn gen_spd_sparse(rng: &mut Rng, n: usize) -> (Vec<f64>, String) {
    let mut a = vec![0.0; n * n];
    let how;
    match rng.usize(0, 2) {
        0 => {
            let hub = if rng.bool() { 0 } else { n - 1 };
            for i in 0..n {
                if i != hub {
                    let v = rng.range(-1.0, 1.0);
                    a[i * n + hub] = v;
                    a[hub * n + i] = v;
                }
            }
            how = format!("arrowhead (hub {})", hub);
        }
        1 => {
            let w = ((n as f64).sqrt().ceil() as usize).max(1);
            for i in 0..n {
                for &j in &[i + 1, i + w] {
                    if j < n && !(j == i + 1 && j % w == 0) {
                        let v = -rng.range(0.5, 1.0);
                        a[i * n + j] = v;
                        a[j * n + i] = v;
                    }
                }
            }
            how = format!("grid-Laplacian pattern, width {}", w);
        }
        _ => {
            let bw = rng.usize(1, n.max(2) - 1).min(6);
            for i in 0..n {
                for j in i + 1..(i + 1 + bw).min(n) {
                    if rng.chance(0.6) {
                        let v = rng.range(-1.0, 1.0);
                        a[i * n + j] = v;
                        a[j * n + i] = v;
                    }
                }
            }
            how = format!("band {} with random holes", bw);
        }
    }
    for i in 0..n {
        let off: f64 = (0..n).filter(|&j| j != i).map(|j| a[i * n + j].abs()).sum();
        a[i * n + i] = off + rng.range(0.1, 1.0);
    }
    (a, format!("sparse SPD with exact zeros: {}", how))
}

fn chol_case(rep: &mut Report, rng: &mut Rng, n: usize) {
    let (mut a, mut how) = if rng.chance(0.3) { gen_spd_sparse(rng, n) } else { gen_spd(rng, n) };
    if how.starts_with("sparse") {
        rep.seen("chol-spd:sparse-with-fill-in", 1);
    }
    // the absolute scale of the input is arbitrary: sometimes multiply by a power of two (exact)
    if rng.chance(0.25) {
        let k = rng.int(40, 200) as i32 * if rng.bool() { 1 } else { -1 };
        let f = 2f64.powi(k);
        a.iter_mut().for_each(|v| *v *= f);
        how = format!("{} x 2^{}", how, k);
        rep.seen("chol-spd:scaled-2^k", 1);
    }
    chol_check(rep, rng, n, a, how);
}

fn chol_check(rep: &mut Report, rng: &mut Rng, n: usize, a: Vec<f64>, how: String) {
    chol_check_in(rep, rng, "chol-spd", n, a, how)
}

fn chol_check_in(rep: &mut Report, rng: &mut Rng, regime: &'static str, n: usize, a: Vec<f64>, how: String) {
    // bit-identity of the two implementations is filed per order band: the Matrix form takes dot
    // products of whole zero-padded rows, the slice form of prefixes; with the 8-way unrolled `dot`
    // the two summation orders coincide up to order 15 and differ from order 16 on
    rep.case(regime);
    rep.distinct(Hasher::new().s(regime).u(n as u64).u(bits_digest(&a)).finish(), n >= 2 && !is_diagonal(&a, n));
    let m = mat(&a, n);
    let ls = guard(|| cholesky(&a));
    let lm = guard(|| m.cholesky());
    for (form, r) in [("slice", ls.as_ref().map(|v| v.clone())), ("Matrix", lm.as_ref().map(|v| v.data.to_vec()))] {
        match r {
            Err(e) => {
                rep.check("C11.chol.no_panic", regime, false, || detail(regime, &how, n, &a, json!({"form": form, "panic": e})));
            }
            Ok(l) => {
                rep.check("C11.chol.no_panic", regime, true, || json!(null));
                check_chol_factor(rep, regime, &how, form, &a, n, &l);
                if regime == GRADED_SPD && l.len() == n * n && all_finite(&l) {
                    check_chol_scaled(rep, regime, &how, form, &a, n, &l);
                }
            }
        }
    }
    if let (Ok(ls), Ok(lm)) = (&ls, &lm) {
        let band = if n <= 15 { "chol-spd:order<=15" } else { "chol-spd:order>=16" };
        rep.seen(band, 1);
        let same = same_bits_slice(ls, &lm.data) && lm.nrows == n && lm.ncols == n;
        rep.check("C11.chol.slice_eq_matrix", band, same, || {
            let k = (0..ls.len().min(lm.data.len())).find(|&k| ls[k].to_bits() != lm.data[k].to_bits());
            detail(band, &how, n, &a, json!({"first_differing_index": k, "slice": k.map(|k| jnum(ls[k])), "Matrix": k.map(|k| jnum(lm.data[k])),
                "ulps_apart": k.map(|k| (ls[k].to_bits() as i64 - lm.data[k].to_bits() as i64).abs())}))
        });
        // whatever the summation order, the two factors may differ by rounding only
        if ls.len() == lm.data.len() && all_finite(ls) {
            let scale = max_abs(ls);
            let dmax = ls.iter().zip(lm.data.iter()).fold(0.0f64, |w, (x, y)| w.max((x - y).abs()));
            let kappa_room = C * n as f64 * EPS * scale * 1e8; // forward error of a Cholesky factor is κ-scaled, κ ≤ 1e8 here
            rep.check("C11.chol.slice_close_to_matrix", regime, dmax <= kappa_room, || detail(regime, &how, n, &a, json!({"max_abs_difference": jnum(dmax), "bound": jnum(kappa_room)})));
        }
    }
    // factor solves and the routed solver, every output element read by the residual
    let b = rhs(rng, n);
    if let Ok(l) = &ls {
        if all_finite(l) && l.len() == n * n {
            let x = guard(|| cholesky_solve(l, &b));
            check_solve(rep, &CHOLESKY_SOLVE, regime, &how, "slice", &a, n, &x, &b);
        }
    }
    if let Ok(l) = &lm {
        if all_finite(&l.data) && l.data.len() == n * n && l.is_lower_triangular() {
            let bv = Vector::new(b.clone());
            let x = guard(|| l.cholesky_solve(&bv).to_vec());
            check_solve(rep, &CHOLESKY_SOLVE, regime, &how, "Matrix/Vector", &a, n, &x, &b);
            // two columns with different content
            let b2: Vec<f64> = b.iter().rev().map(|v| -3.0 * v).collect();
            let mut bb = vec![0.0; n * 2];
            for i in 0..n {
                bb[i * 2] = b[i];
                bb[i * 2 + 1] = b2[i];
            }
            let bm = Matrix::new(bb, n as i32, 2);
            match guard(|| l.cholesky_solve(&bm)) {
                Ok(x) => {
                    let shape_ok = x.nrows == n && x.ncols == 2 && x.data.len() == 2 * n;
                    rep.check("C11.cholesky_solve.shape", regime, shape_ok, || detail(regime, &how, n, &a, json!({"shape": [x.nrows, x.ncols]})));
                    if shape_ok {
                        check_solve(rep, &CHOLESKY_SOLVE, regime, &how, "Matrix/Matrix col 0", &a, n, &Ok(col(&x.data, n, 2, 0)), &b);
                        check_solve(rep, &CHOLESKY_SOLVE, regime, &how, "Matrix/Matrix col 1", &a, n, &Ok(col(&x.data, n, 2, 1)), &b2);
                    }
                }
                Err(e) => {
                    check_solve(rep, &CHOLESKY_SOLVE, regime, &how, "Matrix/Matrix", &a, n, &Err(e), &b);
                }
            }
        }
    }
    let x = guard(|| solve(&a, &b));
    check_solve(rep, &SOLVE_SPD, regime, &how, "solve (routed)", &a, n, &x, &b);
    rep.sample(|| json!({"class": regime, "how": how, "n": n}));
}

// ------------------------------------------------------------------------------------------------
// input that is not positive definite must be rejected

fn nonpd_case(rep: &mut Report, rng: &mut Rng, n: usize, psd: bool) {
    let (a, how) = if psd {
        gen_psd_singular(rng, n)
    } else {
        (gen_sym_indef(rng, n), "symmetric uniform(-1,1), diagonal in (0.1,1), one 2x2 principal minor negative".to_string())
    };
    nonpd_check(rep, n, psd, &a, &how);
}

fn nonpd_check(rep: &mut Report, n: usize, psd: bool, a: &[f64], how: &str) {
    nonpd_check_in(rep, if psd { "chol-nonpd:psd-singular" } else { "chol-nonpd:sym-indef-posdiag" }, n, a, how)
}

// ------------------------------------------------------------------------------------------------
// badly scaled input: row/column scalings D·A·D and entries spanning hundreds of decades

const GRADED_SPD: &str = "chol-spd:graded";
const NONPD_CONGRUENCE: &str = "chol-nonpd:graded-congruence";
const NONPD_WILD: &str = "chol-nonpd:wild-entries";
const NONPD_BORDERED: &str = "chol-nonpd:spd-block-wild-border";

/// D·A·D with D = diag(2^k_i), k_i uniform in -kmax..=kmax (exact: a congruence, so definiteness and
/// the exact Cholesky factor D·L carry over as long as nothing leaves the normal range)
fn congruence_scale(rng: &mut Rng, a: &mut [f64], n: usize, kmax: i64) -> Vec<i32> {
    let k: Vec<i32> = (0..n).map(|_| rng.int(-kmax, kmax) as i32).collect();
    for i in 0..n {
        for j in 0..n {
            a[i * n + j] = a[i * n + j] * 2f64.powi(k[i]) * 2f64.powi(k[j]);
        }
    }
    k
}

/// ±10^u with u uniform in [lo, hi]
fn wild(rng: &mut Rng, lo: f64, hi: f64) -> f64 {
    10f64.powf(rng.range(lo, hi)) * if rng.bool() { 1.0 } else { -1.0 }
}

/// Make the 2x2 principal minor (p, q) negative by raising |a_pq| above sqrt(a_pp·a_qq) (factor
/// 10^0.1..10^2, computed on the exponents so that nothing overflows); true if the final entries
/// certify a_pq² > a_pp·a_qq with margin, which makes the matrix not positive (semi-)definite.
fn force_negative_minor(rng: &mut Rng, a: &mut [f64], n: usize, p: usize, q: usize) -> bool {
    let need = 0.5 * (a[p * n + p].log10() + a[q * n + q].log10()) + rng.range(0.1, 2.0);
    if a[p * n + q].abs().log10() < need {
        let v = 10f64.powf(need) * if rng.bool() { 1.0 } else { -1.0 };
        a[p * n + q] = v;
        a[q * n + p] = v;
    }
    let v = a[p * n + q];
    v.is_finite() && 2.0 * v.abs().log10() - a[p * n + p].log10() - a[q * n + q].log10() >= 0.05
}

/// Symmetric, positive diagonal, not positive definite, at wild scales. Three constructions:
/// congruence-scaled indefinite matrices; symmetric matrices whose entries have independent magnitudes
/// 10^u over up to 550 decades; a (possibly congruence-graded) SPD leading block bordered by rows of
/// such independent magnitudes (the loss of definiteness is only met after some good pivots).
fn gen_nonpd_graded(rng: &mut Rng, regime: &'static str, n: usize) -> Option<(Vec<f64>, String)> {
    let span = *rng.choose(&[(5.0, 5.0), (40.0, 40.0), (150.0, 150.0), (300.0, 250.0)]);
    match regime {
        NONPD_CONGRUENCE => {
            let mut a = gen_sym_indef(rng, n);
            let kmax = *rng.choose(&[10i64, 60, 200, 498]);
            let k = congruence_scale(rng, &mut a, n, kmax);
            // the defining minor must have survived the scaling (it does unless an entry left the normal range)
            let bad = (0..n).any(|p| (p + 1..n).any(|q| 2.0 * a[p * n + q].abs().log10() - a[p * n + p].log10() - a[q * n + q].log10() >= 0.05));
            if !bad || !all_finite(&a) || (0..n).any(|i| !(a[i * n + i] > 0.0)) {
                return None;
            }
            Some((a, format!("D·A·D, A symmetric uniform(-1,1) with diagonal in (0.1,1) and one negative 2x2 principal minor, D = diag(2^k), k = {:?}", k)))
        }
        NONPD_WILD => {
            let (lo, hi) = span;
            let mut a = vec![0.0; n * n];
            for i in 0..n {
                for j in i..n {
                    let v = if i == j { wild(rng, -lo, hi).abs() } else { wild(rng, -lo, hi) };
                    a[i * n + j] = v;
                    a[j * n + i] = v;
                }
            }
            let p = rng.usize(0, n - 2);
            let q = rng.usize(p + 1, n - 1);
            if !force_negative_minor(rng, &mut a, n, p, q) {
                return None;
            }
            Some((a, format!("symmetric, entries ±10^u with independent u in [-{}, {}], positive diagonal, 2x2 principal minor ({},{}) negative", lo, hi, p, q)))
        }
        _ => {
            let (lo, hi) = span;
            let r = rng.usize(1, n - 1);
            let (s, show) = if rng.chance(0.4) { gen_spd_sparse(rng, r) } else { gen_spd(rng, r) };
            let mut s = s;
            let kmax = *rng.choose(&[0i64, 60, 200, 498]);
            let k = congruence_scale(rng, &mut s, r, kmax);
            let mut a = vec![0.0; n * n];
            for i in 0..n {
                for j in i..n {
                    let v = if i < r && j < r {
                        s[i * r + j]
                    } else if i == j {
                        wild(rng, -lo, hi).abs()
                    } else {
                        wild(rng, -lo, hi)
                    };
                    a[i * n + j] = v;
                    a[j * n + i] = v;
                }
            }
            // a negative 2x2 minor that involves a border row, so the leading block stays definite
            let q = rng.usize(r, n - 1);
            let p = if q > r && rng.bool() { rng.usize(r, q - 1) } else { rng.usize(0, r - 1) };
            if !all_finite(&a) || (0..n).any(|i| !(a[i * n + i] > 0.0)) || !force_negative_minor(rng, &mut a, n, p, q) {
                return None;
            }
            Some((a, format!("leading {}x{} block D·S·D with S = {} and D = diag(2^k), k = {:?}; the other rows/columns ±10^u with independent u in [-{}, {}], positive diagonal, 2x2 principal minor ({},{}) negative", r, r, show, k, lo, hi, p, q)))
        }
    }
}

/// positive definite with the same row/column gradings: D·S·D, S SPD (dense or sparse), D = diag(2^k)
fn gen_spd_graded(rng: &mut Rng, n: usize) -> (Vec<f64>, String) {
    let (mut a, show) = if rng.chance(0.3) { gen_spd_sparse(rng, n) } else { gen_spd(rng, n) };
    let kmax = *rng.choose(&[10i64, 60, 120, 200]);
    let k = congruence_scale(rng, &mut a, n, kmax);
    (a, format!("D·S·D with S = {} and D = diag(2^k), k = {:?}", show, k))
}

/// On graded input the normwise reconstruction bound says nothing about the small rows; the
/// factorisation is backward stable entry by entry relative to sqrt(a_ii·a_jj) (|ΔA| ≤ γ_{n+1}|L||Lᵀ|
/// and (|L||Lᵀ|)_ij ≤ ‖l_i‖‖l_j‖ ≈ sqrt(a_ii·a_jj)), a bound that is invariant under D·A·D.
fn check_chol_scaled(rep: &mut Report, regime: &str, how: &str, form: &str, a: &[f64], n: usize, l: &[f64]) {
    let mut worst = 0.0f64;
    for i in 0..n {
        for j in 0..=i {
            let e = sum_prod_minus(a[i * n + j], j + 1, |t| (l[i * n + t], l[j * n + t]));
            let sc = a[i * n + i].sqrt() * a[j * n + j].sqrt();
            let r = e / sc;
            worst = if r.is_nan() { f64::INFINITY } else { worst.max(r) };
        }
    }
    let tol = C * n as f64 * EPS;
    let ok = worst <= tol;
    if ok {
        rep.note_max("worst_ratio.chol.graded.entrywise_reconstruct_over_n_eps_sqrt_aii_ajj", worst / (n as f64 * EPS));
    }
    rep.check("C11.chol.reconstruct_scaled", regime, ok, || detail(regime, how, n, a, json!({"form": form, "L": jf(l), "max_ij |(L L^T - A)_ij| / sqrt(a_ii a_jj)": jnum(worst), "bound": jnum(tol)})));
}

fn nonpd_check_in(rep: &mut Report, regime: &'static str, n: usize, a: &[f64], how: &str) {
    let (a, how) = (a.to_vec(), how.to_string());
    rep.case(regime);
    rep.distinct(Hasher::new().s(regime).u(n as u64).u(bits_digest(&a)).finish(), true);
    let m = mat(&a, n);
    let rs = guard(|| cholesky(&a));
    let rm = guard(|| m.cholesky().data.to_vec());
    for (form, assertion, r) in [("slice", "C11.chol.slice.rejects_nonpd", rs), ("Matrix", "C11.chol.matrix.rejects_nonpd", rm)] {
        match r {
            Err(_) => {
                rep.seen("chol-nonpd:outcome:panic", 1);
                rep.check(assertion, regime, true, || json!(null));
            }
            Ok(l) => {
                let fin = all_finite(&l);
                rep.seen(if fin { "chol-nonpd:outcome:finite-factor-returned" } else { "chol-nonpd:outcome:non-finite-factor-returned" }, 1);
                rep.check(assertion, regime, fin, || detail(regime, &how, n, &a, json!({"form": form, "returned_L": jf(&l), "expected": "panic (input is not positive definite)"})));
            }
        }
    }
}

// ------------------------------------------------------------------------------------------------
// LU, determinant, lu_solve

fn lu_case(rep: &mut Report, rng: &mut Rng, inp: &LuInput) {
    let (n, a, regime, how) = (inp.n, &inp.a, inp.regime, inp.how.as_str());
    rep.case(regime);
    rep.distinct(Hasher::new().s(regime).u(n as u64).u(bits_digest(a)).finish(), n >= 2 && !is_diagonal(a, n));
    let d = |obs: Value| detail(regime, how, n, a, obs);
    let m = mat(a, n);
    let rs = guard(|| lu(a));
    let rm = guard(|| m.lu());
    let ok_s = rep.check("C11.lu.no_panic", regime, rs.is_ok(), || d(json!({"form": "slice", "panic": rs.as_ref().err()})));
    let ok_m = rep.check("C11.lu.no_panic", regime, rm.is_ok(), || d(json!({"form": "Matrix", "panic": rm.as_ref().err()})));
    if !(ok_s && ok_m) {
        return;
    }
    let (lus, pivs) = rs.unwrap();
    let (lum, pivm) = rm.unwrap();
    let same = same_bits_slice(&lus, &lum.data) && pivs == pivm && lum.nrows == n && lum.ncols == n;
    rep.check("C11.lu.slice_eq_matrix", regime, same, || d(json!({"slice": {"lu": jf(&lus), "pivots": pivs}, "Matrix": {"lu": jf(&lum.data), "pivots": pivm}})));
    let mut structure_ok = true;
    let mut perm: Option<Vec<usize>> = None;
    for (form, f, piv) in [("slice", &lus[..], &pivs), ("Matrix", &lum.data[..], &pivm)] {
        if !rep.check("C11.lu.shape", regime, f.len() == n * n && piv.len() == n, || d(json!({"form": form, "len": f.len(), "pivots": piv}))) {
            structure_ok = false;
            continue;
        }
        structure_ok &= rep.check("C11.lu.finite", regime, all_finite(f), || d(json!({"form": form, "lu": jf(f)})));
        let p = as_perm(piv, n);
        structure_ok &= rep.check("C11.lu.pivots_permutation", regime, p.is_some(), || d(json!({"form": form, "pivots": piv})));
        let bounded = (0..n).all(|i| (0..i).all(|j| f[i * n + j].abs() <= 1.0));
        structure_ok &= rep.check("C11.lu.l_bounded", regime, bounded, || d(json!({"form": form, "lu": jf(f), "max_abs_l": jnum((0..n).flat_map(|i| (0..i).map(move |j| (i, j))).map(|(i, j)| f[i * n + j].abs()).fold(0.0, f64::max))})));
        if let (Some(p), true) = (&p, all_finite(f)) {
            // ‖P·A − L·U‖∞ ≤ C·n·ε·‖L‖∞‖U‖∞, row i of P·A is row pivots[i] of A
            let (mut worst, mut lnorm, mut unorm) = (0.0f64, 0.0f64, 0.0f64);
            for i in 0..n {
                let (mut row, mut lrow, mut urow) = (0.0, 1.0, 0.0);
                for j in 0..n {
                    row += sum_prod_minus(a[p[i] * n + j], i.min(j) + 1, |t| (if t == i { 1.0 } else { f[i * n + t] }, f[t * n + j]));
                    if j < i {
                        lrow += f[i * n + j].abs();
                    } else {
                        urow += f[i * n + j].abs();
                    }
                }
                worst = worst.max(row);
                lnorm = lnorm.max(lrow);
                unorm = unorm.max(urow);
            }
            let tol = C * n as f64 * EPS * lnorm * unorm;
            let ok = worst <= tol;
            if ok && tol > 0.0 {
                rep.note_max("worst_ratio.lu.reconstruct_over_n_eps_normL_normU", worst / (n as f64 * EPS * lnorm * unorm));
            }
            structure_ok &= rep.check("C11.lu.reconstruct", regime, ok, || d(json!({"form": form, "lu": jf(f), "pivots": piv, "norm_PA_minus_LU": jnum(worst), "bound": jnum(tol)})));
        }
        if form == "Matrix" {
            perm = p;
        }
    }

    // determinant: |det| = |Π u_ii|, sign = sign(pivots) · sign(Π u_ii); the sign assertion is filed
    // under the cycle structure of the pivot vector, which is what decides the parity
    let perm = match perm {
        Some(p) if all_finite(&lum.data) => p,
        _ => return,
    };
    let (hsign, longest) = perm_sign_cycles(&perm);
    let prod = (0..n).fold(1.0f64, |acc, i| acc * lum.data[i * n + i]);
    // a determinant outside the normal f64 range (scaled inputs) says nothing about the property
    if !prod.is_finite() || (prod != 0.0 && prod.abs() < 1e-290) {
        rep.seen("det:outside-f64-range(skipped)", 1);
        return;
    }
    let sign_regime = if longest >= 3 { "det:pivot-cycle>=3" } else { "det:pivot-involution" };
    rep.seen(sign_regime, 1);
    let dets = [("Matrix::det", guard(|| m.det())), ("Matrix::lu_det", guard(|| lum.lu_det(&pivm)))];
    for (which, r) in &dets {
        match r {
            Err(e) => {
                rep.check("C11.det.no_panic", regime, false, || d(json!({"which": which, "panic": e})));
            }
            Ok(det) => {
                let tol = C * n as f64 * EPS * prod.abs();
                let okm = (det.abs() - prod.abs()).abs() <= tol;
                rep.check("C11.det.magnitude", regime, okm, || d(json!({"which": which, "det": jnum(*det), "product_of_U_diagonal": jnum(prod), "pivots": pivm})));
                if prod != 0.0 && prod.is_finite() && okm {
                    let oks = det.signum() == hsign * prod.signum();
                    rep.check("C11.det.sign", sign_regime, oks, || {
                        d(json!({"which": which, "det": jnum(*det), "product_of_U_diagonal": jnum(prod), "pivots": pivm, "permutation_sign_by_cycle_count": hsign, "longest_pivot_cycle": longest}))
                    });
                }
            }
        }
    }
    // the signed product against the exact determinant
    let signed = hsign * prod;
    if let Some(ex) = inp.exact_det {
        rep.seen("det:exact-arithmetic-reference", 1);
        rep.check("C11.det.vs_exact", regime, signed == ex, || d(json!({"signed_product": jnum(signed), "exact_determinant": ex, "pivots": pivm, "lu": jf(&lum.data)})));
    } else if inp.integer && n <= if cfg!(miri) { 5 } else { 12 } {
        let ai: Vec<i64> = a.iter().map(|&v| v as i64).collect();
        if let (Some(ex), Some(cof)) = (exact::bareiss_det(&ai, n), exact::cofactors(&ai, n)) {
            rep.seen("det:bareiss-reference", 1);
            // first-order bound: P·A + E = L·U with |E| ≤ γ|L||U|  ⇒  |δdet| ≤ Σ_ij |E_ij|·|cofactor_ij(P·A)|
            let f = &lum.data;
            let mut acc = 0.0f64;
            for i in 0..n {
                for j in 0..n {
                    let mut lu_abs = 0.0;
                    for t in 0..=i.min(j) {
                        let lit = if t == i { 1.0 } else { f[i * n + t].abs() };
                        lu_abs += lit * f[t * n + j].abs();
                    }
                    acc += lu_abs * (cof[perm[i] * n + j] as f64).abs();
                }
            }
            let hadamard: f64 = (0..n).map(|i| (0..n).map(|j| a[i * n + j] * a[i * n + j]).sum::<f64>().sqrt()).product();
            let cne = C * n as f64 * EPS;
            let tol = cne * (acc + (ex as f64).abs()) + cne * cne * hadamard;
            let err = (signed - ex as f64).abs();
            let ok = err <= tol;
            if ok && tol > 0.0 {
                rep.note_max("worst_ratio.det.vs_exact_over_bound", err / tol);
            }
            rep.check("C11.det.vs_exact", regime, ok, || d(json!({"signed_product": jnum(signed), "exact_determinant": ex.to_string(), "error": jnum(err), "bound": jnum(tol), "pivots": pivm})));
        }
    }

    // lu_solve on the factors, only where the property promises a solution (nonsingular, moderate κ)
    if structure_ok && cond_inf(a, n) <= 1e10 {
        rep.seen("lu_solve:nonsingular-input", 1);
        let b = rhs(rng, n);
        let x = guard(|| lu_solve(&lus, &pivs, &b));
        check_solve(rep, &LU_SOLVE, regime, how, "slice", a, n, &x, &b);
        let bv = Vector::new(b.clone());
        let x = guard(|| lum.lu_solve(&pivm, &bv).to_vec());
        check_solve(rep, &LU_SOLVE, regime, how, "Matrix/Vector", a, n, &x, &b);
        let b2: Vec<f64> = b.iter().rev().map(|v| 5.0 * v).collect();
        let mut bb = vec![0.0; n * 2];
        for i in 0..n {
            bb[i * 2] = b2[i];
            bb[i * 2 + 1] = b[i];
        }
        let bm = Matrix::new(bb, n as i32, 2);
        match guard(|| lum.lu_solve(&pivm, &bm)) {
            Ok(x) => {
                let shape_ok = x.nrows == n && x.ncols == 2 && x.data.len() == 2 * n;
                rep.check("C11.lu_solve.shape", regime, shape_ok, || d(json!({"shape": [x.nrows, x.ncols]})));
                if shape_ok {
                    check_solve(rep, &LU_SOLVE, regime, how, "Matrix/Matrix col 0", a, n, &Ok(col(&x.data, n, 2, 0)), &b2);
                    check_solve(rep, &LU_SOLVE, regime, how, "Matrix/Matrix col 1", a, n, &Ok(col(&x.data, n, 2, 1)), &b);
                }
            }
            Err(e) => {
                check_solve(rep, &LU_SOLVE, regime, how, "Matrix/Matrix", a, n, &Err(e), &b);
            }
        }
    }
    rep.sample(|| json!({"class": regime, "how": how, "n": n, "pivots": pivm, "longest_pivot_cycle": longest}));
}

// ------------------------------------------------------------------------------------------------
// forward / backward substitution, both forms

fn subst_case(rep: &mut Report, rng: &mut Rng, n: usize) {
    let regime = "substitution";
    rep.case(regime);
    let scale = 2f64.powi(rng.int(-8, 8) as i32);
    let off = 1.0 / (n as f64).sqrt();
    let mut l = vec![0.0; n * n];
    let mut u = vec![0.0; n * n];
    for i in 0..n {
        for j in 0..n {
            let dg = scale * rng.range(1.0, 2.0) * if rng.bool() { 1.0 } else { -1.0 };
            let of = scale * off * rng.range(-1.0, 1.0);
            if i == j {
                l[i * n + j] = dg;
                u[i * n + j] = scale * rng.range(1.0, 2.0) * if rng.bool() { 1.0 } else { -1.0 };
            } else if j < i {
                l[i * n + j] = of;
            } else {
                u[i * n + j] = of;
            }
        }
    }
    rep.distinct(Hasher::new().s(regime).u(n as u64).u(bits_digest(&l)).u(bits_digest(&u)).finish(), n >= 2);
    let b = rhs(rng, n);
    let how = format!("triangular, |diagonal| in [1,2]·2^k, off-diagonal uniform(-1,1)·2^k/sqrt(n), 2^k = {}", scale);
    let x = guard(|| forward_substitution(&l, &b));
    check_solve(rep, &FORWARD_SUBST, regime, &how, "slice", &l, n, &x, &b);
    let lm = mat(&l, n);
    let x = guard(|| lm.forward_substitution(&b).to_vec());
    check_solve(rep, &FORWARD_SUBST, regime, &how, "Matrix", &l, n, &x, &b);
    let x = guard(|| backward_substitution(&u, &b));
    check_solve(rep, &BACKWARD_SUBST, regime, &how, "slice", &u, n, &x, &b);
    let um = mat(&u, n);
    let x = guard(|| um.backward_substitution(&b).to_vec());
    check_solve(rep, &BACKWARD_SUBST, regime, &how, "Matrix", &u, n, &x, &b);
}

// ------------------------------------------------------------------------------------------------
// structured right-hand sides (stream 9)
//
// "Triangular solves invert triangular systems" and the factor solves built on them are statements
// about every right-hand side, not only about dense ones: columns of the identity (an inverse is
// computed by solving against them), load vectors that start or end with zeros or have a zero block in
// the middle, a single non-zero entry, sparse signed vectors and the zero vector go through every
// triangular solve (slice and Matrix form, forward and backward), through `cholesky_solve` (slice,
// Matrix/Vector, Matrix/Matrix), the routed `solve` on SPD input and `lu_solve` (slice, Matrix/Vector,
// Matrix/Matrix). The regime is the structure of the right-hand side. Oracle: the same double-double
// residual / backward-error bound C·n·ε as for dense right-hand sides (a zero right-hand side has the
// zero solution: any other finite answer has a backward error of at least 1/κ); the slice-level and
// the Matrix-level answer to the same system have to agree within the κ-scaled forward bound.

const RS_UNIT: &str = "rhs-structure:unit-vector";
const RS_IDENTITY: &str = "rhs-structure:identity-multi-rhs";
const RS_LEADING: &str = "rhs-structure:leading-zeros";
const RS_TRAILING: &str = "rhs-structure:trailing-zeros";
const RS_MIDDLE: &str = "rhs-structure:zeros-in-the-middle";
const RS_SINGLE: &str = "rhs-structure:single-nonzero";
const RS_SPARSE: &str = "rhs-structure:sparse-signed";
const RS_ZERO: &str = "rhs-structure:all-zero";
const RS_ALL: [&str; 8] = [RS_UNIT, RS_IDENTITY, RS_LEADING, RS_TRAILING, RS_MIDDLE, RS_SINGLE, RS_SPARSE, RS_ZERO];
const RS_KINDS: [&str; 3] = ["rhs-structure:system=triangular", "rhs-structure:system=spd-cholesky", "rhs-structure:system=general-lu"];

const FORWARD_AGREE: (&str, &str) = ("C11.forward_substitution.slice_vs_matrix", "worst_ratio.forward_substitution.slice_vs_matrix");
const BACKWARD_AGREE: (&str, &str) = ("C11.backward_substitution.slice_vs_matrix", "worst_ratio.backward_substitution.slice_vs_matrix");
const CHOLESKY_SOLVE_AGREE: (&str, &str) = ("C11.cholesky_solve.slice_vs_matrix", "worst_ratio.cholesky_solve.slice_vs_matrix");
const CHOLESKY_SOLVE_MULTI_AGREE: (&str, &str) = ("C11.cholesky_solve.multi_vs_single", "worst_ratio.cholesky_solve.multi_vs_single");
const LU_SOLVE_AGREE: (&str, &str) = ("C11.lu_solve.slice_vs_matrix", "worst_ratio.lu_solve.slice_vs_matrix");
const LU_SOLVE_MULTI_AGREE: (&str, &str) = ("C11.lu_solve.multi_vs_single", "worst_ratio.lu_solve.multi_vs_single");

fn rhs_entry(rng: &mut Rng) -> f64 {
    (0.25 + rng.f64()) * if rng.chance(0.4) { -1.0 } else { 1.0 }
}

/// The structured right-hand sides of one system of order `n`: (regime, b). `few`: a sample of the unit
/// vectors (first, last, one in between) instead of all of them.
fn structured_rhs_list(rng: &mut Rng, n: usize, few: bool) -> Vec<(&'static str, Vec<f64>)> {
    let mut out: Vec<(&'static str, Vec<f64>)> = Vec::new();
    let mut units: Vec<usize> = if few { vec![0, n / 2, n - 1] } else { (0..n).collect() };
    units.dedup();
    for k in units {
        let mut b = vec![0.0; n];
        b[k] = 1.0;
        out.push((RS_UNIT, b));
    }
    if n >= 2 {
        let z = rng.usize(1, n - 1);
        out.push((RS_LEADING, (0..n).map(|i| if i < z { 0.0 } else { rhs_entry(rng) }).collect()));
        let z = rng.usize(1, n - 1);
        out.push((RS_TRAILING, (0..n).map(|i| if i >= n - z { 0.0 } else { rhs_entry(rng) }).collect()));
        let mut b: Vec<f64> = (0..n)
            .map(|_| {
                if rng.chance(0.25) {
                    if rng.bool() {
                        rhs_entry(rng)
                    } else if rng.bool() {
                        1.0
                    } else {
                        -1.0
                    }
                } else {
                    0.0
                }
            })
            .collect();
        // at least one non-zero and one zero entry
        let p = rng.usize(0, n - 1);
        if b.iter().all(|v| *v == 0.0) {
            b[p] = if rng.bool() { 1.0 } else { -1.0 };
        }
        if b.iter().all(|v| *v != 0.0) {
            b[p] = 0.0;
        }
        out.push((RS_SPARSE, b));
    }
    if n >= 3 {
        let p = rng.usize(1, n - 2);
        let q = rng.usize(p, n - 2);
        out.push((RS_MIDDLE, (0..n).map(|i| if i >= p && i <= q { 0.0 } else { rhs_entry(rng) }).collect()));
    }
    let mut b = vec![0.0; n];
    b[rng.usize(0, n - 1)] = rhs_entry(rng) * 2f64.powi(rng.int(-8, 8) as i32);
    out.push((RS_SINGLE, b));
    out.push((RS_ZERO, vec![0.0; n]));
    out
}

/// two answers to the same system, each within the backward-error bound, differ by at most
/// 4·C·n·ε·κ∞·max(‖x‖, ‖y‖) (first-order perturbation theory; compared only when κ∞ ≤ 1e10)
fn check_agree(rep: &mut Report, ids: (&str, &str), regime: &str, how: &str, what: &str, a: &[f64], n: usize, kappa: f64, b: &[f64], x: &[f64], y: &[f64]) {
    if !(kappa <= 1e10) || x.len() != n || y.len() != n {
        return;
    }
    let d = x.iter().zip(y).fold(0.0f64, |w, (p, q)| {
        let d = (p - q).abs();
        if d.is_nan() {
            f64::INFINITY
        } else {
            w.max(d)
        }
    });
    let bound = 4.0 * C * n as f64 * EPS * kappa * max_abs(x).max(max_abs(y));
    let ok = d <= bound;
    if ok && bound > 0.0 {
        rep.note_max(ids.1, d / bound);
    }
    rep.check(ids.0, regime, ok, || detail(regime, how, n, a, json!({"compared": what, "b": jf(b), "x": jf(x), "y": jf(y), "difference": jnum(d), "bound": jnum(bound), "cond_inf": jnum(kappa)})));
}

/// n×k row-major matrix whose columns are the given vectors
fn columns_to_matrix(cols: &[&Vec<f64>], n: usize) -> Matrix {
    let k = cols.len();
    let mut bb = vec![0.0; n * k];
    for (j, c) in cols.iter().enumerate() {
        for i in 0..n {
            bb[i * k + j] = c[i];
        }
    }
    Matrix::new(bb, n as i32, k as i32)
}

fn identity(n: usize) -> Vec<Vec<f64>> {
    (0..n)
        .map(|j| {
            let mut e = vec![0.0; n];
            e[j] = 1.0;
            e
        })
        .collect()
}

/// A factor solve in its three forms (slice, Matrix/Vector, Matrix/Matrix) on every structured
/// right-hand side, plus the identity as a multi-column right-hand side (the inverse).
fn structured_factor_solves(
    rep: &mut Report,
    ids: &SolveIds,
    agree: (&'static str, &'static str),
    multi_agree: (&'static str, &'static str),
    shape_id: &str,
    how: &str,
    a: &[f64],
    n: usize,
    kappa: f64,
    list: &[(&'static str, Vec<f64>)],
    slice_solve: &dyn Fn(&[f64]) -> Result<Vec<f64>, String>,
    vector_solve: &dyn Fn(&Vector) -> Result<Vec<f64>, String>,
    matrix_solve: &dyn Fn(&Matrix) -> Result<Matrix, String>,
) {
    let mut singles: Vec<Option<Vec<f64>>> = Vec::with_capacity(list.len());
    for (regime, b) in list {
        rep.seen(regime, 1);
        let xs = slice_solve(b);
        let ok_s = check_solve(rep, ids, regime, how, "slice", a, n, &xs, b);
        let xm = vector_solve(&Vector::new(b.clone()));
        let ok_m = check_solve(rep, ids, regime, how, "Matrix/Vector", a, n, &xm, b);
        if ok_s && ok_m {
            check_agree(rep, agree, regime, how, "slice vs Matrix/Vector", a, n, kappa, b, xs.as_ref().unwrap(), xm.as_ref().unwrap());
        }
        singles.push(if ok_m { xm.ok() } else { None });
    }
    // multi-column right-hand sides: the structured vectors side by side (at most 8 columns, one per
    // structure first), and the identity
    let mut pick: Vec<usize> = Vec::new();
    for r in RS_ALL {
        if let Some(i) = list.iter().rposition(|(reg, _)| *reg == r) {
            pick.push(i);
        }
    }
    let cols: Vec<&Vec<f64>> = pick.iter().map(|&i| &list[i].1).collect();
    if !cols.is_empty() {
        let k = cols.len();
        let bm = columns_to_matrix(&cols, n);
        match matrix_solve(&bm) {
            Ok(x) => {
                let shape_ok = x.nrows == n && x.ncols == k && x.data.len() == n * k;
                rep.check(shape_id, "rhs-structure:multi-rhs", shape_ok, || detail("rhs-structure:multi-rhs", how, n, a, json!({"shape": [x.nrows, x.ncols], "expected": [n, k]})));
                if shape_ok {
                    for (j, &i) in pick.iter().enumerate() {
                        let (regime, b) = (list[i].0, &list[i].1);
                        let xj = col(&x.data, n, k, j);
                        let ok = check_solve(rep, ids, regime, how, "Matrix/Matrix (structured columns)", a, n, &Ok(xj.clone()), b);
                        if let (true, Some(xs)) = (ok, &singles[i]) {
                            check_agree(rep, multi_agree, regime, how, "Matrix/Matrix column vs Matrix/Vector", a, n, kappa, b, &xj, xs);
                        }
                    }
                }
            }
            Err(e) => {
                check_solve(rep, ids, "rhs-structure:multi-rhs", how, "Matrix/Matrix (structured columns)", a, n, &Err(e), cols[0]);
            }
        }
    }
    let eye = identity(n);
    rep.seen(RS_IDENTITY, 1);
    match matrix_solve(&Matrix::eye(n)) {
        Ok(x) => {
            let shape_ok = x.nrows == n && x.ncols == n && x.data.len() == n * n;
            rep.check(shape_id, RS_IDENTITY, shape_ok, || detail(RS_IDENTITY, how, n, a, json!({"shape": [x.nrows, x.ncols], "expected": [n, n]})));
            if shape_ok {
                for j in 0..n {
                    let xj = col(&x.data, n, n, j);
                    let ok = check_solve(rep, ids, RS_IDENTITY, how, "Matrix/Matrix (identity: inverse)", a, n, &Ok(xj.clone()), &eye[j]);
                    // the unit vectors come first in `list`, in order, when all of them are present
                    if ok && list.len() > n && list[j].0 == RS_UNIT && list[j].1[j] == 1.0 {
                        if let Some(xs) = &singles[j] {
                            check_agree(rep, multi_agree, RS_IDENTITY, how, "column of the inverse vs Matrix/Vector solve against e_j", a, n, kappa, &eye[j], &xj, xs);
                        }
                    }
                }
            }
        }
        Err(e) => {
            check_solve(rep, ids, RS_IDENTITY, how, "Matrix/Matrix (identity: inverse)", a, n, &Err(e), &eye[0]);
        }
    }
}

fn structured_rhs_case(rep: &mut Report, rng: &mut Rng, kind: usize, n: usize, few: bool) {
    rep.case(RS_KINDS[kind]);
    match kind {
        0 => {
            // a lower and an upper triangular system, as in `subst_case`
            let scale = 2f64.powi(rng.int(-8, 8) as i32);
            let off = 1.0 / (n as f64).sqrt();
            let mut l = vec![0.0; n * n];
            let mut u = vec![0.0; n * n];
            for i in 0..n {
                for j in 0..n {
                    let dg = scale * rng.range(1.0, 2.0) * if rng.bool() { 1.0 } else { -1.0 };
                    let of = scale * off * rng.range(-1.0, 1.0);
                    if i == j {
                        l[i * n + j] = dg;
                        u[i * n + j] = scale * rng.range(1.0, 2.0) * if rng.bool() { 1.0 } else { -1.0 };
                    } else if j < i {
                        l[i * n + j] = of;
                    } else {
                        u[i * n + j] = of;
                    }
                }
            }
            rep.distinct(Hasher::new().s(RS_KINDS[kind]).u(n as u64).u(bits_digest(&l)).u(bits_digest(&u)).finish(), n >= 2);
            let how = format!("triangular, |diagonal| in [1,2]·2^k, off-diagonal uniform(-1,1)·2^k/sqrt(n), 2^k = {}", scale);
            let (kl, ku) = (cond_inf(&l, n), cond_inf(&u, n));
            let (lm, um) = (mat(&l, n), mat(&u, n));
            let list = structured_rhs_list(rng, n, few);
            for (regime, b) in &list {
                rep.seen(regime, 1);
                let xs = guard(|| forward_substitution(&l, b));
                let ok_s = check_solve(rep, &FORWARD_SUBST, regime, &how, "slice", &l, n, &xs, b);
                let xm = guard(|| lm.forward_substitution(b).to_vec());
                let ok_m = check_solve(rep, &FORWARD_SUBST, regime, &how, "Matrix", &l, n, &xm, b);
                if ok_s && ok_m {
                    check_agree(rep, FORWARD_AGREE, regime, &how, "slice vs Matrix", &l, n, kl, b, xs.as_ref().unwrap(), xm.as_ref().unwrap());
                }
                let xs = guard(|| backward_substitution(&u, b));
                let ok_s = check_solve(rep, &BACKWARD_SUBST, regime, &how, "slice", &u, n, &xs, b);
                let xm = guard(|| um.backward_substitution(b).to_vec());
                let ok_m = check_solve(rep, &BACKWARD_SUBST, regime, &how, "Matrix", &u, n, &xm, b);
                if ok_s && ok_m {
                    check_agree(rep, BACKWARD_AGREE, regime, &how, "slice vs Matrix", &u, n, ku, b, xs.as_ref().unwrap(), xm.as_ref().unwrap());
                }
            }
        }
        1 => {
            let (a, how) = if rng.chance(0.3) { gen_spd_sparse(rng, n) } else { gen_spd(rng, n) };
            rep.distinct(Hasher::new().s(RS_KINDS[kind]).u(n as u64).u(bits_digest(&a)).finish(), n >= 2 && !is_diagonal(&a, n));
            let kappa = cond_inf(&a, n);
            let m = mat(&a, n);
            let (ls, lm) = (guard(|| cholesky(&a)), guard(|| m.cholesky()));
            let (ls, lm) = match (ls, lm) {
                (Ok(ls), Ok(lm)) if ls.len() == n * n && all_finite(&ls) && lm.data.len() == n * n && all_finite(&lm.data) && lm.is_lower_triangular() => (ls, lm),
                // a failing factorisation of SPD input is reported by the Cholesky streams
                _ => {
                    rep.seen("rhs-structure:factorisation-unusable", 1);
                    return;
                }
            };
            let list = structured_rhs_list(rng, n, few);
            structured_factor_solves(
                rep, &CHOLESKY_SOLVE, CHOLESKY_SOLVE_AGREE, CHOLESKY_SOLVE_MULTI_AGREE, "C11.cholesky_solve.shape", &how, &a, n, kappa, &list,
                &|b| guard(|| cholesky_solve(&ls, b)),
                &|b| guard(|| lm.cholesky_solve(b).to_vec()),
                &|b| guard(|| lm.cholesky_solve(b)),
            );
            // the routed solver on the same systems
            for (regime, b) in &list {
                let x = guard(|| solve(&a, b));
                check_solve(rep, &SOLVE_SPD, regime, &how, "solve (routed)", &a, n, &x, b);
            }
        }
        _ => {
            // a nonsingular general matrix (row exchanges happen) of moderate condition
            let mut found = None;
            for attempt in 0..20 {
                let class = if attempt >= 10 { "lu:diag-dominant" } else { *rng.choose(&["lu:dense", "lu:dense", "lu:integer", "lu:zero-leading", "lu:diag-dominant", "lu:perm-matrix"]) };
                let alt = rng.bool();
                let inp = gen_lu(rng, class, n, alt);
                let kappa = cond_inf(&inp.a, n);
                if kappa <= 1e10 {
                    found = Some((inp, kappa));
                    break;
                }
            }
            let (inp, kappa) = match found {
                Some(f) => f,
                None => {
                    rep.seen("rhs-structure:generator-gave-up", 1);
                    return;
                }
            };
            let (a, how) = (&inp.a, format!("{} ({})", inp.how, inp.regime));
            rep.distinct(Hasher::new().s(RS_KINDS[kind]).u(n as u64).u(bits_digest(a)).finish(), n >= 2 && !is_diagonal(a, n));
            let m = mat(a, n);
            let (rs, rm) = (guard(|| lu(a)), guard(|| m.lu()));
            let ((lus, pivs), (lum, pivm)) = match (rs, rm) {
                (Ok(s), Ok(m)) if s.0.len() == n * n && all_finite(&s.0) && as_perm(&s.1, n).is_some() && m.0.data.len() == n * n && all_finite(&m.0.data) && as_perm(&m.1, n).is_some() => (s, m),
                _ => {
                    rep.seen("rhs-structure:factorisation-unusable", 1);
                    return;
                }
            };
            let list = structured_rhs_list(rng, n, few);
            structured_factor_solves(
                rep, &LU_SOLVE, LU_SOLVE_AGREE, LU_SOLVE_MULTI_AGREE, "C11.lu_solve.shape", &how, a, n, kappa, &list,
                &|b| guard(|| lu_solve(&lus, &pivs, b)),
                &|b| guard(|| lum.lu_solve(&pivm, b).to_vec()),
                &|b| guard(|| lum.lu_solve(&pivm, b)),
            );
        }
    }
}

// ------------------------------------------------------------------------------------------------

/// k-th permutation of 0..n in lexicographic order (factorial number system)
fn nth_perm(n: usize, mut k: usize) -> Vec<usize> {
    let mut items: Vec<usize> = (0..n).collect();
    let mut fact: Vec<usize> = vec![1; n + 1];
    for i in 1..=n {
        fact[i] = fact[i - 1] * i;
    }
    let mut out = Vec::with_capacity(n);
    for i in (0..n).rev() {
        let idx = k / fact[i];
        k %= fact[i];
        out.push(items.remove(idx));
    }
    out
}

pub fn run(cfg: &Cfg, rep: &mut Report) {
    rep.rule = "stream 0: four hand-written minimal instances ([1 2; 2 1], 3x3 all-ones, an order-16 SPD Toeplitz matrix, the permutation matrix with pivot vector [1,2,3,0]); then SPD matrices (order 1 + i mod Nmax) through both Cholesky forms, cholesky_solve and the routed solve; general matrices (class = i mod 8, order cycling 1..Nmax; integer classes alternate between 1..10 and 1..Nmax) through both LU forms, det, lu_det, lu_solve; every permutation matrix of order <= 6; triangular systems through both substitution forms; non-positive-definite symmetric matrices (orders 2..Nmax) through both Cholesky forms; stream 9: triangular / SPD / general nonsingular systems (kind = i mod 3, order cycling 1..Nmax) solved against structured right-hand sides (all unit vectors, leading / trailing / middle zeros, single non-zero, sparse signed, zero, identity as multi-RHS) through every substitution and factor-solve form. non-trivial = order >= 2 and not diagonal; distinct by hash of (class, n, bits of the matrix)".into();
    rep.assume("orders 1..32; SPD input has condition number <= 1e8 (G^T G + delta I); entries are finite and far from overflow (|a| <= 1e3)");
    rep.assume(&format!("rounding bounds: |L L^T - A|_inf <= C n eps |A|_inf; |P A - L U|_inf <= C n eps |L|_inf |U|_inf; triangular / factor solves: backward error <= C n eps; C = {}, eps = 2^-52", C));
    rep.assume("determinant of integer matrices (|a| <= 5, order <= 12): |sign·prod(diag U) - det_exact| <= C n eps (sum_ij (|L||U|)_ij |cofactor_ij| + |det|) + (C n eps)^2 · Hadamard bound; exact equality for (scaled) permutation matrices");
    rep.assume("graded regimes: D = diag(2^k), |k| <= 498 (non-PD) resp. <= 200 (PD, so that |A|·|x| stays in range); wild entries are ±10^u with u in [-300, 250]; every input is finite, exactly symmetric, has a positive diagonal, and the non-PD ones carry a 2x2 principal minor with a_pq^2 >= 10^0.05 a_pp a_qq; for these inputs the monitor demands a panic or a finite returned factor, nothing about the factor's accuracy; on chol-spd:graded the factor is additionally checked entrywise: |(L L^T - A)_ij| <= C n eps sqrt(a_ii a_jj)");
    rep.assume("lu_solve is only judged when cond_inf(A) <= 1e10 (double-double inverse); a PSD-singular input for which cholesky returns a *finite* factor is counted (chol-nonpd:outcome:finite-factor-returned) but not a violation: the property forbids non-finite factors");
    if cfg.miri() {
        rep.assume("Miri layer: residual sums are accumulated in plain f64 instead of double-double (their own rounding error adds < 1 to ratios compared with C = 16), cond_inf comes from an f64 Gauss-Jordan inverse, the Bareiss/cofactor reference is limited to order <= 5, LU orders are {1,3,6,12}, permutation matrices are enumerated to order 3 (+ the order-4 cycle)");
    }
    let miri = cfg.miri();
    let nmax = if miri { 12 } else { 32 };

    // 0. hand-written minimal instances first, so that the replay record of a finding is the smallest one
    par_cases(cfg, rep, 6, 1, |_i, rng, rep| {
        nonpd_check(rep, 2, false, &[1.0, 2.0, 2.0, 1.0], "the 2x2 matrix [1 2; 2 1] (eigenvalues 3 and -1)");
        nonpd_check(rep, 3, true, &[1.0; 9], "the 3x3 all-ones matrix (rank 1, eigenvalues 3, 0, 0)");
        // pivots of a permutation matrix are sigma^-1: sigma = [3,0,1,2] gives the pivot vector [1,2,3,0]
        // order 16 is the smallest order at which the two Cholesky forms sum in a different order
        if !cfg.miri() {
            let a: Vec<f64> = (0..256usize).map(|t| 1.0 / (1.0 + (t / 16).abs_diff(t % 16) as f64) + if t / 16 == t % 16 { 1.0 } else { 0.0 }).collect();
            chol_check(rep, rng, 16, a, "order 16, a_ij = 1/(1+|i-j|) + [i=j] (symmetric positive definite Toeplitz)".to_string());
        }
        let sigma = [3usize, 0, 1, 2];
        let inp = LuInput { regime: "lu:perm-matrix", how: format!("permutation matrix, sigma = {:?} (4-cycle, determinant -1)", sigma), n: 4, a: perm_matrix(&sigma, &[1.0; 4]), integer: true, exact_det: Some(-1.0) };
        lu_case(rep, rng, &inp);
    });

    // 1. Cholesky on SPD input
    let n1 = cfg.pick(1000, 25000, if miri { 12 } else { 24 });
    par_cases(cfg, rep, 1, n1, |i, rng, rep| chol_case(rep, rng, 1 + i % nmax));

    // 2. LU on general matrices
    let n2 = cfg.pick(2400, 60000, if miri { 32 } else { 64 });
    let ncl = LU_CLASSES.len();
    const MIRI_ORDERS: [usize; 4] = [1, 3, 6, 12];
    par_cases(cfg, rep, 2, n2, |i, rng, rep| {
        let class = LU_CLASSES[i % ncl];
        let mut n = if miri { MIRI_ORDERS[(i / ncl) % 4] } else { 1 + (i / ncl) % nmax };
        let small_round = (i / ncl / nmax) % 2 == 0;
        if small_round && matches!(class, "lu:integer" | "lu:singular" | "lu:rank-deficient" | "lu:zero-leading") {
            n = 1 + (n - 1) % 10;
        }
        let alt = ((i / ncl) + (i / ncl / nmax)) % 2 == 1;
        let inp = gen_lu(rng, class, n, alt);
        lu_case(rep, rng, &inp);
    });

    // 3. all permutation matrices of order <= 6 (Miri: <= 3; the order-4 cycle is in stream 0)
    let maxo = if miri { 3 } else { 6 };
    rep.exhaustive = Some(maxo == 6);
    let mut index: Vec<(usize, usize)> = Vec::new();
    for n in 1..=maxo {
        let f: usize = (1..=n).product();
        for k in 0..f {
            index.push((n, k));
        }
    }
    rep.note("permutation_matrices_enumerated", json!(index.len()));
    par_cases(cfg, rep, 3, index.len(), |i, rng, rep| {
        let (n, k) = index[i];
        let sigma = nth_perm(n, k);
        let (sg, _) = perm_sign_cycles(&sigma);
        let inp = LuInput { regime: "lu:perm-matrix:exhaustive", how: format!("permutation matrix, sigma = {:?}", sigma), n, a: perm_matrix(&sigma, &vec![1.0; n]), integer: true, exact_det: Some(sg) };
        lu_case(rep, rng, &inp);
    });

    // 4. substitution, both forms, every order
    let n4 = cfg.pick(600, 15000, 24);
    par_cases(cfg, rep, 4, n4, |i, rng, rep| subst_case(rep, rng, 1 + i % nmax));

    // 5. not positive definite ⇒ cholesky must panic (orders 2..Nmax)
    let n5 = cfg.pick(300, 6000, 4);
    par_cases(cfg, rep, 5, n5, |i, rng, rep| {
        let n = 2 + (i / 2) % (nmax - 1);
        nonpd_case(rep, rng, n, i % 2 == 1);
    });

    // 7. not positive definite at wild scales: still a panic or a finite factor, never inf/NaN (orders 2..Nmax)
    const NONPD_GRADED: [&str; 3] = [NONPD_CONGRUENCE, NONPD_WILD, NONPD_BORDERED];
    let n7 = cfg.pick(900, 18000, if miri { 3 } else { 9 });
    par_cases(cfg, rep, 7, n7, |i, rng, rep| {
        let regime = NONPD_GRADED[i % 3];
        let n = 2 + (i / 3) % (nmax - 1);
        for _attempt in 0..20 {
            if let Some((a, how)) = gen_nonpd_graded(rng, regime, n) {
                nonpd_check_in(rep, regime, n, &a, &how);
                return;
            }
        }
        rep.seen("chol-nonpd:graded-generator-gave-up", 1);
    });

    // 8. positive definite with the same gradings must still factor correctly
    let n8 = cfg.pick(320, 8000, if miri { 3 } else { 8 });
    par_cases(cfg, rep, 8, n8, |i, rng, rep| {
        let n = 1 + i % nmax;
        let (a, how) = gen_spd_graded(rng, n);
        chol_check_in(rep, rng, GRADED_SPD, n, a, how);
    });

    // 9. structured right-hand sides through every triangular solve and every solve built on one
    rep.assume("rhs-structure regimes: right-hand sides that are unit vectors (every position), start / end with zeros, have a zero block in the middle, a single non-zero entry, sparse signed entries, or are zero, and the identity as a multi-column right-hand side, through forward/backward substitution (slice and Matrix form; triangular matrices as in the substitution stream), cholesky_solve (slice, Matrix/Vector, Matrix/Matrix; SPD input as in the Cholesky stream), the routed solve, and lu_solve (all three forms; nonsingular input of the LU classes with cond_inf <= 1e10); judged by the same backward-error bound C n eps; two answers to one system are compared only when both met it, within 4 C n eps cond_inf max(|x|,|y|)");
    let n9 = cfg.pick(288, 5760, if miri { 3 } else { 12 });
    par_cases(cfg, rep, 9, n9, |i, rng, rep| {
        let n = if miri { [4usize, 5, 3][i % 3] } else { 1 + (i / 3) % nmax };
        structured_rhs_case(rep, rng, i % 3, n, miri);
    });
    for r in RS_ALL.iter().chain(RS_KINDS.iter()) {
        rep.require(r, 1);
    }

    for r in [GRADED_SPD, NONPD_CONGRUENCE, NONPD_WILD, NONPD_BORDERED] {
        rep.require(r, 1);
    }
    for r in ["chol-spd", "substitution", "chol-nonpd:sym-indef-posdiag", "chol-nonpd:psd-singular", "lu:perm-matrix:exhaustive", "lu:perm-scaled", "det:pivot-cycle>=3", "det:pivot-involution", "det:bareiss-reference", "det:exact-arithmetic-reference", "lu_solve:nonsingular-input"] {
        rep.require(r, 1);
    }
    for c in LU_CLASSES {
        rep.require(c, 1);
    }
    rep.require("lu:perm-matrix:exhaustive", index.len() as u64);
}
