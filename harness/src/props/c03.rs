//! C03 — samplers draw from the distribution they describe, in every parameter regime
//! (DESIGN §3 C03, §0 bounded-progress restatement of "terminates").
//!
//! Events: every value returned by `sample`, `sample_n`, `sample_matrix`, `DistributionND::sample_n`
//! (or the panic that replaced it), the per-site iteration hooks of every sampler loop, the raw
//! RNG draws consumed (from the `alea` state, no hook needed).
//!
//! Oracle, per case (one law at one parameter point, one RNG seed, n draws):
//!   * `C03.no_panic`     construction and every draw of a valid parameter point return a value;
//!   * `C03.terminates`   bounded progress: no single draw ticks any loop site more than 10^6 times.
//!                        Draws run in chunks under a per-site budget of 10^6 for the whole chunk
//!                        (chunk total <= 10^6 implies every draw <= 10^6); if a chunk trips the
//!                        budget it is replayed from the saved RNG state one draw at a time with the
//!                        counters reset before each draw, so only a *single draw* above 10^6
//!                        iterations is a violation (a correct but slow sampler can never trip it);
//!   * `C03.bulk.*`       `sample_n(m)` has length m, `sample_matrix(r,c)` is r x c with r*c entries,
//!                        MVN `sample()` has length d, `DistributionND::sample_n(m)` is m x d;
//!   * `C03.support`      every draw finite and inside the closed support; `C03.integer` for
//!                        discrete laws;
//!   * `C03.dkw`          sup|F_n − F| <= sqrt(ln(2/α)/(2n)), α = 1e-12, F = the harness's own CDF
//!                        (oracle::special), both one-sided gaps at every sample point (atoms: F(k)
//!                        and F(k−1));
//!   * `C03.mvn.coord` / `C03.mvn.proj`   MVN draws whitened with the harness's own Cholesky factor
//!                        of the requested Σ: every coordinate and 8 random unit projections pass
//!                        the same DKW test against N(0,1).
//! False-alarm probability of a run <= (#DKW tests)·1e-12 by construction.
//!
//! `bulk-boundary:<family>`: bulk requests at and around chunk boundaries ("bulk sampling returns exactly
//! the requested number and shape of draws" for every size, in particular the sizes at which an
//! implementation that splits a request into blocks changes its path): n = k·2^j − 1, k·2^j, k·2^j + 1
//! and round decimal sizes, through `sample_n`, `sample_matrix` (several factorisations of n) and the
//! MVN `sample_n`; count / shape / support / integrality / no panic, no statistics.
//!
//! Two further workload families (both part of "every valid parameter setting" / "every random stream"):
//!   * `mvn:badly-scaled`  covariances Σ = D·R·D whose coordinates live on very different scales
//!                        (standard deviations 1e-8..1e2, i.e. variances 1e-16..1e4, variance ratio
//!                        >= 1e6 between two coordinates, strong correlations, d = 1..6), judged by the
//!                        same whitening + DKW criterion. Cholesky factorisation commutes with a
//!                        diagonal scaling up to rounding (componentwise backward error c·d·u·sqrt(Σii·Σjj)),
//!                        so a correct sampler is as accurate here as on R itself;
//!   * `mvn:structured:*`  covariances with exact zeros placed by a graph (hub and leaves with the hub
//!                        first / last, bands, independent dense blocks, rings / trees / sparse graphs
//!                        under a random labelling, inverse of a sparse precision matrix, diagonal plus
//!                        rank one), d = 2..6, n = 2e5 (quick) / 1e6 (thorough). Same whitening + DKW
//!                        criterion, plus `C03.mvn.pairproj`: every pair of coordinates projected on its
//!                        own ((z_i ± z_j)/√2 whitened; (x_i/sd_i ± x_j/sd_j) standardised by the
//!                        requested Σ), because "x_i and x_j have covariance Σ_ij" is a statement about
//!                        that one projection. Counters `mvn:structured:exact-zero` and
//!                        `mvn:structured:zero-with-fill-in` (a zero of Σ where chol(Σ) is not zero);
//!   * `inject:<family>`  fault injection on the RNG stream: the library generator is put into a state
//!                        after which the (k+1)-th raw 64-bit word has an all-ones / all-zero 32-bit
//!                        half (`gen::ADVERSARIAL_ALEA`), k = 0..11, and the next 12 draws of every law
//!                        of the grid are checked for no panic / bounded progress / support /
//!                        integrality / finiteness (through `sample()` and through `sample_n`). These
//!                        are the words at which an "inclusive end point" slip of a sampler shows
//!                        (probability 2^-32 per draw: out of reach of any census). No statistics.
use crate::gen::Rng;
use crate::oracle::linref;
#[cfg(not(miri))]
use crate::oracle::special as sp;
#[cfg(not(miri))]
use crate::oracle::stats;
use crate::report::{guard, is_budget_panic, jf, jnum, par_cases, Cfg, Hasher, Report};
use compute::distributions::{
    Bernoulli, Beta, Binomial, ChiSquared, DiscreteUniform, Distribution, Distribution1D, DistributionND, Exponential, Gamma, Gumbel, Normal, Pareto, Poisson,
    Uniform, MVN, T,
};
use compute::linalg::{Matrix, Vector};
use compute::verif_hooks as vh;
use serde_json::{json, Value};
use std::collections::BTreeMap;

#[cfg(not(miri))]
const ALPHA: f64 = 1e-12;
/// DESIGN §0: a draw must finish within 10^6 iterations of any rejection loop.
const BUDGET: u64 = 1_000_000;
/// wyrand increment of alea 0.2.2; raw draws consumed = Δstate · WY_INV (mod 2^64)
const WY_INC: u64 = 0xa0761d6478bd642f;
const fn inv_mod_2_64(c: u64) -> u64 {
    // Newton iteration for the inverse of an odd number modulo 2^64
    let mut x = c;
    let mut i = 0;
    while i < 6 {
        x = x.wrapping_mul(2u64.wrapping_sub(c.wrapping_mul(x)));
        i += 1;
    }
    x
}
const WY_INV: u64 = inv_mod_2_64(WY_INC);

// ---------------------------------------------------------------------------------------------
// one-dimensional laws

#[derive(Clone, Debug)]
enum Law {
    Normal(f64, f64),
    Gamma(f64, f64),
    Beta(f64, f64),
    Chi2(usize),
    T(f64),
    Poisson(f64),
    Binomial(u64, f64),
    Exponential(f64),
    Gumbel(f64, f64),
    Pareto(f64, f64),
    Uniform(f64, f64),
    DiscreteUniform(i64, i64),
    Bernoulli(f64),
}

const THIRD: f64 = 1.0 / 3.0;

impl Law {
    fn family(&self) -> &'static str {
        match self {
            Law::Normal(..) => "normal",
            Law::Gamma(..) => "gamma",
            Law::Beta(..) => "beta",
            Law::Chi2(..) => "chi2",
            Law::T(..) => "t",
            Law::Poisson(..) => "poisson",
            Law::Binomial(..) => "binomial",
            Law::Exponential(..) => "exponential",
            Law::Gumbel(..) => "gumbel",
            Law::Pareto(..) => "pareto",
            Law::Uniform(..) => "uniform",
            Law::DiscreteUniform(..) => "discrete-uniform",
            Law::Bernoulli(..) => "bernoulli",
        }
    }
    fn params(&self) -> Vec<f64> {
        match *self {
            Law::Normal(a, b) | Law::Gamma(a, b) | Law::Beta(a, b) | Law::Gumbel(a, b) | Law::Pareto(a, b) | Law::Uniform(a, b) => vec![a, b],
            Law::Chi2(k) => vec![k as f64],
            Law::T(a) | Law::Poisson(a) | Law::Exponential(a) | Law::Bernoulli(a) => vec![a],
            Law::Binomial(n, p) => vec![n as f64, p],
            Law::DiscreteUniform(a, b) => vec![a as f64, b as f64],
        }
    }
    /// Regime label: the class of parameter points that drives one algorithm branch.
    fn regime(&self) -> &'static str {
        match *self {
            Law::Normal(_, s) => {
                if s == 0.0 {
                    "normal:sigma=0"
                } else {
                    "normal:sigma>0"
                }
            }
            Law::Gamma(a, _) => {
                if a < THIRD {
                    "gamma:shape<1/3"
                } else if a == THIRD {
                    "gamma:shape=1/3"
                } else if a < 1.0 {
                    "gamma:1/3<shape<1"
                } else {
                    "gamma:shape>=1"
                }
            }
            Law::Beta(a, b) => {
                let m = a.min(b);
                if m < THIRD {
                    "beta:min(a,b)<1/3"
                } else if m == THIRD {
                    "beta:min(a,b)=1/3"
                } else if m < 1.0 {
                    "beta:1/3<min(a,b)<1"
                } else {
                    "beta:a,b>=1"
                }
            }
            Law::Chi2(k) => {
                if k < 2 {
                    "chi2:dof<2"
                } else {
                    "chi2:dof>=2"
                }
            }
            Law::T(d) => {
                if d / 2.0 < THIRD {
                    "t:dof<2/3"
                } else if d / 2.0 == THIRD {
                    "t:dof=2/3"
                } else if d < 2.0 {
                    "t:2/3<dof<2"
                } else {
                    "t:dof>=2"
                }
            }
            Law::Poisson(l) => {
                if l < 10.0 {
                    "poisson:rate<10"
                } else if l <= 100.0 {
                    "poisson:10<=rate<=100"
                } else if l < 150.0 {
                    "poisson:100<rate<150"
                } else {
                    "poisson:rate>=150"
                }
            }
            Law::Binomial(n, p) => {
                if n == 0 {
                    "binomial:n=0"
                } else if p == 0.0 {
                    "binomial:p=0"
                } else if p == 1.0 {
                    "binomial:p=1"
                } else {
                    // the same floating-point predicate as the library's dispatcher; the hook sites
                    // binomial.inv.call / binomial.btpe.call confirm the branch really taken
                    let flip = p > 0.5;
                    let q = if flip { 1.0 - p } else { p };
                    let inv = q * n as f64 <= 30.0;
                    match (inv, flip) {
                        (true, false) => "binomial:n*min(p,1-p)<=30:p<=0.5",
                        (true, true) => "binomial:n*min(p,1-p)<=30:p>0.5",
                        (false, false) => "binomial:n*min(p,1-p)>30:p<=0.5",
                        (false, true) => "binomial:n*min(p,1-p)>30:p>0.5",
                    }
                }
            }
            Law::Exponential(_) => "exponential",
            Law::Gumbel(..) => "gumbel",
            Law::Pareto(..) => "pareto",
            Law::Uniform(a, b) => {
                if a == b {
                    "uniform:equal-bounds"
                } else {
                    "uniform:lower<upper"
                }
            }
            Law::DiscreteUniform(a, b) => {
                if a == b {
                    "discrete-uniform:equal-bounds"
                } else if (b as i128 - a as i128) >= (1i128 << 53) {
                    "discrete-uniform:span>=2^53"
                } else {
                    "discrete-uniform:lower<upper"
                }
            }
            Law::Bernoulli(p) => {
                if p == 0.0 {
                    "bernoulli:p=0"
                } else if p == 1.0 {
                    "bernoulli:p=1"
                } else {
                    "bernoulli:0<p<1"
                }
            }
        }
    }
    fn build(&self) -> Box<dyn Distribution1D> {
        match *self {
            Law::Normal(m, s) => Box::new(Normal::new(m, s)),
            Law::Gamma(a, b) => Box::new(Gamma::new(a, b)),
            Law::Beta(a, b) => Box::new(Beta::new(a, b)),
            Law::Chi2(k) => Box::new(ChiSquared::new(k)),
            Law::T(d) => Box::new(T::new(d)),
            Law::Poisson(l) => Box::new(Poisson::new(l)),
            Law::Binomial(n, p) => Box::new(Binomial::new(n, p)),
            Law::Exponential(l) => Box::new(Exponential::new(l)),
            Law::Gumbel(m, b) => Box::new(Gumbel::new(m, b)),
            Law::Pareto(a, m) => Box::new(Pareto::new(a, m)),
            Law::Uniform(a, b) => Box::new(Uniform::new(a, b)),
            Law::DiscreteUniform(a, b) => Box::new(DiscreteUniform::new(a, b)),
            Law::Bernoulli(p) => Box::new(Bernoulli::new(p)),
        }
    }
    /// Degenerate laws: all mass on one point.
    fn point_mass(&self) -> Option<f64> {
        match *self {
            Law::Normal(m, s) if s == 0.0 => Some(m),
            Law::Uniform(a, b) if a == b => Some(a),
            Law::DiscreteUniform(a, b) if a == b => Some(a as f64),
            Law::Bernoulli(p) if p == 0.0 => Some(0.0),
            Law::Bernoulli(p) if p == 1.0 => Some(1.0),
            Law::Binomial(n, p) if n == 0 || p == 0.0 => Some(0.0),
            Law::Binomial(n, p) if p == 1.0 => Some(n as f64),
            _ => None,
        }
    }
    fn discrete(&self) -> bool {
        matches!(self, Law::Poisson(_) | Law::Binomial(..) | Law::DiscreteUniform(..) | Law::Bernoulli(_))
    }
    /// Closed support (the closure is used so that a correctly rounded boundary value is accepted).
    fn in_support(&self, x: f64) -> bool {
        if !x.is_finite() {
            return false;
        }
        if let Some(c) = self.point_mass() {
            return x == c;
        }
        match *self {
            Law::Normal(..) | Law::T(_) | Law::Gumbel(..) => true,
            Law::Gamma(..) | Law::Chi2(_) | Law::Exponential(_) | Law::Poisson(_) => x >= 0.0,
            Law::Beta(..) => (0.0..=1.0).contains(&x),
            Law::Binomial(n, _) => x >= 0.0 && x <= n as f64,
            Law::Pareto(_, m) => x >= m,
            Law::Uniform(a, b) => x >= a && x <= b,
            Law::DiscreteUniform(a, b) => x >= a as f64 && x <= b as f64,
            Law::Bernoulli(_) => x == 0.0 || x == 1.0,
        }
    }
    /// F(x) = P(X <= x), the harness's own CDF.
    #[cfg(not(miri))]
    fn cdf(&self, x: f64) -> f64 {
        if let Some(c) = self.point_mass() {
            return if x >= c { 1.0 } else { 0.0 };
        }
        match *self {
            Law::Normal(m, s) => sp::norm_cdf(x, m, s),
            Law::Gamma(a, b) => sp::gamma_cdf(x, a, b),
            Law::Beta(a, b) => sp::beta_cdf(x, a, b),
            Law::Chi2(k) => sp::chi2_cdf(x, k as f64),
            Law::T(d) => sp::t_cdf(x, d),
            Law::Poisson(l) => sp::poisson_cdf(x.floor(), l),
            Law::Binomial(n, p) => sp::binom_cdf(x.floor(), n as f64, p),
            Law::Exponential(l) => sp::exp_cdf(x, l),
            Law::Gumbel(m, b) => sp::gumbel_cdf(x, m, b),
            Law::Pareto(a, m) => sp::pareto_cdf(x, a, m),
            Law::Uniform(a, b) => sp::unif_cdf(x, a, b),
            Law::DiscreteUniform(a, b) => {
                let k = x.floor();
                if k < a as f64 {
                    0.0
                } else if k >= b as f64 {
                    1.0
                } else {
                    (k - a as f64 + 1.0) / ((b as i128 - a as i128 + 1) as f64)
                }
            }
            Law::Bernoulli(p) => {
                if x < 0.0 {
                    0.0
                } else if x < 1.0 {
                    1.0 - p
                } else {
                    1.0
                }
            }
        }
    }
    /// F(x−)
    #[cfg(not(miri))]
    fn cdf_left(&self, x: f64) -> f64 {
        if let Some(c) = self.point_mass() {
            return if x > c { 1.0 } else { 0.0 };
        }
        if self.discrete() {
            if x == x.floor() {
                self.cdf(x - 1.0)
            } else {
                self.cdf(x.floor())
            }
        } else {
            self.cdf(x)
        }
    }
    /// Hook sites that a case of this law must have ticked (otherwise the regime label does not
    /// describe the branch that ran and the case proves nothing about it → inconclusive).
    fn expected_sites(&self) -> &'static [&'static str] {
        match *self {
            Law::Normal(..) => &["normal.zig"],
            Law::Gamma(..) | Law::Beta(..) | Law::Chi2(_) | Law::T(_) => &["gamma.outer", "gamma.inner", "normal.zig"],
            Law::Poisson(l) => {
                if l < 10.0 {
                    &["poisson.mult"]
                } else {
                    &["poisson.ptrs"]
                }
            }
            Law::Binomial(..) => match self.regime() {
                "binomial:n*min(p,1-p)<=30:p<=0.5" => &["binomial.inv.call"],
                "binomial:n*min(p,1-p)<=30:p>0.5" => &["binomial.inv.call", "binomial.flip"],
                "binomial:n*min(p,1-p)>30:p<=0.5" => &["binomial.btpe.call", "binomial.btpe"],
                "binomial:n*min(p,1-p)>30:p>0.5" => &["binomial.btpe.call", "binomial.btpe", "binomial.flip"],
                _ => &[],
            },
            _ => &[],
        }
    }
    fn hash(&self, seed: u64) -> u64 {
        Hasher::new().s(self.family()).fs(&self.params()).u(seed).finish()
    }
}

// ---------------------------------------------------------------------------------------------
// multivariate normal cases

#[derive(Clone, Debug)]
struct MvnSpec {
    regime: &'static str,
    mean: Vec<f64>,
    sigma: Vec<f64>, // d x d row-major, exactly symmetric
}

fn mvn_random(rng: &mut Rng, d: usize) -> MvnSpec {
    // Σ = A·Aᵀ + 0.05·I with A standard normal entries, scaled per axis; exactly symmetric by mirroring
    let a: Vec<f64> = rng.normals(d * d);
    let sc: Vec<f64> = (0..d).map(|_| rng.log_range(0.1, 10.0)).collect();
    let mut s = vec![0.0; d * d];
    for i in 0..d {
        for j in 0..=i {
            let mut v = 0.0;
            for k in 0..d {
                v += a[i * d + k] * a[j * d + k];
            }
            if i == j {
                v += 0.05;
            }
            v *= sc[i] * sc[j];
            s[i * d + j] = v;
            s[j * d + i] = v;
        }
    }
    let mean = (0..d).map(|_| rng.range(-1e3, 1e3)).collect();
    MvnSpec { regime: "mvn:correlated", mean, sigma: s }
}

/// Σ = D·R·D: R a correlation matrix with strong correlations (one-factor model R_ij = a_i·a_j,
/// |a_i| in 0.5..0.97, or a normalised Wishart draw), D = diag(sd_i). Built entry by entry and
/// mirrored (exactly symmetric). `log10_sd` gives the scales.
fn mvn_from_scales(rng: &mut Rng, log10_sd: &[f64], factor_model: bool) -> MvnSpec {
    let d = log10_sd.len();
    let sd: Vec<f64> = log10_sd.iter().map(|e| 10f64.powf(*e)).collect();
    let mut r = vec![0.0; d * d];
    if factor_model {
        let a: Vec<f64> = (0..d).map(|_| rng.range(0.5, 0.97) * if rng.bool() { 1.0 } else { -1.0 }).collect();
        for i in 0..d {
            for j in 0..d {
                r[i * d + j] = if i == j { 1.0 } else { a[i] * a[j] };
            }
        }
    } else {
        let g: Vec<f64> = rng.normals(d * d);
        let mut w = vec![0.0; d * d];
        for i in 0..d {
            for j in 0..d {
                let mut v = if i == j { 0.05 } else { 0.0 };
                for k in 0..d {
                    v += g[i * d + k] * g[j * d + k];
                }
                w[i * d + j] = v;
            }
        }
        for i in 0..d {
            for j in 0..d {
                r[i * d + j] = if i == j { 1.0 } else { w[i * d + j] / (w[i * d + i] * w[j * d + j]).sqrt() };
            }
        }
    }
    let mut s = vec![0.0; d * d];
    for i in 0..d {
        for j in 0..=i {
            let v = (sd[i] * sd[j]) * r[i * d + j];
            s[i * d + j] = v;
            s[j * d + i] = v;
        }
    }
    // means on the scale of the coordinate (so that a draw resolves its own standard deviation) or O(1)
    let mean = (0..d).map(|i| if rng.bool() { sd[i] * rng.range(-100.0, 100.0) } else { rng.range(-1.0, 1.0) }).collect();
    MvnSpec { regime: "mvn:badly-scaled", mean, sigma: s }
}

/// Random badly scaled covariance: d = 2..6, log10 sd in [-8, 2], at least one coordinate in the
/// bottom and one in the top of that range (variance ratio >= 1e6, typically 1e10..1e20).
fn mvn_scaled_random(rng: &mut Rng) -> MvnSpec {
    let d = rng.usize(2, 6);
    let mut e: Vec<f64> = (0..d).map(|_| rng.range(-8.0, 2.0)).collect();
    e[0] = rng.range(-8.0, -4.0);
    e[1] = rng.range(-1.0, 2.0);
    rng.shuffle(&mut e);
    let fm = rng.bool();
    mvn_from_scales(rng, &e, fm)
}

/// Fixed badly scaled cases (a function of the run seed only through the correlation signs).
fn mvn_scaled_grid(rng: &mut Rng) -> Vec<MvnSpec> {
    let mut out = Vec::new();
    for e in [&[-8.0][..], &[2.0], &[0.5, -6.7], &[-7.0, 1.0], &[2.0, -3.0, -8.0], &[-1.0, -4.0, 0.0, -2.0], &[-8.0, 2.0, -6.0, 0.0, -4.0, -2.0], &[1.5, 1.0, -7.5, 2.0, -7.0, 0.0]] {
        let fm = e.len() % 2 == 0;
        out.push(mvn_from_scales(rng, e, fm));
    }
    out
}

// structured / sparse covariances ---------------------------------------------------------------

/// Signed graph Laplacian plus a small positive diagonal: Σ_aa = δ_a + Σ_{edges at a} w_e, Σ_ab = ±w_e
/// on the edges and exactly 0 elsewhere. xᵀΣx = Σ δ_a x_a² + Σ w_e (x_a ± x_b)² > 0: SPD whatever the
/// graph, with strong correlations (δ = 0.1..0.4 next to weights 0.5..2).
fn laplacian_cov(rng: &mut Rng, d: usize, edges: &[(usize, usize)]) -> Vec<f64> {
    let mut s = vec![0.0; d * d];
    for a in 0..d {
        s[a * d + a] = rng.range(0.1, 0.4);
    }
    for &(a, b) in edges {
        let w = rng.range(0.5, 2.0);
        let sg = if rng.bool() { 1.0 } else { -1.0 };
        s[a * d + a] += w;
        s[b * d + b] += w;
        s[a * d + b] = sg * w;
        s[b * d + a] = sg * w;
    }
    s
}

fn random_tree(rng: &mut Rng, d: usize) -> Vec<(usize, usize)> {
    (1..d).map(|k| (rng.usize(0, k - 1), k)).collect()
}

fn relabel(rng: &mut Rng, d: usize, edges: &[(usize, usize)]) -> Vec<(usize, usize)> {
    let p = rng.perm(d);
    edges.iter().map(|&(a, b)| (p[a], p[b])).collect()
}

const STRUCTURED: [&str; 7] = [
    "mvn:structured:hub-first",
    "mvn:structured:hub-last",
    "mvn:structured:banded",
    "mvn:structured:block-diagonal",
    "mvn:structured:graph",
    "mvn:structured:sparse-precision",
    "mvn:structured:diag+rank-one",
];

/// Covariances a user writes down by hand: exact zeros at positions chosen by a graph. d = 2..6.
///   hub-first / hub-last   one hub coordinate correlated with every other, the leaves mutually
///                          uncorrelated (arrowhead matrix), hub listed first / last;
///   banded                 bandwidth 1 or 2 in the natural order;
///   block-diagonal         two or three independent blocks, dense inside;
///   graph                  ring, random tree, hub or random sparse graph under a random labelling
///                          of the coordinates (permutations of the patterns above);
///   sparse-precision       inverse of a chain / tree precision matrix (graphical model), labelled at
///                          random: dense or block-dense covariance;
///   diag+rank-one          one common factor whose loading vector may contain exact zeros.
/// Each coordinate then gets its own standard-deviation scale (1 or 0.1..10); a zero stays a zero.
fn mvn_structured(rng: &mut Rng, d: usize, kind: usize) -> MvnSpec {
    assert!(d >= 2);
    let mut cov = vec![0.0; d * d];
    match kind {
        0 => {
            let e: Vec<(usize, usize)> = (1..d).map(|i| (0, i)).collect();
            cov = laplacian_cov(rng, d, &e);
        }
        1 => {
            let e: Vec<(usize, usize)> = (0..d - 1).map(|i| (d - 1, i)).collect();
            cov = laplacian_cov(rng, d, &e);
        }
        2 => {
            let bw = if d >= 3 && rng.bool() { 2 } else { 1 };
            let mut e = Vec::new();
            for i in 0..d {
                for b in 1..=bw {
                    if i + b < d {
                        e.push((i, i + b));
                    }
                }
            }
            cov = laplacian_cov(rng, d, &e);
        }
        3 => {
            let nb = if d >= 5 && rng.bool() { 3 } else { 2 };
            let mut cuts: Vec<usize> = Vec::new();
            while cuts.len() < nb - 1 {
                let c = rng.usize(1, d - 1);
                if !cuts.contains(&c) {
                    cuts.push(c);
                }
            }
            let block_of = |i: usize| cuts.iter().filter(|c| **c <= i).count();
            let mut e = Vec::new();
            for i in 0..d {
                for j in 0..i {
                    if block_of(i) == block_of(j) {
                        e.push((j, i));
                    }
                }
            }
            cov = laplacian_cov(rng, d, &e);
        }
        4 => {
            let e: Vec<(usize, usize)> = match rng.usize(0, 3) {
                0 if d >= 3 => (0..d).map(|i| (i, (i + 1) % d)).collect(),
                1 => random_tree(rng, d),
                2 => (1..d).map(|i| (0, i)).collect(),
                _ => {
                    let mut e = Vec::new();
                    for i in 0..d {
                        for j in 0..i {
                            if rng.chance(0.45) {
                                e.push((j, i));
                            }
                        }
                    }
                    if e.is_empty() {
                        e.push((0, d - 1));
                    }
                    e
                }
            };
            let e = relabel(rng, d, &e);
            cov = laplacian_cov(rng, d, &e);
        }
        5 => {
            let e = if rng.bool() { (0..d - 1).map(|i| (i, i + 1)).collect() } else { random_tree(rng, d) };
            let e = relabel(rng, d, &e);
            let k = laplacian_cov(rng, d, &e);
            match linref::inverse(&k, d) {
                Some(inv) => {
                    for i in 0..d {
                        for j in 0..=i {
                            cov[i * d + j] = inv[i * d + j];
                            cov[j * d + i] = inv[i * d + j];
                        }
                    }
                }
                None => cov = k,
            }
        }
        _ => {
            let mut u: Vec<f64> = (0..d).map(|_| if rng.chance(0.3) { 0.0 } else { rng.range(0.5, 1.5) * if rng.bool() { 1.0 } else { -1.0 } }).collect();
            if u.iter().filter(|x| **x != 0.0).count() < 2 {
                u[0] = 1.25;
                u[d - 1] = -0.75;
            }
            for i in 0..d {
                for j in 0..d {
                    cov[i * d + j] = u[i] * u[j] + if i == j { rng.range(0.2, 1.0) } else { 0.0 };
                }
            }
        }
    }
    let unit = rng.bool();
    let sc: Vec<f64> = (0..d).map(|_| if unit { 1.0 } else { rng.log_range(0.1, 10.0) }).collect();
    let mut sigma = vec![0.0; d * d];
    for i in 0..d {
        for j in 0..=i {
            let v = (cov[i * d + j] * sc[i]) * sc[j];
            sigma[i * d + j] = v;
            sigma[j * d + i] = v;
        }
    }
    let mean = (0..d).map(|i| sc[i] * rng.range(-10.0, 10.0)).collect();
    MvnSpec { regime: STRUCTURED[kind], mean, sigma }
}

/// The structured family of one run: every kind once at a dimension that cycles through 3..6 with the
/// run seed, then `extra` random (kind, dimension 2..6) pairs.
fn mvn_structured_cases(rng: &mut Rng, extra: usize) -> Vec<MvnSpec> {
    let mut out = Vec::new();
    let off = rng.usize(0, 3);
    for kind in 0..STRUCTURED.len() {
        out.push(mvn_structured(rng, 3 + (kind + off) % 4, kind));
    }
    for _ in 0..extra {
        let (d, kind) = (rng.usize(2, 6), rng.usize(0, STRUCTURED.len() - 1));
        out.push(mvn_structured(rng, d, kind));
    }
    out
}

#[derive(Clone, Debug)]
enum CaseSpec {
    One(Law),
    Mvn(MvnSpec),
}

// ---------------------------------------------------------------------------------------------
// the case grid (DESIGN §3 C03 "W")

fn base_grid() -> Vec<CaseSpec> {
    use Law::*;
    let mut v: Vec<Law> = Vec::new();
    // normal, |mu| up to 1e3, several scales, degenerate sigma
    for &(m, s) in &[(0.0, 1.0), (1e3, 1.0), (-1e3, 2.5), (5.0, 1e-3), (-3.0, 1e3), (1e3, 1e-3), (2.0, 0.0)] {
        v.push(Normal(m, s));
    }
    // gamma: shape on both sides of 1/3 and 1, several rates
    for &(a, b) in &[
        (0.05, 1.0),
        (0.2, 2.0),
        (0.33, 1.0),
        (THIRD, 1.0),
        (0.34, 1.0),
        (0.5, 1.0),
        (0.9, 0.5),
        (1.0, 1.0),
        (1.5, 4.0),
        (2.0, 4.0),
        (5.0, 1e-3),
        (50.0, 1e3),
        (1000.0, 1.0),
    ] {
        v.push(Gamma(a, b));
    }
    for &(a, b) in &[(0.2, 2.0), (3.0, 0.1), (0.5, 0.5), (0.8, 2.0), (5.0, 0.7), (1.0, 1.0), (2.0, 3.0), (1.0, 5.0), (1.5, 1.0), (50.0, 20.0)] {
        v.push(Beta(a, b));
    }
    for &k in &[1usize, 2, 3, 10, 100] {
        v.push(Chi2(k));
    }
    for &d in &[0.5, 0.8, 1.0, 1.5, 2.0, 5.0, 30.0] {
        v.push(T(d));
    }
    for &l in &[3.0, 0.1, 9.9, 10.0, 42.0, 100.0, 125.0, 149.0, 150.0, 200.0, 1e3] {
        v.push(Poisson(l));
    }
    for &(n, p) in &[
        // inversion, p <= 0.5
        (1u64, 0.5),
        (10, 0.3),
        (60, 0.5),
        (100, 0.3),
        (100_000, 2e-4),
        (100_000, 3e-4),
        // inversion, flipped
        (10, 0.9),
        (100, 0.75),
        (100_000, 0.9998),
        // inversion, flipped, with n*p > 30 but n*(1-p) small (a switch decided on the unflipped
        // mean would send these to BTPE, whose set-up is invalid there)
        (1000, 0.998),
        (100, 0.97),
        (35, 0.99),
        (100_000, 0.99999),
        // BTPE, p <= 0.5
        (61, 0.5),
        (100, 0.31),
        (1000, 0.5),
        (100_000, 3.1e-4),
        (100_000, 0.01),
        (100_000, 0.5),
        // BTPE, flipped
        (100, 0.69),
        (1000, 0.969),
        (100_000, 0.6),
        // degenerate
        (0, 0.3),
        (25, 0.0),
        (25, 1.0),
    ] {
        v.push(Binomial(n, p));
    }
    for &l in &[1.0, 1e-3, 1e3, 0.5] {
        v.push(Exponential(l));
    }
    for &(m, b) in &[(0.0, 1.0), (1e3, 0.5), (-5.0, 100.0)] {
        v.push(Gumbel(m, b));
    }
    for &(a, m) in &[(1.0, 1.0), (0.5, 2.0), (10.0, 1e-3), (3.0, 1e3)] {
        v.push(Pareto(a, m));
    }
    for &(a, b) in &[(0.0, 1.0), (-1e3, 1e3), (5.0, 5.001), (-1e-3, 0.0), (2.5, 2.5), (0.0, 0.0)] {
        v.push(Uniform(a, b));
    }
    // very wide supports (any i64 bounds are valid parameters): a reduction of the raw 64-bit word
    // that is not uniform over the span shows only there
    for &(a, b) in &[(-3i64 << 60, (3i64 << 60) - 1), (0i64, 1i64 << 62), (i64::MIN / 2, i64::MAX / 2), (-(1i64 << 56), 5i64 << 59)] {
        v.push(DiscreteUniform(a, b));
    }
    for &(a, b) in &[(0i64, 1i64), (-5, 5), (1, 6), (0, 999), (-1_000_000_000, 1_000_000_000), (3, 3), (-7, -7)] {
        v.push(DiscreteUniform(a, b));
    }
    for &p in &[0.5, 0.01, 0.999, 0.0, 1.0] {
        v.push(Bernoulli(p));
    }
    let mut out: Vec<CaseSpec> = v.into_iter().map(CaseSpec::One).collect();
    // MVN
    out.push(CaseSpec::Mvn(MvnSpec { regime: "mvn:d=1", mean: vec![3.0], sigma: vec![4.0] }));
    out.push(CaseSpec::Mvn(MvnSpec { regime: "mvn:identity", mean: vec![0.0, 0.0], sigma: vec![1.0, 0.0, 0.0, 1.0] }));
    out.push(CaseSpec::Mvn(MvnSpec {
        regime: "mvn:diagonal",
        mean: vec![-1e3, 0.0, 1e3],
        sigma: vec![0.01, 0.0, 0.0, 0.0, 1.0, 0.0, 0.0, 0.0, 100.0],
    }));
    out.push(CaseSpec::Mvn(MvnSpec { regime: "mvn:correlated", mean: vec![1.0, -1.0], sigma: vec![1.0, 0.9, 0.9, 1.0] }));
    out.push(CaseSpec::Mvn(MvnSpec {
        regime: "mvn:correlated",
        mean: vec![0.0, 10.0, -10.0],
        sigma: vec![1.0, -0.99, 0.0, -0.99, 1.0, 0.1, 0.0, 0.1, 4.0],
    }));
    out
}

const DEEP_N: usize = 4_000_000;

/// Deeper quick-tier cases: one or two per sampler branch, all in regimes where the code is believed
/// correct (a defect regime gains nothing from more draws).
fn sentinels() -> Vec<CaseSpec> {
    use Law::*;
    let mut out: Vec<CaseSpec> = [
        Normal(0.0, 1.0),
        Gamma(1.0, 1.0),
        Gamma(2.5, 1.0),
        Gamma(30.0, 2.0),
        Beta(2.0, 3.0),
        Chi2(3),
        T(5.0),
        Poisson(3.0),
        Poisson(10.0),
        Poisson(42.0),
        Poisson(90.0),
        Binomial(100, 0.3),
        Binomial(100, 0.31),
        Binomial(61, 0.5),
        Binomial(1000, 0.2),
        Binomial(100_000, 0.5),
        Binomial(1000, 0.8),
        Exponential(1.0),
        Gumbel(0.0, 1.0),
        Pareto(2.0, 1.0),
        Uniform(0.0, 1.0),
        DiscreteUniform(1, 6),
        Bernoulli(0.3),
    ]
    .into_iter()
    .map(CaseSpec::One)
    .collect();
    out.push(CaseSpec::Mvn(MvnSpec { regime: "mvn:correlated", mean: vec![1.0, -1.0], sigma: vec![1.0, 0.9, 0.9, 1.0] }));
    out
}

/// A random parameter point inside one of the regimes (used for the "× parameter grids" part beyond
/// the fixed grid; labels come from `Law::regime`, so a point is judged under its own class).
fn random_case(rng: &mut Rng) -> CaseSpec {
    use Law::*;
    let law = match rng.usize(0, 27) {
        0 => Normal(rng.range(-1e3, 1e3), rng.log_range(1e-3, 1e3)),
        1 => Gamma(rng.log_range(0.02, 0.32), rng.log_range(1e-2, 1e2)),
        2 => Gamma(rng.range(0.34, 0.99), rng.log_range(1e-2, 1e2)),
        3 | 4 => Gamma(rng.log_range(1.0, 300.0), rng.log_range(1e-2, 1e2)),
        5 => {
            let (a, b) = (rng.log_range(0.05, 0.32), rng.log_range(0.4, 10.0));
            if rng.bool() {
                Beta(a, b)
            } else {
                Beta(b, a)
            }
        }
        6 => {
            let (a, b) = (rng.range(0.34, 0.99), rng.log_range(0.4, 10.0));
            if rng.bool() {
                Beta(a, b)
            } else {
                Beta(b, a)
            }
        }
        7 | 8 => Beta(rng.log_range(1.0, 100.0), rng.log_range(1.0, 100.0)),
        9 => Chi2(rng.usize(2, 60)),
        10 => T(rng.range(0.1, 0.66)),
        11 => T(rng.range(0.67, 1.99)),
        12 => T(rng.log_range(2.0, 100.0)),
        13 => Poisson(rng.log_range(0.05, 9.99)),
        14 => Poisson(rng.range(10.0, 100.0)),
        15 => Poisson(rng.log_range(150.0, 3000.0)),
        16 | 17 => {
            // inversion side: n * q <= 30
            let n = rng.log_range(1.0, 1e5).floor() as u64;
            let q = rng.range(0.0, (30.0 / n as f64).min(0.5)).max(1e-9);
            Binomial(n, if rng.bool() { 1.0 - q } else { q })
        }
        18 | 19 | 20 => {
            // BTPE side: n * q > 30
            let n = rng.log_range(70.0, 1e5).floor() as u64;
            let lo = 30.5 / n as f64;
            let q = rng.range(lo, 0.5);
            Binomial(n, if rng.bool() { 1.0 - q } else { q })
        }
        21 => Exponential(rng.log_range(1e-3, 1e3)),
        22 => Gumbel(rng.range(-1e3, 1e3), rng.log_range(1e-2, 1e2)),
        23 => Pareto(rng.log_range(0.3, 20.0), rng.log_range(1e-3, 1e3)),
        24 => {
            let a = rng.range(-1e3, 1e3);
            Uniform(a, a + rng.log_range(1e-3, 1e3))
        }
        25 => {
            let a = rng.int(-1000, 1000);
            DiscreteUniform(a, a + rng.int(1, 1000))
        }
        26 => Bernoulli(rng.range(0.001, 0.999)),
        _ => {
            let d = rng.usize(2, 4);
            return CaseSpec::Mvn(mvn_random(rng, d));
        }
    };
    CaseSpec::One(law)
}

// ---------------------------------------------------------------------------------------------
// drawing under the iteration budget

type SiteCounts = BTreeMap<&'static str, u64>;

fn absorb(local: &mut SiteCounts) {
    for (k, v) in vh::snapshot() {
        if v > 0 {
            *local.entry(k).or_insert(0) += v;
        }
    }
    vh::reset();
}

fn flush(rep: &mut Report, local: &SiteCounts) {
    for (k, v) in local {
        *rep.hooks.entry(k.to_string()).or_insert(0) += v;
    }
}

#[derive(Clone, Copy, Debug)]
enum Mode {
    Single,
    VecN,
    Mat(usize, usize),
}

/// How the n draws of a case are requested: a few small bulk calls (count 0, 1, odd shapes) and then
/// chunks cycling through `sample()`, `sample_n(m)` and `sample_matrix(r, c)`.
fn schedule(n: usize, chunk: usize) -> Vec<(Mode, usize)> {
    let mut s = vec![(Mode::VecN, 0), (Mode::VecN, 1), (Mode::Mat(1, 1), 1), (Mode::Mat(3, 5), 15), (Mode::Mat(5, 3), 15), (Mode::VecN, 7)];
    let mut have: usize = s.iter().map(|x| x.1).sum();
    let mut k = 0;
    while have < n {
        let m = chunk.min(n - have);
        let mode = match k % 4 {
            0 => Mode::Single,
            1 => Mode::VecN,
            2 if m % 16 == 0 => Mode::Mat(m / 16, 16),
            3 if m % 16 == 0 => Mode::Mat(16, m / 16),
            2 => Mode::Mat(m, 1),
            _ => Mode::Mat(1, m),
        };
        s.push((mode, m));
        have += m;
        k += 1;
    }
    s
}

enum DrawEnd {
    Done,
    /// the case cannot continue (violation already recorded)
    Aborted,
}

struct BulkStat {
    n_calls: u64,
    m_calls: u64,
    n_bad: Option<Value>,
    m_bad: Option<Value>,
}

/// Draw according to `plan`, appending to `xs`.
fn draw_1d(rep: &mut Report, regime: &str, d: &dyn Distribution1D, plan: &[(Mode, usize)], xs: &mut Vec<f64>, local: &mut SiteCounts, bulk: &mut BulkStat, ctx: &dyn Fn() -> Value) -> DrawEnd {
    for &(mode, m) in plan {
        let state = alea::get_seed();
        let r = guard(|| match mode {
            Mode::Single => {
                let v: Vec<f64> = (0..m).map(|_| d.sample()).collect();
                (v, 0usize, 0usize)
            }
            Mode::VecN => {
                let v: Vector = d.sample_n(m);
                (v.v, 0, 0)
            }
            Mode::Mat(r, c) => {
                let mm: Matrix = d.sample_matrix(r, c);
                (mm.data.v, mm.nrows, mm.ncols)
            }
        });
        absorb(local);
        match r {
            Ok((v, nr, nc)) => {
                match mode {
                    Mode::Single => {}
                    Mode::VecN => {
                        bulk.n_calls += 1;
                        if v.len() != m && bulk.n_bad.is_none() {
                            bulk.n_bad = Some(json!({"requested": m, "returned_len": v.len()}));
                        }
                    }
                    Mode::Mat(r, c) => {
                        bulk.m_calls += 1;
                        if (nr != r || nc != c || v.len() != r * c) && bulk.m_bad.is_none() {
                            bulk.m_bad = Some(json!({"requested": [r, c], "returned_shape": [nr, nc], "returned_len": v.len()}));
                        }
                    }
                }
                xs.extend_from_slice(&v);
            }
            Err(msg) if is_budget_panic(&msg) => {
                // the chunk as a whole exceeded 10^6 ticks at one site: decide per draw
                alea::set_seed(state);
                for k in 0..m {
                    vh::reset();
                    let one = guard(|| d.sample());
                    absorb(local);
                    match one {
                        Ok(x) => xs.push(x),
                        Err(msg1) if is_budget_panic(&msg1) => {
                            rep.check("C03.terminates", regime, false, || {
                                let mut c = ctx();
                                c["draw_index"] = json!(xs.len());
                                c["index_in_chunk"] = json!(k);
                                c["panic"] = json!(msg1);
                                c["budget_per_site_per_draw"] = json!(BUDGET_NOW.with(|b| b.get()));
                                c["expected"] = json!("every draw finishes within the iteration budget (bounded-progress restatement of 'sampling terminates')");
                                c
                            });
                            return DrawEnd::Aborted;
                        }
                        Err(msg1) => {
                            rep.check("C03.no_panic", regime, false, || {
                                let mut c = ctx();
                                c["draw_index"] = json!(xs.len());
                                c["panic"] = json!(msg1);
                                c
                            });
                            return DrawEnd::Aborted;
                        }
                    }
                }
            }
            Err(msg) => {
                rep.check("C03.no_panic", regime, false, || {
                    let mut c = ctx();
                    c["call"] = json!(format!("{:?} x{}", mode, m));
                    c["draws_before"] = json!(xs.len());
                    c["panic"] = json!(msg);
                    c["expected"] = json!("a draw (valid parameters)");
                    c
                });
                return DrawEnd::Aborted;
            }
        }
    }
    DrawEnd::Done
}

thread_local! {
    static BUDGET_NOW: std::cell::Cell<u64> = const { std::cell::Cell::new(BUDGET) };
}

fn arm_budget(cfg: &Cfg) {
    // Miri executes ~10^3 times slower: the smoke run only exercises the plumbing with a smaller
    // budget (still > 10^3 times the iterations any correct draw needs); the per-draw replay keeps
    // the verdict sound for any budget.
    let b = if cfg.miri() { 1_000 } else { BUDGET };
    BUDGET_NOW.with(|c| c.set(b));
    vh::reset();
    vh::set_budget(b);
}

fn rng_draws_since(state0: u64) -> u64 {
    alea::get_seed().wrapping_sub(state0).wrapping_mul(WY_INV)
}

/// sup|F_n − F| evaluated at every sample point and its left limit (`stats::ks_distance`).
#[cfg(not(miri))]
fn ks(xs: &mut [f64], cdf: &dyn Fn(f64) -> f64, cdf_left: &dyn Fn(f64) -> f64) -> (f64, f64) {
    stats::ks_distance(xs, cdf, cdf_left)
}

// ---------------------------------------------------------------------------------------------
// one 1-D case

fn run_1d(cfg: &Cfg, rep: &mut Report, law: &Law, n: usize, seed: u64) {
    let regime = law.regime();
    rep.case(regime);
    let nontrivial = law.point_mass().is_none();
    rep.distinct(law.hash(seed), nontrivial);
    let ctx = || json!({"family": law.family(), "params": jf(&law.params()), "law": format!("{:?}", law), "alea_seed": seed, "n_requested": n});
    arm_budget(cfg);
    let d = match guard(|| law.build()) {
        Ok(d) => d,
        Err(msg) => {
            rep.check("C03.no_panic", regime, false, || {
                let mut c = ctx();
                c["call"] = json!("constructor");
                c["panic"] = json!(msg);
                c
            });
            vh::set_budget(u64::MAX);
            return;
        }
    };
    alea::set_seed(seed);
    let state0 = alea::get_seed();
    let chunk = if cfg.lite { 16 } else { 1024 };
    let plan = schedule(n, chunk);
    let mut xs: Vec<f64> = Vec::with_capacity(n + 64);
    let mut local = SiteCounts::new();
    let mut bulk = BulkStat { n_calls: 0, m_calls: 0, n_bad: None, m_bad: None };
    let end = draw_1d(rep, regime, d.as_ref(), &plan, &mut xs, &mut local, &mut bulk, &ctx);
    vh::set_budget(u64::MAX);
    let raw = rng_draws_since(state0);
    flush(rep, &local);
    rep.note_add(&format!("draws.{}", law.family()), xs.len() as f64);
    rep.note_add(&format!("rng_raw_draws.{}", law.family()), raw as f64);
    let n_drawn = xs.len();
    let sample_json = |outcome: Value| json!({"law": format!("{:?}", law), "regime": regime, "alea_seed": seed, "n": n_drawn, "outcome": outcome});
    if let DrawEnd::Aborted = end {
        rep.sample(|| sample_json(json!("aborted: see violations")));
        return;
    }
    rep.check("C03.no_panic", regime, true, || json!(null));
    rep.check("C03.terminates", regime, true, || json!(null));
    // bulk count / shape
    if bulk.n_calls > 0 {
        let bad = bulk.n_bad.take();
        rep.check("C03.bulk.sample_n.count", regime, bad.is_none(), || {
            let mut c = ctx();
            c["observed"] = bad.clone().unwrap_or(json!(null));
            c
        });
    }
    if bulk.m_calls > 0 {
        let bad = bulk.m_bad.take();
        rep.check("C03.bulk.sample_matrix.shape", regime, bad.is_none(), || {
            let mut c = ctx();
            c["observed"] = bad.clone().unwrap_or(json!(null));
            c
        });
    }
    let total: usize = plan.iter().map(|p| p.1).sum();
    rep.check("C03.bulk.total", regime, xs.len() == total, || {
        let mut c = ctx();
        c["observed_total"] = json!(xs.len());
        c["expected_total"] = json!(total);
        c
    });
    // support
    let bad = xs.iter().position(|&x| !law.in_support(x));
    rep.check("C03.support", regime, bad.is_none(), || {
        let mut c = ctx();
        let i = bad.unwrap();
        c["draw_index"] = json!(i);
        c["observed"] = jnum(xs[i]);
        c["count_outside"] = json!(xs.iter().filter(|&&x| !law.in_support(x)).count());
        c["expected"] = json!("finite value inside the closed support");
        c
    });
    if law.discrete() {
        let badi = xs.iter().position(|&x| !(x.is_finite() && x == x.trunc()));
        rep.check("C03.integer", regime, badi.is_none(), || {
            let mut c = ctx();
            c["draw_index"] = json!(badi.unwrap());
            c["observed"] = jnum(xs[badi.unwrap()]);
            c
        });
    }
    // the branch the label promises really ran
    for site in law.expected_sites() {
        if local.get(site).copied().unwrap_or(0) == 0 {
            // evidence only: the tick lines are instrumentation inside the library's current algorithm; another
            // correct sampler for the same law has no such branch, and the law itself is judged below
            rep.note_add(&format!("hook_site_not_ticked.{}.{}", law.family(), site), 1.0);
        }
    }
    let per = raw as f64 / xs.len().max(1) as f64;
    rep.note_max(&format!("rng_raw_draws_per_sample_max.{}", law.family()), per);
    // DKW
    #[cfg(not(miri))]
    {
        if xs.iter().any(|x| !x.is_finite()) {
            // already a support violation; F_n is not defined on non-finite draws
            rep.sample(|| sample_json(json!("non-finite draws")));
            return;
        }
        let nn = xs.len();
        let eps = stats::dkw_eps(nn, ALPHA);
        // continuous laws: rounding-aware statistic (a draw is only known to one ulp)
        let (dist, at) = if law.discrete() || law.point_mass().is_some() {
            ks(&mut xs, &|x| law.cdf(x), &|x| law.cdf_left(x))
        } else {
            stats::ks_distance_rounded(&mut xs, |x| law.cdf(x))
        };
        let ok = dist <= eps;
        let ratio = dist / eps;
        rep.note_max(&format!("worst_ratio.dkw.{}", regime), ratio);
        if ok {
            rep.note_max("worst_ratio.dkw_passing_cases", ratio);
        }
        rep.check("C03.dkw", regime, ok, || {
            let mut c = ctx();
            let below = xs.iter().filter(|&&x| x < at).count();
            let upto = xs.iter().filter(|&&x| x <= at).count();
            c["n"] = json!(nn);
            c["D"] = jnum(dist);
            c["eps"] = json!(eps);
            c["alpha"] = json!(ALPHA);
            c["argmax_x"] = jnum(at);
            c["F_left(x)"] = jnum(law.cdf_left(at));
            c["F(x)"] = jnum(law.cdf(at));
            c["Fn_left(x)"] = json!(below as f64 / nn as f64);
            c["Fn(x)"] = json!(upto as f64 / nn as f64);
            c["sample_mean"] = jnum(xs.iter().sum::<f64>() / nn as f64);
            c
        });
        rep.sample(|| sample_json(json!({"D": dist, "eps": eps, "rng_raw_draws_per_sample": per})));
    }
    #[cfg(miri)]
    rep.sample(|| sample_json(json!({"rng_raw_draws_per_sample": per})));
}

// ---------------------------------------------------------------------------------------------
// one MVN case

fn run_mvn(cfg: &Cfg, rep: &mut Report, spec: &MvnSpec, n: usize, seed: u64, rng: &mut Rng) {
    let regime = spec.regime;
    let d = spec.mean.len();
    rep.case(regime);
    rep.distinct(Hasher::new().s("mvn").fs(&spec.mean).fs(&spec.sigma).u(seed).finish(), true);
    let ctx = || json!({"family": "mvn", "dim": d, "mean": jf(&spec.mean), "sigma_row_major": jf(&spec.sigma), "alea_seed": seed, "n_requested": n});
    let l = match linref::cholesky(&spec.sigma, d) {
        Some(l) => l,
        None => {
            rep.inconclusive(format!("generator produced a covariance the reference Cholesky rejects: {:?}", spec.sigma));
            return;
        }
    };
    arm_budget(cfg);
    let mvn = match guard(|| MVN::new(Vector::new(spec.mean.clone()), Matrix::new(spec.sigma.clone(), d as i32, d as i32))) {
        Ok(m) => m,
        Err(msg) => {
            rep.check("C03.no_panic", regime, false, || {
                let mut c = ctx();
                c["call"] = json!("MVN::new");
                c["panic"] = json!(msg);
                c["expected"] = json!("a distribution object (symmetric positive definite covariance)");
                c
            });
            vh::set_budget(u64::MAX);
            return;
        }
    };
    let dim_ok = mvn.get_dim() == d;
    rep.check("C03.mvn.dim", regime, dim_ok, || {
        let mut c = ctx();
        c["get_dim"] = json!(mvn.get_dim());
        c
    });
    alea::set_seed(seed);
    let state0 = alea::get_seed();
    // raw draws, row-major n x d
    let mut raw: Vec<f64> = Vec::with_capacity(n * d);
    let mut local = SiteCounts::new();
    let chunk = if cfg.lite { 8 } else { 512 };
    let mut have = 0usize;
    let mut k = 0usize;
    let mut shape_bad: Option<Value> = None;
    let mut calls_n = 0u64;
    let mut calls_1 = 0u64;
    let mut aborted = false;
    while have < n && !aborted {
        let m = if k == 0 { 1 } else { chunk.min(n - have) };
        let single = k % 2 == 1;
        let state = alea::get_seed();
        let r = guard(|| {
            if single {
                let mut out = Vec::with_capacity(m * d);
                let mut lens_ok = true;
                for _ in 0..m {
                    let v: Vector = mvn.sample();
                    lens_ok &= v.len() == d;
                    out.extend_from_slice(&v.v);
                }
                (out, if lens_ok { m } else { usize::MAX }, d)
            } else {
                let mm: Matrix = DistributionND::sample_n(&mvn, m);
                (mm.data.v, mm.nrows, mm.ncols)
            }
        });
        absorb(&mut local);
        match r {
            Ok((v, nr, nc)) => {
                if single {
                    calls_1 += 1;
                } else {
                    calls_n += 1;
                }
                if nr != m || nc != d || v.len() != m * d {
                    if shape_bad.is_none() {
                        shape_bad = Some(json!({"api": if single {"sample"} else {"sample_n"}, "requested": [m, d], "returned_shape": [if nr == usize::MAX { json!("a draw with len != d") } else { json!(nr) }, json!(nc)], "returned_len": v.len()}));
                    }
                    aborted = true; // rows cannot be delimited any more
                } else {
                    raw.extend_from_slice(&v);
                    have += m;
                }
            }
            Err(msg) => {
                // decide per draw when it was the budget; any other panic is a violation
                let mut msg_final = msg.clone();
                let mut budget = is_budget_panic(&msg);
                if budget {
                    alea::set_seed(state);
                    budget = false;
                    let mut all_ok = true;
                    for _ in 0..m {
                        vh::reset();
                        let one = guard(|| mvn.sample());
                        absorb(&mut local);
                        match one {
                            Ok(v) if v.len() == d => raw.extend_from_slice(&v.v),
                            Ok(_) => {
                                all_ok = false;
                                msg_final = "draw with len != d".into();
                                break;
                            }
                            Err(m1) => {
                                all_ok = false;
                                budget = is_budget_panic(&m1);
                                msg_final = m1;
                                break;
                            }
                        }
                    }
                    if all_ok {
                        have += m;
                        k += 1;
                        continue;
                    }
                }
                let id = if budget { "C03.terminates" } else { "C03.no_panic" };
                rep.check(id, regime, false, || {
                    let mut c = ctx();
                    c["draws_before"] = json!(have);
                    c["panic"] = json!(msg_final);
                    c
                });
                aborted = true;
            }
        }
        k += 1;
    }
    vh::set_budget(u64::MAX);
    let rawdraws = rng_draws_since(state0);
    flush(rep, &local);
    rep.note_add("draws.mvn", have as f64);
    rep.note_add("rng_raw_draws.mvn", rawdraws as f64);
    if calls_n + calls_1 > 0 {
        let bad = shape_bad.take();
        rep.check("C03.bulk.mvn.shape", regime, bad.is_none(), || {
            let mut c = ctx();
            c["observed"] = bad.clone().unwrap_or(json!(null));
            c
        });
        if bad.is_some() {
            return;
        }
    }
    if aborted {
        return;
    }
    rep.check("C03.no_panic", regime, true, || json!(null));
    rep.check("C03.terminates", regime, true, || json!(null));
    if local.get("normal.zig").copied().unwrap_or(0) == 0 {
        rep.note_add("hook_site_not_ticked.mvn.normal.zig", 1.0);
    }
    let nn = have;
    let badpos = raw.iter().position(|x| !x.is_finite());
    rep.check("C03.support", regime, badpos.is_none(), || {
        let mut c = ctx();
        let i = badpos.unwrap();
        c["draw_index"] = json!(i / d);
        c["coordinate"] = json!(i % d);
        c["observed"] = jnum(raw[i]);
        c
    });
    if badpos.is_some() {
        return;
    }
    // whiten in place: z = L^{-1} (x − μ) with the harness's own factor of the *requested* Σ
    let mut mean_err = 0.0f64;
    let mut s1 = vec![0.0f64; d];
    let mut s2 = vec![0.0f64; d * d];
    for row in raw.chunks_exact_mut(d) {
        for i in 0..d {
            let mut v = row[i] - spec.mean[i];
            for j in 0..i {
                v -= l[i * d + j] * row[j];
            }
            row[i] = v / l[i * d + i];
        }
        for i in 0..d {
            s1[i] += row[i];
            for j in 0..=i {
                s2[i * d + j] += row[i] * row[j];
            }
        }
    }
    // evidence only: mean / covariance of the whitened draws (should be 0 / I)
    let mut cov_err = 0.0f64;
    for i in 0..d {
        let mi = s1[i] / nn as f64;
        mean_err = mean_err.max(mi.abs());
        for j in 0..=i {
            let mj = s1[j] / nn as f64;
            let c = s2[i * d + j] / nn as f64 - mi * mj;
            let want = if i == j { 1.0 } else { 0.0 };
            cov_err = cov_err.max((c - want).abs());
        }
    }
    rep.note_max("mvn.whitened_mean_abs_err_max", mean_err);
    rep.note_max("mvn.whitened_cov_abs_err_max", cov_err);
    #[cfg(not(miri))]
    {
        let eps = stats::dkw_eps(nn, ALPHA);
        let std_cdf = |x: f64| sp::norm_cdf(x, 0.0, 1.0);
        let mut buf: Vec<f64> = vec![0.0; nn];
        let mut worst = 0.0f64;
        for j in 0..d {
            for (t, row) in raw.chunks_exact(d).enumerate() {
                buf[t] = row[j];
            }
            let (dist, at) = ks(&mut buf, &std_cdf, &std_cdf);
            worst = worst.max(dist / eps);
            rep.check("C03.mvn.coord", regime, dist <= eps, || {
                let mut c = ctx();
                c["whitened_coordinate"] = json!(j);
                c["n"] = json!(nn);
                c["D"] = jnum(dist);
                c["eps"] = json!(eps);
                c["argmax_x"] = jnum(at);
                c["whitened_mean_abs_err"] = json!(mean_err);
                c["whitened_cov_abs_err"] = json!(cov_err);
                c["expected"] = json!("N(0,1) after whitening with chol(requested covariance)");
                c
            });
        }
        for p in 0..8 {
            let mut u: Vec<f64> = rng.normals(d);
            let nrm = u.iter().map(|x| x * x).sum::<f64>().sqrt();
            if !(nrm > 0.0) {
                u = vec![0.0; d];
                u[0] = 1.0;
            } else {
                for x in u.iter_mut() {
                    *x /= nrm;
                }
            }
            for (t, row) in raw.chunks_exact(d).enumerate() {
                let mut s = 0.0;
                for i in 0..d {
                    s += u[i] * row[i];
                }
                buf[t] = s;
            }
            let (dist, at) = ks(&mut buf, &std_cdf, &std_cdf);
            worst = worst.max(dist / eps);
            rep.check("C03.mvn.proj", regime, dist <= eps, || {
                let mut c = ctx();
                c["projection_index"] = json!(p);
                c["unit_direction_in_whitened_space"] = jf(&u);
                c["n"] = json!(nn);
                c["D"] = jnum(dist);
                c["eps"] = json!(eps);
                c["argmax_x"] = jnum(at);
                c
            });
        }
        // Structured covariances: the statement "these two coordinates have covariance Σ_ij" is a
        // statement about one fixed projection, so every pair (i, j) is projected on its own:
        //   * (z_i ± z_j)/√2 of the whitened draws, and
        //   * (x_i − μ_i)/sd_i ± (x_j − μ_j)/sd_j of the draws themselves, divided by the standard
        //     deviation sqrt(2 ± 2ρ_ij) the requested Σ gives it. With x − μ = L z this is the unit
        //     direction Lᵀu/|Lᵀu| in whitened space, u = e_i/sd_i ± e_j/sd_j.
        // Directions are fixed before the draws are looked at: each test has false-alarm probability
        // <= 1e-12 like every other DKW test here (at most 2·d·(d−1) = 60 per case).
        if regime.starts_with("mvn:structured") {
            let fillin = (0..d).any(|a| (0..a).any(|b| spec.sigma[a * d + b] == 0.0 && l[a * d + b] != 0.0));
            if fillin {
                rep.seen("mvn:structured:zero-with-fill-in", 1);
            }
            if (0..d).any(|a| (0..a).any(|b| spec.sigma[a * d + b] == 0.0)) {
                rep.seen("mvn:structured:exact-zero", 1);
            }
            let mut dirs: Vec<(usize, usize, f64, &'static str, Vec<f64>)> = Vec::new();
            for i in 0..d {
                for j in 0..i {
                    for sg in [1.0, -1.0] {
                        let mut w = vec![0.0; d];
                        w[i] = std::f64::consts::FRAC_1_SQRT_2;
                        w[j] = sg * std::f64::consts::FRAC_1_SQRT_2;
                        dirs.push((i, j, sg, "whitened", w));
                        // Lᵀu, u = e_i/sd_i + sg·e_j/sd_j
                        let (si, sj) = (spec.sigma[i * d + i].sqrt(), spec.sigma[j * d + j].sqrt());
                        let mut v = vec![0.0; d];
                        for k in 0..d {
                            v[k] = l[i * d + k] / si + sg * l[j * d + k] / sj;
                        }
                        let nrm = v.iter().map(|x| x * x).sum::<f64>().sqrt();
                        // perfectly (anti)correlated pairs have no second direction
                        if nrm > 1e-6 {
                            for x in v.iter_mut() {
                                *x /= nrm;
                            }
                            dirs.push((i, j, sg, "standardised-coordinates", v));
                        }
                    }
                }
            }
            for (i, j, sg, space, u) in dirs.iter() {
                for (t, row) in raw.chunks_exact(d).enumerate() {
                    let mut s = 0.0;
                    for k in 0..d {
                        s += u[k] * row[k];
                    }
                    buf[t] = s;
                }
                let (dist, at) = ks(&mut buf, &std_cdf, &std_cdf);
                worst = worst.max(dist / eps);
                rep.check("C03.mvn.pairproj", regime, dist <= eps, || {
                    let mut c = ctx();
                    c["pair"] = json!([i, j]);
                    c["sign"] = json!(sg);
                    c["space"] = json!(space);
                    c["requested_covariance_of_pair"] = json!(spec.sigma[i * d + j]);
                    c["unit_direction_in_whitened_space"] = jf(u);
                    c["n"] = json!(nn);
                    c["D"] = jnum(dist);
                    c["eps"] = json!(eps);
                    c["argmax_x"] = jnum(at);
                    c["whitened_cov_abs_err"] = json!(cov_err);
                    c
                });
            }
        }
        rep.note_max(&format!("worst_ratio.dkw.{}", regime), worst);
        // (a failing MVN case is not a "passing case"; only record the margin when everything passed)
        if worst <= 1.0 {
            rep.note_max("worst_ratio.dkw_passing_cases", worst);
        }
    }
    #[cfg(miri)]
    let _ = rng;
    rep.sample(|| json!({"law": "MVN", "regime": regime, "dim": d, "alea_seed": seed, "n": nn, "whitened_mean_abs_err": mean_err, "whitened_cov_abs_err": cov_err}));
}

// ---------------------------------------------------------------------------------------------
// multivariate normal at larger dimensions

/// Covariances whose Cholesky factor the harness computes itself in plain f64 (all well conditioned:
/// cond of the correlation part below ~1e4, per-coordinate scales 0.1..10).
const HIGHDIM_KINDS: [&str; 4] = ["ar1", "equicorrelated", "diag+rank-one", "random-spd"];

fn highdim_class(d: usize) -> &'static str {
    if d <= 40 {
        "mvn:highdim:d=7..40"
    } else if d <= 128 {
        "mvn:highdim:d=41..128"
    } else if d <= 512 {
        "mvn:highdim:d=129..512"
    } else {
        "mvn:highdim:d>512"
    }
}

/// Position of d relative to the nearest multiple of 64 (the block sizes a blocked / unrolled /
/// parallel product is likely to use all divide 64).
fn highdim_edge(d: usize) -> &'static str {
    match d % 64 {
        0 => "mvn:highdim:d%64=0",
        1 => "mvn:highdim:d%64=1",
        63 => "mvn:highdim:d%64=63",
        _ => "mvn:highdim:d%64=other",
    }
}

/// Lower Cholesky factor (row-major) in plain f64; None when a pivot is not positive.
fn chol_f64(a: &[f64], d: usize) -> Option<Vec<f64>> {
    let mut l = vec![0.0f64; d * d];
    for i in 0..d {
        for j in 0..=i {
            let mut s = a[i * d + j];
            {
                let (ri, rj) = (&l[i * d..i * d + j], &l[j * d..j * d + j]);
                for k in 0..j {
                    s -= ri[k] * rj[k];
                }
            }
            if i == j {
                if !(s > 0.0) || !s.is_finite() {
                    return None;
                }
                l[i * d + i] = s.sqrt();
            } else {
                l[i * d + j] = s / l[j * d + j];
            }
        }
    }
    Some(l)
}

/// (mean, sigma row-major exactly symmetric, description of the generator's parameters)
fn highdim_cov(rng: &mut Rng, d: usize, kind: usize) -> (Vec<f64>, Vec<f64>, Value) {
    let sc: Vec<f64> = (0..d).map(|_| rng.log_range(0.1, 10.0)).collect();
    let mean: Vec<f64> = (0..d).map(|_| rng.range(-1e3, 1e3)).collect();
    let mut s = vec![0.0; d * d];
    let desc;
    let mut fill = |r: &dyn Fn(usize, usize) -> f64| {
        for i in 0..d {
            for j in 0..=i {
                let v = (sc[i] * sc[j]) * r(i, j);
                s[i * d + j] = v;
                s[j * d + i] = v;
            }
        }
    };
    match kind {
        0 => {
            let rho = rng.range(0.3, 0.9) * if rng.bool() { 1.0 } else { -1.0 };
            let pw: Vec<f64> = (0..d).map(|k| rho.powi(k as i32)).collect();
            fill(&|i, j| pw[i - j]);
            desc = json!({"correlation": "rho^|i-j|", "rho": rho});
        }
        1 => {
            let rho = rng.range(0.1, 0.8);
            fill(&|i, j| if i == j { 1.0 } else { rho });
            desc = json!({"correlation": "equicorrelated", "rho": rho});
        }
        2 => {
            let c = rng.range(0.2, 2.0);
            let u: Vec<f64> = rng.normals(d);
            fill(&|i, j| c * u[i] * u[j] + if i == j { 1.0 } else { 0.0 });
            desc = json!({"covariance": "D (I + c u u') D", "c": c});
        }
        _ => {
            let a: Vec<f64> = rng.normals(d * d);
            fill(&|i, j| {
                let mut v = if i == j { 0.05 } else { 0.0 };
                for k in 0..d {
                    v += a[i * d + k] * a[j * d + k] / d as f64;
                }
                v
            });
            desc = json!({"covariance": "D (A A'/d + 0.05 I) D"});
        }
    }
    (mean, s, desc)
}

/// Multivariate normal at dimension 7..~1000 ("Multivariate normal draws have the requested mean
/// and covariance: every whitened coordinate and every random projection is standard normal" has no
/// bound on the dimension). The cost of a draw is d², so the number of draws is small (500..20000)
/// and the DKW band for that n is used: an error in how the rows of the factor are walked (a block edge, a
/// remainder loop, a misplaced or repeated coordinate) moves a coordinate by O(1) in KS distance.
/// Checks: dimension, count and shape through `sample()` and `DistributionND::sample_n`, finiteness,
/// every whitened coordinate, every coordinate standardised by the requested mean and variance,
/// 32 random unit projections and adjacent-pair projections (z_i ± z_{i+1})/√2 — each a DKW test
/// with α = 1e-12 fixed before the draws are looked at.
#[cfg(not(miri))]
fn run_mvn_highdim(cfg: &Cfg, rep: &mut Report, d: usize, kind: usize, n: usize, seed: u64, rng: &mut Rng) {
    let regime = highdim_class(d);
    rep.case(regime);
    rep.seen(highdim_edge(d), 1);
    rep.seen(&format!("mvn:highdim:cov={}", HIGHDIM_KINDS[kind]), 1);
    let (mean, sigma, desc) = highdim_cov(rng, d, kind);
    rep.distinct(Hasher::new().s("mvn-highdim").u(d as u64).u(kind as u64).fs(&mean).u(seed).finish(), true);
    let ctx = || json!({"family": "mvn", "dim": d, "covariance_kind": HIGHDIM_KINDS[kind], "generator": desc, "mean_first": jf(&mean[..d.min(4)]), "sigma_first_row_first": jf(&sigma[..d.min(4)]), "alea_seed": seed, "n_requested": n, "replay": "covariance regenerated from case_seed"});
    let l = match chol_f64(&sigma, d) {
        Some(l) => l,
        None => {
            rep.inconclusive(format!("generator produced a covariance (d = {}, {}) the reference Cholesky rejects", d, HIGHDIM_KINDS[kind]));
            return;
        }
    };
    arm_budget(cfg);
    let mvn = match guard(|| MVN::new(Vector::new(mean.clone()), Matrix::new(sigma.clone(), d as i32, d as i32))) {
        Ok(m) => m,
        Err(msg) => {
            rep.check("C03.no_panic", regime, false, || {
                let mut c = ctx();
                c["call"] = json!("MVN::new");
                c["panic"] = json!(msg);
                c["expected"] = json!("a distribution object (symmetric positive definite covariance)");
                c
            });
            vh::set_budget(u64::MAX);
            return;
        }
    };
    rep.check("C03.mvn.dim", regime, mvn.get_dim() == d, || {
        let mut c = ctx();
        c["get_dim"] = json!(mvn.get_dim());
        c
    });
    alea::set_seed(seed);
    let mut raw: Vec<f64> = Vec::with_capacity(n * d);
    let mut local = SiteCounts::new();
    // rows per guarded call: at most ~1e5 normal deviates, far below the per-site budget
    let chunk = (100_000 / d).max(1);
    let mut have = 0usize;
    let mut k = 0usize;
    let mut shape_bad: Option<Value> = None;
    let mut aborted = false;
    while have < n && !aborted {
        let m = if k == 0 { 1 } else { chunk.min(n - have) };
        let single = k % 2 == 1;
        let state = alea::get_seed();
        let r = guard(|| {
            if single {
                let mut out = Vec::with_capacity(m * d);
                let mut lens_ok = true;
                for _ in 0..m {
                    let v: Vector = mvn.sample();
                    lens_ok &= v.len() == d;
                    out.extend_from_slice(&v.v);
                }
                (out, if lens_ok { m } else { usize::MAX }, d)
            } else {
                let mm: Matrix = DistributionND::sample_n(&mvn, m);
                (mm.data.v, mm.nrows, mm.ncols)
            }
        });
        absorb(&mut local);
        match r {
            Ok((v, nr, nc)) => {
                if nr != m || nc != d || v.len() != m * d {
                    shape_bad = Some(json!({"api": if single {"sample"} else {"sample_n"}, "requested": [m, d], "returned_shape": [if nr == usize::MAX { json!("a draw with len != d") } else { json!(nr) }, json!(nc)], "returned_len": v.len()}));
                    aborted = true;
                } else {
                    raw.extend_from_slice(&v);
                    have += m;
                }
            }
            Err(msg) => {
                // the budget is per draw: replay the chunk one draw at a time
                let mut msg_final = msg.clone();
                let mut budget = is_budget_panic(&msg);
                if budget {
                    alea::set_seed(state);
                    budget = false;
                    let mut all_ok = true;
                    for _ in 0..m {
                        vh::reset();
                        let one = guard(|| mvn.sample());
                        absorb(&mut local);
                        match one {
                            Ok(v) if v.len() == d => raw.extend_from_slice(&v.v),
                            Ok(_) => {
                                all_ok = false;
                                msg_final = "draw with len != d".into();
                                break;
                            }
                            Err(m1) => {
                                all_ok = false;
                                budget = is_budget_panic(&m1);
                                msg_final = m1;
                                break;
                            }
                        }
                    }
                    if all_ok {
                        have += m;
                        k += 1;
                        continue;
                    }
                }
                let id = if budget { "C03.terminates" } else { "C03.no_panic" };
                rep.check(id, regime, false, || {
                    let mut c = ctx();
                    c["draws_before"] = json!(have);
                    c["panic"] = json!(msg_final);
                    c
                });
                aborted = true;
            }
        }
        k += 1;
    }
    vh::set_budget(u64::MAX);
    flush(rep, &local);
    rep.note_add("draws.mvn_highdim", have as f64);
    let bad = shape_bad.take();
    rep.check("C03.bulk.mvn.shape", regime, bad.is_none(), || {
        let mut c = ctx();
        c["observed"] = bad.clone().unwrap_or(json!(null));
        c
    });
    if aborted {
        return;
    }
    rep.check("C03.no_panic", regime, true, || json!(null));
    rep.check("C03.terminates", regime, true, || json!(null));
    let nn = have;
    let badpos = raw.iter().position(|x| !x.is_finite());
    rep.check("C03.support", regime, badpos.is_none(), || {
        let mut c = ctx();
        let i = badpos.unwrap();
        c["draw_index"] = json!(i / d);
        c["coordinate"] = json!(i % d);
        c["observed"] = jnum(raw[i]);
        c
    });
    if badpos.is_some() {
        return;
    }
    let eps = stats::dkw_eps(nn, ALPHA);
    let std_cdf = |x: f64| sp::norm_cdf(x, 0.0, 1.0);
    let mut buf: Vec<f64> = vec![0.0; nn];
    let mut worst = 0.0f64;
    // every coordinate standardised with the requested mean and variance
    for j in 0..d {
        let sd = sigma[j * d + j].sqrt();
        for (t, row) in raw.chunks_exact(d).enumerate() {
            buf[t] = (row[j] - mean[j]) / sd;
        }
        let (dist, at) = ks(&mut buf, &std_cdf, &std_cdf);
        worst = worst.max(dist / eps);
        rep.check("C03.mvn.marginal", regime, dist <= eps, || {
            let mut c = ctx();
            c["coordinate"] = json!(j);
            c["requested_mean"] = json!(mean[j]);
            c["requested_sd"] = json!(sd);
            c["n"] = json!(nn);
            c["D"] = jnum(dist);
            c["eps"] = json!(eps);
            c["argmax_x"] = jnum(at);
            c["expected"] = json!("(x_j - mean_j)/sd_j is N(0,1)");
            c
        });
    }
    // whiten in place with the harness's own factor of the requested covariance
    for row in raw.chunks_exact_mut(d) {
        for i in 0..d {
            let mut v = row[i] - mean[i];
            let li = &l[i * d..i * d + i];
            for j in 0..i {
                v -= li[j] * row[j];
            }
            row[i] = v / l[i * d + i];
        }
    }
    for j in 0..d {
        for (t, row) in raw.chunks_exact(d).enumerate() {
            buf[t] = row[j];
        }
        let (dist, at) = ks(&mut buf, &std_cdf, &std_cdf);
        worst = worst.max(dist / eps);
        rep.check("C03.mvn.coord", regime, dist <= eps, || {
            let mut c = ctx();
            c["whitened_coordinate"] = json!(j);
            c["n"] = json!(nn);
            c["D"] = jnum(dist);
            c["eps"] = json!(eps);
            c["argmax_x"] = jnum(at);
            c["expected"] = json!("N(0,1) after whitening with chol(requested covariance)");
            c
        });
    }
    for p in 0..32 {
        let mut u: Vec<f64> = rng.normals(d);
        let nrm = u.iter().map(|x| x * x).sum::<f64>().sqrt();
        for x in u.iter_mut() {
            *x /= nrm;
        }
        for (t, row) in raw.chunks_exact(d).enumerate() {
            let mut s = 0.0;
            for i in 0..d {
                s += u[i] * row[i];
            }
            buf[t] = s;
        }
        let (dist, at) = ks(&mut buf, &std_cdf, &std_cdf);
        worst = worst.max(dist / eps);
        rep.check("C03.mvn.proj", regime, dist <= eps, || {
            let mut c = ctx();
            c["projection_index"] = json!(p);
            c["n"] = json!(nn);
            c["D"] = jnum(dist);
            c["eps"] = json!(eps);
            c["argmax_x"] = jnum(at);
            c
        });
    }
    // adjacent pairs: all of them up to d = 64, else the first, the last and 62 random ones
    let pairs: Vec<usize> = if d <= 64 {
        (0..d - 1).collect()
    } else {
        let mut v = vec![0, d - 2];
        for _ in 0..62 {
            v.push(rng.usize(0, d - 2));
        }
        v
    };
    for &i in &pairs {
        for sg in [1.0, -1.0] {
            for (t, row) in raw.chunks_exact(d).enumerate() {
                buf[t] = (row[i] + sg * row[i + 1]) * std::f64::consts::FRAC_1_SQRT_2;
            }
            let (dist, at) = ks(&mut buf, &std_cdf, &std_cdf);
            worst = worst.max(dist / eps);
            rep.check("C03.mvn.pairproj", regime, dist <= eps, || {
                let mut c = ctx();
                c["pair"] = json!([i, i + 1]);
                c["sign"] = json!(sg);
                c["space"] = json!("whitened");
                c["n"] = json!(nn);
                c["D"] = jnum(dist);
                c["eps"] = json!(eps);
                c["argmax_x"] = jnum(at);
                c
            });
        }
    }
    rep.note_add("dkw_tests.mvn_highdim", (2 * d + 32 + 2 * pairs.len()) as f64);
    rep.note_max(&format!("worst_ratio.dkw.{}", regime), worst);
    rep.sample(|| json!({"law": "MVN", "regime": regime, "dim": d, "covariance_kind": HIGHDIM_KINDS[kind], "alea_seed": seed, "n": nn, "dkw_eps": eps, "worst_D_over_eps": worst}));
}

// ---------------------------------------------------------------------------------------------
// fault injection on the RNG stream

/// Raw words at positions 0..INJECT_DRAWS-1 after the seed are reached by INJECT_DRAWS draws of any
/// law that consumes at least one word per draw.
const INJECT_DRAWS: usize = 12;

/// One grid case under every adversarial generator state: the (k+1)-th raw word after the seed has
/// an extreme 32-bit half. Every draw runs under its own iteration budget and panic guard.
fn run_inject(cfg: &Cfg, rep: &mut Report, spec: &CaseSpec, rng: &mut Rng) {
    use crate::gen::{adversarial_seed, ADVERSARIAL_ALEA};
    let (family, label) = match spec {
        CaseSpec::One(law) => (law.family(), format!("{:?}", law)),
        CaseSpec::Mvn(m) => ("mvn", format!("MVN d={} ({})", m.mean.len(), m.regime)),
    };
    let regime = format!("inject:{}", family);
    arm_budget(cfg);
    enum Built {
        One(Box<dyn Distribution1D>),
        Mvn(MVN, usize),
    }
    let built = guard(|| match spec {
        CaseSpec::One(law) => Built::One(law.build()),
        CaseSpec::Mvn(m) => {
            let d = m.mean.len();
            Built::Mvn(MVN::new(Vector::new(m.mean.clone()), Matrix::new(m.sigma.clone(), d as i32, d as i32)), d)
        }
    });
    let built = match built {
        Ok(b) => b,
        Err(_) => {
            // judged (and reported) by the ordinary case of the same parameter point
            vh::set_budget(u64::MAX);
            return;
        }
    };
    for (si, &(word, state)) in ADVERSARIAL_ALEA.iter().enumerate() {
        // k = 0..5 and one later position
        let mut ks: Vec<u64> = (0..6).collect();
        ks.push(rng.usize(6, INJECT_DRAWS - 1) as u64);
        for k in ks {
            rep.case(&regime);
            let seed = adversarial_seed(state, k);
            let bulk = (si + k as usize) % 2 == 1;
            let ctx = || json!({"law": label, "family": family, "extreme_word": word, "word_index_after_seed": k, "alea_seed": seed, "api": if bulk { "sample_n(12)" } else { "12 x sample()" }});
            alea::set_seed(seed);
            // values of the draws (1-D: one per draw; MVN: d per draw), None = aborted
            let mut vals: Vec<f64> = Vec::with_capacity(INJECT_DRAWS * 6);
            let mut failed = false;
            let calls = if bulk { 1 } else { INJECT_DRAWS };
            for _ in 0..calls {
                vh::reset();
                let r = guard(|| match &built {
                    Built::One(d) => {
                        if bulk {
                            let v = d.sample_n(INJECT_DRAWS).v;
                            (v.len() == INJECT_DRAWS, v)
                        } else {
                            (true, vec![d.sample()])
                        }
                    }
                    Built::Mvn(m, d) => {
                        if bulk {
                            let mm = DistributionND::sample_n(m, INJECT_DRAWS);
                            (mm.nrows == INJECT_DRAWS && mm.ncols == *d && mm.data.v.len() == INJECT_DRAWS * d, mm.data.v)
                        } else {
                            let v = m.sample().v;
                            (v.len() == *d, v)
                        }
                    }
                });
                // (the ticks of these draws are not coverage evidence for the sampler branches: dropped)
                vh::reset();
                match r {
                    Ok((shape_ok, v)) => {
                        if !shape_ok {
                            rep.check("C03.bulk.total", &regime, false, || {
                                let mut c = ctx();
                                c["returned_len"] = json!(v.len());
                                c
                            });
                            failed = true;
                            break;
                        }
                        vals.extend_from_slice(&v);
                    }
                    Err(msg) => {
                        // a bulk call shares one budget of 1e6 over 12 draws: a correct sampler needs < 1e2
                        let id = if is_budget_panic(&msg) { "C03.terminates" } else { "C03.no_panic" };
                        rep.check(id, &regime, false, || {
                            let mut c = ctx();
                            c["draws_before"] = json!(vals.len());
                            c["panic"] = json!(msg);
                            c["expected"] = json!("a draw inside the support for every random stream");
                            c
                        });
                        failed = true;
                        break;
                    }
                }
            }
            if failed {
                continue;
            }
            rep.check("C03.no_panic", &regime, true, || json!(null));
            rep.check("C03.terminates", &regime, true, || json!(null));
            match spec {
                CaseSpec::One(law) => {
                    let bad = vals.iter().position(|&x| !law.in_support(x));
                    rep.check("C03.support", &regime, bad.is_none(), || {
                        let mut c = ctx();
                        c["draw_index"] = json!(bad.unwrap());
                        c["observed"] = jnum(vals[bad.unwrap()]);
                        c["draws"] = jf(&vals);
                        c["expected"] = json!("finite value inside the closed support");
                        c
                    });
                    if law.discrete() {
                        let badi = vals.iter().position(|&x| !(x.is_finite() && x == x.trunc()));
                        rep.check("C03.integer", &regime, badi.is_none(), || {
                            let mut c = ctx();
                            c["draw_index"] = json!(badi.unwrap());
                            c["observed"] = jnum(vals[badi.unwrap()]);
                            c
                        });
                    }
                }
                CaseSpec::Mvn(_) => {
                    let bad = vals.iter().position(|x| !x.is_finite());
                    rep.check("C03.support", &regime, bad.is_none(), || {
                        let mut c = ctx();
                        c["value_index"] = json!(bad.unwrap());
                        c["observed"] = jnum(vals[bad.unwrap()]);
                        c
                    });
                }
            }
        }
    }
    vh::set_budget(u64::MAX);
}

// ---------------------------------------------------------------------------------------------
// bulk requests at and around chunk boundaries

/// Request sizes n = k·2^j − 1, k·2^j, k·2^j + 1 for every power of two 2^8..2^17 and small k, plus
/// round decimal sizes of the 1e5 scale; all inside the size range the quantifier names (2e5 draws
/// per case in the quick tier, up to 4e6 in the thorough tier). Returns (n, class label).
fn boundary_sizes(cfg: &Cfg) -> Vec<(usize, &'static str)> {
    let mut v: Vec<(usize, &'static str)> = Vec::new();
    let jmax = if cfg.lite { 10 } else { 17 };
    for j in 8..=jmax {
        let ks: &[usize] = if cfg.lite {
            &[1, 2]
        } else if j <= 13 {
            &[1, 2, 3, 5]
        } else if j <= 16 {
            &[1, 2, 3]
        } else if cfg.thorough() {
            &[1, 2, 3, 4, 5, 7, 8]
        } else {
            &[1, 2]
        };
        for &k in ks {
            let b = k << j;
            v.push((b - 1, "bulk-boundary:n=k*2^j-1"));
            v.push((b, "bulk-boundary:n=k*2^j"));
            v.push((b + 1, "bulk-boundary:n=k*2^j+1"));
        }
    }
    if !cfg.lite {
        for n in [100_000, 200_000, 250_000, 300_000] {
            v.push((n, "bulk-boundary:n=round-decimal"));
        }
        if cfg.thorough() {
            for n in [500_000, 1_000_000, 2_000_000] {
                v.push((n, "bulk-boundary:n=round-decimal"));
            }
        }
    }
    v.sort();
    v.dedup_by_key(|e| e.0);
    v
}

/// `count` factorisations r·c = n: the most nearly square one first, then random divisor pairs in
/// either orientation (a prime n only has 1 x n and n x 1).
fn splits(n: usize, rng: &mut Rng, count: usize) -> Vec<(usize, usize)> {
    let mut divs = Vec::new();
    let mut f = 1;
    while f * f <= n {
        if n % f == 0 {
            divs.push(f);
        }
        f += 1;
    }
    let sq = *divs.last().unwrap();
    let mut out = vec![(sq, n / sq)];
    out.truncate(count);
    let mut tries = 0;
    while out.len() < count && tries < 16 {
        tries += 1;
        let f = *rng.choose(&divs);
        let pair = if rng.bool() { (f, n / f) } else { (n / f, f) };
        if !out.contains(&pair) {
            out.push(pair);
        }
    }
    out
}

enum BoundaryTarget {
    One(Law),
    Mvn(MvnSpec),
}

/// Count, shape, support (integrality) and no panic for the bulk calls of one law at the sizes
/// `sizes[g], sizes[g + groups], ...`. No statistics: the distribution of the draws is judged by the
/// DKW cases; here every returned value only has to exist and lie in the support.
fn run_boundary(rep: &mut Report, target: &BoundaryTarget, sizes: &[(usize, &'static str)], g: usize, groups: usize, rng: &mut Rng) {
    let (family, label) = match target {
        BoundaryTarget::One(law) => (law.family(), format!("{:?}", law)),
        BoundaryTarget::Mvn(m) => ("mvn", format!("MVN d={} ({})", m.mean.len(), m.regime)),
    };
    let regime = format!("bulk-boundary:{}", family);
    // the per-chunk iteration budget of the DKW cases does not apply to requests of 1e5 draws
    vh::set_budget(u64::MAX);
    enum Built {
        One(Box<dyn Distribution1D>),
        Mvn(MVN, usize),
    }
    let built = guard(|| match target {
        BoundaryTarget::One(law) => Built::One(law.build()),
        BoundaryTarget::Mvn(m) => {
            let d = m.mean.len();
            Built::Mvn(MVN::new(Vector::new(m.mean.clone()), Matrix::new(m.sigma.clone(), d as i32, d as i32)), d)
        }
    });
    let built = match built {
        Ok(b) => b,
        // judged (and reported) by the ordinary case of the same parameter point
        Err(_) => return,
    };
    for &(n, class) in sizes.iter().skip(g).step_by(groups) {
        let exact = class == "bulk-boundary:n=k*2^j" || class == "bulk-boundary:n=round-decimal";
        // (api, rows, cols): rows = 0 means the vector form
        let mut calls: Vec<(usize, usize)> = vec![(0, n)];
        if let Built::One(_) = built {
            // the largest sizes: two factorisations at the boundary itself, the vector form next to it
            let big = n >= 1 << 15;
            calls.extend(splits(n, rng, if exact { if big { 2 } else { 3 } } else { 1 - big as usize }));
        }
        for (r, c) in calls {
            rep.case(&regime);
            rep.seen(class, 1);
            if n >= 1 << 15 {
                rep.seen("bulk-boundary:n>=2^15", 1);
            }
            let api = match (&built, r) {
                (Built::One(_), 0) => format!("sample_n({})", n),
                (Built::One(_), _) => format!("sample_matrix({}, {})", r, c),
                (Built::Mvn(..), _) => format!("DistributionND::sample_n({})", n),
            };
            let ctx = || json!({"law": label, "family": family, "api": api, "requested_draws": n, "alea_seed_before_call": alea::get_seed()});
            let state = alea::get_seed();
            let res = guard(|| match &built {
                Built::One(d) => {
                    if r == 0 {
                        let v = d.sample_n(n).v;
                        (v.len() == n, json!({"returned_len": v.len()}), v)
                    } else {
                        let mm = d.sample_matrix(r, c);
                        (mm.nrows == r && mm.ncols == c && mm.data.v.len() == n, json!({"returned_shape": [mm.nrows, mm.ncols], "returned_len": mm.data.v.len()}), mm.data.v)
                    }
                }
                Built::Mvn(m, d) => {
                    let mm = DistributionND::sample_n(m, n);
                    (mm.nrows == n && mm.ncols == *d && mm.data.v.len() == n * d, json!({"returned_shape": [mm.nrows, mm.ncols], "returned_len": mm.data.v.len(), "expected_shape": [n, d]}), mm.data.v)
                }
            });
            vh::reset();
            let (shape_ok, observed, vals) = match res {
                Ok(t) => {
                    rep.check("C03.no_panic", &regime, true, || json!(null));
                    t
                }
                Err(msg) => {
                    rep.check("C03.no_panic", &regime, false, || {
                        let mut cx = ctx();
                        cx["alea_seed_before_call"] = json!(state);
                        cx["panic"] = json!(msg);
                        cx["expected"] = json!("exactly the requested number and shape of draws");
                        cx
                    });
                    continue;
                }
            };
            let id = if r == 0 && matches!(built, Built::One(_)) { "C03.bulk.sample_n.count" } else { "C03.bulk.sample_matrix.shape" };
            rep.check(id, &regime, shape_ok, || {
                let mut cx = ctx();
                cx["alea_seed_before_call"] = json!(state);
                cx["observed"] = observed.clone();
                cx
            });
            match target {
                BoundaryTarget::One(law) => {
                    let bad = vals.iter().position(|&x| !law.in_support(x));
                    rep.check("C03.support", &regime, bad.is_none(), || {
                        let mut cx = ctx();
                        cx["alea_seed_before_call"] = json!(state);
                        cx["draw_index"] = json!(bad.unwrap());
                        cx["observed"] = jnum(vals[bad.unwrap()]);
                        cx["expected"] = json!("finite value inside the closed support");
                        cx
                    });
                    if law.discrete() {
                        let badi = vals.iter().position(|&x| !(x.is_finite() && x == x.trunc()));
                        rep.check("C03.integer", &regime, badi.is_none(), || {
                            let mut cx = ctx();
                            cx["alea_seed_before_call"] = json!(state);
                            cx["draw_index"] = json!(badi.unwrap());
                            cx["observed"] = jnum(vals[badi.unwrap()]);
                            cx
                        });
                    }
                }
                BoundaryTarget::Mvn(_) => {
                    let bad = vals.iter().position(|x| !x.is_finite());
                    rep.check("C03.support", &regime, bad.is_none(), || {
                        let mut cx = ctx();
                        cx["alea_seed_before_call"] = json!(state);
                        cx["value_index"] = json!(bad.unwrap());
                        cx["observed"] = jnum(vals[bad.unwrap()]);
                        cx
                    });
                }
            }
            rep.note_add(&format!("bulk_boundary_draws.{}", family), n as f64);
        }
    }
}

// ---------------------------------------------------------------------------------------------

const REGIMES_1D: &[&str] = &[
    "normal:sigma>0",
    "normal:sigma=0",
    "gamma:shape<1/3",
    "gamma:shape=1/3",
    "gamma:1/3<shape<1",
    "gamma:shape>=1",
    "beta:min(a,b)<1/3",
    "beta:1/3<min(a,b)<1",
    "beta:a,b>=1",
    "chi2:dof<2",
    "chi2:dof>=2",
    "t:dof<2/3",
    "t:2/3<dof<2",
    "t:dof>=2",
    "poisson:rate<10",
    "poisson:10<=rate<=100",
    "poisson:100<rate<150",
    "poisson:rate>=150",
    "binomial:n=0",
    "binomial:p=0",
    "binomial:p=1",
    "binomial:n*min(p,1-p)<=30:p<=0.5",
    "binomial:n*min(p,1-p)<=30:p>0.5",
    "binomial:n*min(p,1-p)>30:p<=0.5",
    "binomial:n*min(p,1-p)>30:p>0.5",
    "exponential",
    "gumbel",
    "pareto",
    "uniform:lower<upper",
    "uniform:equal-bounds",
    "discrete-uniform:lower<upper",
    "discrete-uniform:equal-bounds",
    "bernoulli:0<p<1",
    "bernoulli:p=0",
    "bernoulli:p=1",
];
const REGIMES_MVN: &[&str] = &["mvn:d=1", "mvn:identity", "mvn:diagonal", "mvn:correlated", "mvn:badly-scaled"];
const FAMILIES: &[&str] = &["normal", "gamma", "beta", "chi2", "t", "poisson", "binomial", "exponential", "gumbel", "pareto", "uniform", "discrete-uniform", "bernoulli", "mvn"];

/// (site, minimum in a native run, required (>= 1) in the lite / Miri smoke run of 48 draws per regime)
const SITES: &[(&str, u64, bool)] = &[
    ("normal.zig", 100, true),
    ("normal.zig.wedge", 100, false),
    ("normal.zig.tail", 100, false),
    ("gamma.outer", 100, true),
    ("gamma.inner", 100, true),
    ("gamma.squeeze", 100, true),
    ("gamma.log", 100, false),
    ("poisson.mult", 100, true),
    ("poisson.ptrs", 100, true),
    ("poisson.ptrs.fast", 100, false),
    ("poisson.ptrs.slow", 100, false),
    ("binomial.inv.call", 100, true),
    ("binomial.inv", 100, true),
    ("binomial.flip", 100, true),
    ("binomial.btpe.call", 100, true),
    ("binomial.btpe", 100, true),
    ("btpe.1", 100, true),
    ("btpe.2", 100, false),
    ("btpe.3", 100, false),
    ("btpe.4", 100, false),
    ("btpe.5.1", 100, false),
    ("btpe.5.1.loop", 100, false),
    ("btpe.5.2", 100, false),
    ("btpe.5.3", 100, false),
];

pub fn run(cfg: &Cfg, rep: &mut Report) {
    rep.rule = "fixed grid of parameter points covering every sampler branch named in the quantifier (gamma shape <1/3, =1/3, <1, >=1 and beta/chi2/t built on it; Poisson rate <10, 10..100, 125/149, >=150; binomial inversion/BTPE on both sides of n*min(p,1-p)=30 with and without the p<->1-p flip, p in {0,1}, n up to 1e5; equal-bounds uniform/discrete uniform; normal |mu|<=1e3, sigma=0; MVN d=1..4; badly scaled MVN covariances D*R*D with standard deviations 1e-8..1e2, variance ratio >= 1e6, |correlations| up to 0.94, d = 1..6: 8 fixed + 12 (24) random; structured MVN covariances with exact zeros placed by a graph - hub-first, hub-last, banded, block-diagonal, ring/tree/sparse graph under a random labelling, inverse of a chain/tree precision matrix, diagonal + rank one - d = 2..6, 7 fixed + 9 (21) random, n = 2e5 (1e6), each also through all pair projections; MVN at larger dimensions d = 7..40, 63..65, 127..129, 255..257, 300, 320, 511..513 (thorough: more up to 1030, several covariance kinds per dimension) with AR(1) / equicorrelated / diagonal + rank one / random SPD covariances, n = 500..20000 draws: shape, every standardised and every whitened coordinate, 32 random projections, adjacent-pair projections) plus random parameter points inside the same regimes; each case = one law, one alea seed, n draws requested through sample/sample_n/sample_matrix in turn (quick 2e5, thorough 4e6; the grid is run with 2 (quick) / 3 (thorough) alea seeds per point plus 32 / 96 random points; quick adds 24 sentinel cases at n = 4e6). non-trivial = the law is not a point mass; distinct by (law, parameters, alea seed). Bulk requests at and around chunk boundaries: one parameter point per regime label of every 1-D law and MVN d = 1..3, sizes n = k*2^j - 1, k*2^j, k*2^j + 1 for 2^j = 256..131072 (k in 1..5 up to 2^13, 1..3 up to 2^16, 1..2 at 2^17; thorough: k up to 8 at 2^17) and round decimal sizes 1e5..3e5 (thorough: up to 2e6), each through sample_n(n) and sample_matrix(r, c) with up to 3 factorisations r*c = n (2 from 2^15 draws on, where the sizes next to a boundary use the vector form only; MVN: DistributionND::sample_n): count, shape, support, integrality, no panic (no statistics). Fault injection: every grid point x 8 adversarial alea states (a raw word with an all-ones / all-zero 32-bit half) x word position 0..5 and one in 6..11 x {12 sample() calls, sample_n(12)}: no panic, bounded progress, support, integrality".into();
    rep.assume("parameters are finite and accepted by the constructor's documented domain (no NaN/inf parameters)");
    rep.assume("bulk shapes have positive dimensions for the matrix forms (Matrix cannot represent 0 rows: C15); sample_n(0) is checked for the vector form");
    rep.assume("'terminates' is restated as bounded progress: no single draw ticks any rejection-loop site more than 1e6 times (DESIGN §0)");
    rep.assume("discrete-uniform bounds within ±1e9, binomial n <= 1e5, Poisson rate <= 3e3, MVN dimension <= 4 with cond(Σ) < 1e6, except the badly scaled family: dimension <= 6, the correlation matrix R has cond < 1e4 while cond(Σ) reaches 1e20 through the diagonal scaling alone, and the larger-dimension family (mvn:highdim:*): d = 7..40 and 63..513 (thorough: up to 1030), AR(1) / equicorrelated / diagonal + rank one / random SPD (d <= 40) correlation structure with per-coordinate scales 0.1..10, n = clamp(min(5e5/d, 1.5e8/d²), 500, 20000) draws judged against the DKW band of that n");
    rep.assume("fault injection reaches raw words with an extreme 32-bit half (low half = what u32() returns, high half = the leading bits of f64()); a word whose top 53 bits are all zero (f64() == 0, probability 2^-53) is not injected");
    rep.assume("supports are taken closed (a boundary value produced by rounding is accepted)");
    if cfg.miri() {
        rep.assume("Miri smoke: no FFI, so only no_panic/terminates/bulk/support/integer assertions run; DKW needs the native layer");
    }
    let n = cfg.pick(200_000, 4_000_000, 48);
    // case list: deterministic function of (tier, seed)
    let mut gen = Rng::new(cfg.seed ^ 0xC03C03C03);
    let mut cases: Vec<(CaseSpec, usize)> = base_grid().into_iter().map(|c| (c, n)).collect();
    // badly scaled covariances: an own generator, so that the parameter points of the other families
    // do not depend on how many of these there are. At most 1.6e7 doubles (128 MB) per case.
    let mut gen_scaled = Rng::new(cfg.seed ^ 0x5CA1ED_C03);
    let rows = |spec: &MvnSpec| n.min(16_000_000 / spec.mean.len());
    for spec in mvn_scaled_grid(&mut gen_scaled) {
        let r = rows(&spec);
        cases.push((CaseSpec::Mvn(spec), r));
    }
    if cfg.lite {
        // keep every regime once (first grid point of each label), drop repeats
        let mut seen = std::collections::BTreeSet::new();
        cases.retain(|c| {
            let r = match &c.0 {
                CaseSpec::One(l) => l.regime(),
                CaseSpec::Mvn(m) => m.regime,
            };
            seen.insert(r)
        });
    } else {
        // "× RNG seeds": the grid is repeated (every repetition gets its own alea seed)
        let reps = if cfg.thorough() { 3 } else { 2 };
        for _ in 1..reps {
            cases.extend(base_grid().into_iter().map(|c| (c, n)));
        }
        let extra = if cfg.thorough() { 96 } else { 32 };
        for _ in 0..extra {
            cases.push((random_case(&mut gen), n));
        }
        for _ in 0..if cfg.thorough() { 24 } else { 12 } {
            let spec = mvn_scaled_random(&mut gen_scaled);
            let r = rows(&spec);
            cases.push((CaseSpec::Mvn(spec), r));
        }
        if !cfg.thorough() {
            // the quick tier has time to spare: one deeper case (n = 4e6, eps = 1.9e-3, the upper end of the
            // property's range 2e5..4e6) per algorithm branch of *correct* regimes, so that subtle
            // changes to a hat/squeeze/wedge are visible without waiting for the thorough tier
            for c in sentinels() {
                cases.push((c, DEEP_N));
            }
        }
        // spread heavy and light cases over the workers
        gen.shuffle(&mut cases);
    }
    rep.note("cases", json!(cases.len()));
    rep.note("n_per_case", json!(n));
    #[cfg(not(miri))]
    rep.note("dkw_eps", json!(stats::dkw_eps(n, ALPHA)));
    // The cases run CONCURRENTLY on the worker threads, and the shuffled list makes neighbouring
    // workers sample different laws and different parameter points of one law (e.g. several Poisson
    // rates) at the same time. This is a property of the workload, not an optimisation: process-wide
    // state shared between sampler objects (a set-up cache keyed by nothing, a static table filled
    // lazily) is only exposed when objects with different parameters draw at the same moment. Do not
    // serialise the cases or group them by law.
    par_cases(cfg, rep, 1, cases.len(), |i, rng, rep| {
        let seed = rng.u64() | 1;
        let nc = cases[i].1;
        match &cases[i].0 {
            CaseSpec::One(law) => run_1d(cfg, rep, law, nc, seed),
            // n x d doubles is the only large allocation: <= 128 MB per case (d <= 4 at 4e6 rows; d = 5, 6 capped)
            CaseSpec::Mvn(spec) => run_mvn(cfg, rep, spec, nc, seed, rng),
        }
    });
    for r in REGIMES_1D.iter().chain(REGIMES_MVN) {
        rep.require(r, 1);
    }
    // structured / sparse covariances (exact zeros placed by a graph): own generator, own stream
    {
        let mut gen_struct = Rng::new(cfg.seed ^ 0x57C7_0C03);
        let mut structured = mvn_structured_cases(&mut gen_struct, if cfg.lite { 0 } else if cfg.thorough() { 21 } else { 9 });
        if cfg.lite {
            structured.truncate(2);
        }
        let ns = cfg.pick(200_000, 1_000_000, 48);
        rep.note("cases.mvn_structured", json!(structured.len()));
        par_cases(cfg, rep, 4, structured.len(), |i, rng, rep| {
            let seed = rng.u64() | 1;
            run_mvn(cfg, rep, &structured[i], ns, seed, rng)
        });
        if !cfg.lite {
            for r in STRUCTURED.iter() {
                rep.require(r, 1);
            }
            rep.require("mvn:structured:exact-zero", 4);
            rep.require("mvn:structured:zero-with-fill-in", 1); // the fixed hub cases guarantee one; more depend on the draw
        }
    }
    // larger dimensions (the quantifier does not bound d) and dimensions next to block edges: few
    // draws per case (the cost of a draw is d²), DKW band for that n
    #[cfg(not(miri))]
    if !cfg.miri() {
        // (dimension, covariance kind)
        let mut hd: Vec<(usize, usize)> = Vec::new();
        let rot = cfg.seed as usize;
        if cfg.lite {
            hd.extend([(9, 3), (65, 0), (257, 1)]);
        } else {
            let mut big: Vec<usize> = vec![63, 64, 65, 127, 128, 129, 255, 256, 257, 300, 320, 511, 512, 513];
            if cfg.thorough() {
                big.extend([100, 191, 192, 193, 383, 384, 385, 447, 448, 449, 575, 576, 577, 640, 700, 767, 768, 769, 1000, 1023, 1024, 1025, 1030]);
            }
            for (i, &d) in big.iter().enumerate() {
                if cfg.thorough() && d <= 600 {
                    for kind in 0..3 {
                        hd.push((d, kind));
                    }
                } else {
                    hd.push((d, (i + rot) % 3));
                }
            }
            for d in 7..=40usize {
                hd.push((d, (d + rot) % 4));
                if cfg.thorough() {
                    hd.push((d, (d + rot + 2) % 4));
                }
            }
            // static striding over the workers: most expensive first
            hd.sort_by(|a, b| b.0.cmp(&a.0).then(a.1.cmp(&b.1)));
        }
        rep.note("cases.mvn_highdim", json!(hd.len()));
        par_cases(cfg, rep, 5, hd.len(), |i, rng, rep| {
            let seed = rng.u64() | 1;
            let (d, kind) = hd[i];
            // the library's draw costs ~5 ns·d², the DKW tests ~100 ns·n·(2d + 160): both kept well
            // under a second per case
            let n = if cfg.lite { 200 } else { (500_000 / d).min(150_000_000 / (d * d)).clamp(500, 20_000) };
            run_mvn_highdim(cfg, rep, d, kind, n, seed, rng)
        });
        if !cfg.lite {
            for r in ["mvn:highdim:d=7..40", "mvn:highdim:d=41..128", "mvn:highdim:d=129..512", "mvn:highdim:d>512"] {
                rep.require(r, 1);
            }
            for r in ["mvn:highdim:d%64=0", "mvn:highdim:d%64=1", "mvn:highdim:d%64=63", "mvn:highdim:d%64=other"] {
                rep.require(r, 3);
            }
            for k in HIGHDIM_KINDS {
                rep.require(&format!("mvn:highdim:cov={}", k), 2);
            }
        }
    }
    // fault injection on the RNG stream: every parameter point of the grid (and the badly scaled
    // covariances) under every adversarial generator state
    if !cfg.miri() {
        let mut inj: Vec<CaseSpec> = base_grid();
        inj.extend(mvn_scaled_grid(&mut Rng::new(cfg.seed ^ 0x5CA1ED_C03)).into_iter().map(CaseSpec::Mvn));
        par_cases(cfg, rep, 2, inj.len(), |i, rng, rep| run_inject(cfg, rep, &inj[i], rng));
        for f in FAMILIES {
            rep.require(&format!("inject:{}", f), 1);
        }
    }
    // bulk requests at and around chunk boundaries: one parameter point per regime of every 1-D law
    // (the first grid point carrying the label) and three MVN settings; count / shape / support only
    if !cfg.miri() {
        let mut seen = std::collections::BTreeSet::new();
        let mut targets: Vec<BoundaryTarget> = Vec::new();
        for c in base_grid() {
            match c {
                CaseSpec::One(l) => {
                    if seen.insert(l.regime()) {
                        targets.push(BoundaryTarget::One(l));
                    }
                }
                CaseSpec::Mvn(m) => {
                    if m.mean.len() <= 3 && seen.insert(m.regime) {
                        targets.push(BoundaryTarget::Mvn(m));
                    }
                }
            }
        }
        if cfg.lite {
            targets.truncate(3);
        }
        let sizes = boundary_sizes(cfg);
        let groups = if cfg.lite { 1 } else { 4 };
        rep.note("bulk_boundary.sizes", json!(sizes.len()));
        rep.note("bulk_boundary.max_size", json!(sizes.iter().map(|e| e.0).max()));
        par_cases(cfg, rep, 3, targets.len() * groups, |i, rng, rep| run_boundary(rep, &targets[i / groups], &sizes, i % groups, groups, rng));
        if !cfg.lite {
            for f in FAMILIES {
                rep.require(&format!("bulk-boundary:{}", f), 100);
            }
            for c in ["bulk-boundary:n=k*2^j-1", "bulk-boundary:n=k*2^j", "bulk-boundary:n=k*2^j+1", "bulk-boundary:n=round-decimal", "bulk-boundary:n>=2^15"] {
                rep.require(c, 100);
            }
        }
    }
    for &(site, min, in_miri) in SITES {
        if cfg.lite {
            if in_miri {
                rep.expect_site(site, 1);
            }
        } else {
            rep.expect_site(site, min);
        }
    }
}
