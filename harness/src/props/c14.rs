//! C14 — polynomial regression returns the least-squares polynomial (DESIGN §3 C14).
//!
//! Events: every `PolynomialRegressor::fit` (the `coef` field afterwards, or a panic) and every
//! `::predict`.
//! Oracle: everything is recomputed from the returned coefficients in double-double with exact
//! powers of x: residual r = y − Σ c_j x^j, gradient g_j = rᵀx^j, RSS; the reference minimiser is
//! `linref::ridge_ls` with zero penalty on the harness's own (correctly rounded) Vandermonde design.
//! The a-priori accuracy of normal equations solved through a Cholesky inverse is
//! `‖D(ĉ − c*)‖ ≲ ε·κ(G_s)·‖y‖` (D = column norms, G_s = column-scaled Gram matrix), hence
//! plus the γ_n·κ(G_s)·‖y‖ that forming VᵀV and Vᵀy by recursive summation of n terms costs
//! (visible at degree 0, n ≈ 2000, constant y: 150 ε). With B = (64·ε + 4·γ_n)·κ(G_s)·‖y‖:
//!   * orthogonality   |rᵀx^j| / ‖x^j‖            ≤ B
//!   * optimality      sqrt(RSS_lib − RSS_ref)     ≤ B   (= ‖V(ĉ − c*)‖ by Pythagoras)
//!   * 2(d+1) coordinate perturbations of relative size 1e-4 must not lower the RSS by more than that
//!   * polynomial data (noise 0): D|ĉ − c_true| within the same bound, exact-integer cases to 1e-9
//!   * predict vs Horner in double-double within γ_{2d+2}·Σ|c_j||x|^j (Higham's bound for Horner).
//! DESIGN normalises the first two by ‖r‖ resp. RSS_qr; that is unsound for noise-free or
//! small-noise data (r is itself rounding-sized there), so the bound is stated against ‖y‖, which
//! is what the rounding analysis gives. κ(G_s) comes from the harness's Jacobi eigen-solver; cases with
//! (64·ε + 4·γ_n)·κ > 1e-3 are counted as vacuous (nothing can be demanded of normal equations there).
//!
//! Abscissae at small absolute scales (stream 7, see the section before `run`): the shapes above multiplied by 2^-k,
//! responses polynomial in x·2^k — same oracle, which is invariant under column scaling; signed `|fit:scaled:*`.
//!
//! Besides the random single fits on fresh regressors there are two directed workloads:
//!   * refit histories (stream 3): ONE regressor object is fitted on data set A, then B (another n), then
//!     possibly C, or has its public `coef` field pre-set before the fit. Every refit gets the complete
//!     oracle above and is compared with a fresh regressor fitted once on the same data
//!     (`C14.refit.equals_fresh`, column-scaled difference ≤ 2B — not bitwise). Reused object and fresh twin
//!     are both judged into scratch reports; what only the reused object fails is signed
//!     `assertion|refit:after-ok` / `|refit:after-set-coef`, what the twin fails too keeps its `fit:*` signature.
//!   * size sweep (stream 4): every degree 0..6 with EVERY n in degree+1..2000 (quick: once, abscissa kind
//!     rotating with n; thorough: once per kind), fresh regressor, cheap oracle in plain f64 — no panic,
//!     d+1 coefficients, finite, residual orthogonal to every power within 2B — signed `|sweep:deg=D`;
//!     `rep.require("sweep:deg=D", 2000−D)` makes a run that skipped a size inconclusive.
use crate::gen::Rng;
use crate::oracle::dd::{gamma_n, Dd};
use crate::oracle::linref;
use crate::report::{guard, jf, jnum, par_cases, Cfg, Hasher, Report, Violation};
use compute::predict::PolynomialRegressor;
use serde_json::json;

const EPS: f64 = f64::EPSILON;
/// constant of the a-priori bound (worst observed on the unchanged tree is recorded in notes)
const C_OPT: f64 = 64.0;
/// above this the bound is vacuous
const VACUOUS: f64 = 1e-3;

const KINDS: [&str; 4] = ["uniform", "clustered", "chebyshev", "integer"];

fn abscissae(rng: &mut Rng, kind: &str, n: usize, d: usize) -> Vec<f64> {
    match kind {
        "uniform" => (0..n).map(|_| rng.range(-2.0, 2.0)).collect(),
        "clustered" => {
            let k = rng.usize(2, 6);
            let centres: Vec<f64> = (0..k).map(|_| rng.range(-1.8, 1.8)).collect();
            let width = rng.log_range(0.05, 0.5);
            (0..n)
                .map(|i| {
                    let c = centres[i % k];
                    (c + width * rng.normal()).clamp(-2.0, 2.0)
                })
                .collect()
        }
        "chebyshev" => {
            let mut v: Vec<f64> = (0..n).map(|k| 2.0 * ((2 * k + 1) as f64 * std::f64::consts::PI / (2 * n) as f64).cos()).collect();
            rng.shuffle(&mut v);
            v
        }
        _ => {
            // integer lattice {-2..2}: d+1 <= 5 distinct values guaranteed by construction
            let mut vals = [-2.0, -1.0, 0.0, 1.0, 2.0];
            rng.shuffle(&mut vals);
            let mut v: Vec<f64> = (0..n).map(|i| if i <= d { vals[i] } else { vals[rng.usize(0, 4)] }).collect();
            rng.shuffle(&mut v);
            v
        }
    }
}

fn n_distinct(x: &[f64]) -> usize {
    let mut s: Vec<u64> = x.iter().map(|v| (v + 0.0).to_bits()).collect();
    s.sort_unstable();
    s.dedup();
    s.len()
}

/// exact powers x^0..x^d of every abscissa in double-double, row-major n×(d+1)
fn powers(x: &[f64], d: usize) -> Vec<Dd> {
    let m = d + 1;
    let mut p = vec![Dd::ONE; x.len() * m];
    for (i, &xi) in x.iter().enumerate() {
        for j in 1..m {
            p[i * m + j] = p[i * m + j - 1] * xi;
        }
    }
    p
}

fn rss_dd(p: &[Dd], y: &[f64], c: &[Dd], m: usize) -> Dd {
    let mut s = Dd::ZERO;
    for i in 0..y.len() {
        let mut f = Dd::ZERO;
        for j in 0..m {
            f = f + p[i * m + j] * c[j];
        }
        let r = Dd::new(y[i]) - f;
        s = s + r * r;
    }
    s
}

fn horner_dd(c: &[f64], x: f64) -> Dd {
    let mut acc = Dd::ZERO;
    for &cj in c.iter().rev() {
        acc = acc * x + cj;
    }
    acc
}

/// predict vs Horner in double-double; returns worst error/bound ratio (inf on shape mismatch)
fn check_predict(rep: &mut Report, regime: &str, coef: &[f64], xs: &[f64]) {
    let mut model = PolynomialRegressor::new(coef.len().saturating_sub(1));
    model.coef = coef.to_vec();
    let got = guard(|| model.predict(xs));
    match got {
        Err(msg) => {
            rep.check("C14.predict.no_panic", regime, false, || json!({"coef": jf(coef), "x": jf(xs), "panic": msg}));
        }
        Ok(got) => {
            rep.check("C14.predict.no_panic", regime, true, || json!(null));
            if !rep.check("C14.predict.len", regime, got.len() == xs.len(), || json!({"coef": jf(coef), "n_x": xs.len(), "n_out": got.len()})) {
                return;
            }
            let g = gamma_n(2 * coef.len() + 2);
            let mut worst = 0.0f64;
            let mut at = 0usize;
            for (i, &x) in xs.iter().enumerate() {
                let r = horner_dd(coef, x);
                let cond: f64 = coef.iter().rev().fold(0.0, |acc, c| acc * x.abs() + c.abs());
                let bound = g * cond + f64::MIN_POSITIVE;
                let err = (Dd::new(got[i]) - r).f().abs();
                let ratio = if r.f().is_nan() && got[i].is_nan() {
                    0.0
                } else if err.is_nan() {
                    f64::INFINITY
                } else {
                    err / bound
                };
                if ratio > worst {
                    worst = ratio;
                    at = i;
                }
            }
            rep.note_max("worst_ratio.predict_vs_horner_bound", worst);
            rep.check("C14.predict.horner", regime, worst <= 1.0, || {
                json!({"coef": jf(coef), "x": jnum(xs[at]), "observed": jnum(got[at]), "expected": jnum(horner_dd(coef, xs[at]).f()), "error_over_bound": jnum(worst)})
            });
        }
    }
}

struct Case {
    kind: &'static str,
    d: usize,
    x: Vec<f64>,
    y: Vec<f64>,
    truth: Vec<f64>,
    sigma: f64,
    exact_int: bool,
    /// absolute scale of the abscissae: a power of two such that x / unit lies in [-2, 2] (1 for the kinds
    /// that fill [-2, 2]). Used by the oracle only to solve its reference least-squares problem in the
    /// variable x / unit — the same polynomial, coefficient j multiplied by unit^j, all exactly.
    unit: f64,
}

fn gen_case(i: usize, rng: &mut Rng) -> Case {
    let kind = KINDS[i % 4];
    let exact_int = kind == "integer" && rng.chance(0.5);
    let mut d = (i / 4) % 7;
    if kind == "integer" {
        d = d.min(4);
    }
    if exact_int {
        d = d.min(3);
    }
    let n = draw_n(rng, d);
    build_case(rng, kind, d, n, exact_int)
}

fn draw_n(rng: &mut Rng, d: usize) -> usize {
    match rng.usize(0, 9) {
        0 => d + 1,
        1..=3 => rng.usize(d + 2, 30),
        4..=7 => rng.usize(30, 300),
        _ => rng.usize(300, 2000),
    }
}

/// the data set of one case once (kind, degree, n) are fixed
fn build_case(rng: &mut Rng, kind: &'static str, d: usize, n: usize, exact_int: bool) -> Case {
    let mut x = abscissae(rng, kind, n, d);
    // the property needs >= d+1 distinct abscissae; continuous draws that collide (clamping) are re-drawn
    let mut tries = 0;
    while n_distinct(&x) < d + 1 && tries < 20 {
        x = abscissae(rng, if tries > 10 { "uniform" } else { kind }, n, d);
        tries += 1;
    }
    let truth: Vec<f64> = if exact_int { (0..=d).map(|_| rng.int(-5, 5) as f64).collect() } else { (0..=d).map(|_| rng.range(-3.0, 3.0)).collect() };
    let sigma = if exact_int || rng.chance(0.2) { 0.0 } else { rng.log_range(1e-8, 1e4) };
    let y: Vec<f64> = x.iter().map(|&xi| horner_dd(&truth, xi).f() + if sigma > 0.0 { sigma * rng.normal() } else { 0.0 }).collect();
    Case { kind, d, x, y, truth, sigma, exact_int, unit: 1.0 }
}

fn one_fit(rep: &mut Report, c: &Case) {
    let (d, m, n) = (c.d, c.d + 1, c.x.len());
    let noise = if c.sigma == 0.0 { "exact" } else { "noisy" };
    let regime = format!("fit:{}:{}", c.kind, noise);
    rep.case(&regime);
    rep.seen(&format!("deg={}", d), 1);
    if n == m {
        rep.seen("n=d+1", 1);
    }
    if c.exact_int {
        rep.seen("exact-integer", 1);
    }
    rep.distinct(
        Hasher::new().s(c.kind).u(d as u64).u(n as u64).f(c.sigma).f(c.x[0]).f(c.y[0]).f(c.x[n - 1]).finish(),
        d >= 1 && c.sigma > 0.0 && n > m,
    );
    let fitted = guard(|| {
        let mut model = PolynomialRegressor::new(d);
        model.fit(&c.x, &c.y);
        model.coef
    });
    check_coef(rep, c, &regime, fitted, None);
}

/// what a twin comparison needs to know about the data set
struct Scale {
    colnorm: Vec<f64>,
    /// a-priori bound B (absolute, already multiplied by ‖y‖)
    bound: f64,
    vacuous: bool,
}

/// All assertions on the outcome of one `fit` of the data set `c` (coefficients or panic message), under
/// the given regime label. `history` describes what happened to the regressor object before this fit
/// (None: freshly constructed).
fn check_coef(rep: &mut Report, c: &Case, regime: &str, fitted: Result<Vec<f64>, String>, history: Option<&serde_json::Value>) -> Option<(Vec<f64>, Scale)> {
    let (d, m, n) = (c.d, c.d + 1, c.x.len());
    let input = |extra: serde_json::Value| json!({"degree": d, "n": n, "kind": c.kind, "sigma": c.sigma, "x": jf(&c.x), "y": jf(&c.y), "true_coef": jf(&c.truth), "abscissa_unit": c.unit, "object_history": history, "detail": extra});
    let coef = match fitted {
        Err(msg) => {
            rep.check("C14.fit.no_panic", &regime, false, || input(json!({"panic": msg})));
            return None;
        }
        Ok(cf) => {
            rep.check("C14.fit.no_panic", &regime, true, || json!(null));
            cf
        }
    };
    if !rep.check("C14.coef.len", &regime, coef.len() == m, || input(json!({"coef": jf(&coef)}))) {
        return None;
    }

    // ---- oracle quantities in double-double
    let p = powers(&c.x, d);
    let mut gram = vec![Dd::ZERO; m * m];
    for i in 0..n {
        for a in 0..m {
            for b in a..m {
                gram[a * m + b] = gram[a * m + b] + p[i * m + a] * p[i * m + b];
            }
        }
    }
    let colnorm: Vec<f64> = (0..m).map(|j| gram[j * m + j].sqrt().f()).collect();
    let mut gs = vec![0.0; m * m];
    for a in 0..m {
        for b in a..m {
            let v = (gram[a * m + b] / (Dd::new(colnorm[a]) * colnorm[b])).f();
            gs[a * m + b] = v;
            gs[b * m + a] = v;
        }
    }
    let ev = linref::jacobi_eigenvalues(&gs, m);
    let kappa = if ev[0] > 0.0 { ev[m - 1] / ev[0] } else { f64::INFINITY };
    let ynorm = c.y.iter().fold(Dd::ZERO, |s, &v| s + Dd::prod(v, v)).sqrt().f();
    let rel = (C_OPT * EPS + 4.0 * gamma_n(n)) * kappa;
    rep.note_max("kappa_scaled_gram_max", if kappa.is_finite() { kappa } else { 1e300 });
    let vacuous = !(rel <= VACUOUS);
    if vacuous {
        rep.seen("vacuous:kappa-too-large", 1);
    } else {
        rep.seen(&format!("checked:{}", c.kind), 1);
        let bound = rel * ynorm;
        let finite = coef.iter().all(|v| v.is_finite());
        if rep.check("C14.coef.finite", &regime, finite, || input(json!({"coef": jf(&coef), "kappa": kappa}))) {
            let cd: Vec<Dd> = coef.iter().map(|&v| Dd::new(v)).collect();
            // residual and gradient
            let mut g = vec![Dd::ZERO; m];
            let mut rss = Dd::ZERO;
            for i in 0..n {
                let mut f = Dd::ZERO;
                for j in 0..m {
                    f = f + p[i * m + j] * cd[j];
                }
                let r = Dd::new(c.y[i]) - f;
                rss = rss + r * r;
                for j in 0..m {
                    g[j] = g[j] + r * p[i * m + j];
                }
            }
            // (1) orthogonality of the residual to every power
            let mut worst = 0.0f64;
            let mut wj = 0;
            for j in 0..m {
                let v = g[j].f().abs() / colnorm[j];
                let ratio = if bound > 0.0 { v / bound } else if v == 0.0 { 0.0 } else { f64::INFINITY };
                if ratio > worst {
                    worst = ratio;
                    wj = j;
                }
            }
            rep.note_max("worst_ratio.orthogonality_over_bound", worst);
            rep.note_max(&format!("worst_ratio.orthogonality_over_bound.deg{}", d), worst);
            rep.check("C14.residual.orthogonal", &regime, worst <= 1.0, || {
                input(json!({"coef": jf(&coef), "power": wj, "r_dot_xj_over_norm": jnum(g[wj].f().abs() / colnorm[wj]), "bound": bound, "kappa": kappa, "ratio": jnum(worst)}))
            });
            // (2) RSS against the reference least-squares solution
            // the reference solves for the polynomial in x / unit (unit a power of two: the powers and the
            // back-substitution c_j = c'_j / unit^j are exact), so that its own elimination sees columns of comparable size
            let upow: Vec<f64> = (0..m).map(|j| c.unit.powi(j as i32)).collect();
            let vf: Vec<f64> = p.iter().enumerate().map(|(k, v)| v.f() / upow[k % m]).collect();
            match linref::ridge_ls(&vf, &c.y, None, &vec![0.0; m], n, m) {
                None => rep.inconclusive(format!("C14: reference least squares failed (kappa {:.3e})", kappa)),
                Some(cref) => {
                    let cref: Vec<f64> = cref.iter().zip(&upow).map(|(v, u)| v / u).collect();
                    let crd: Vec<Dd> = cref.iter().map(|&v| Dd::new(v)).collect();
                    let rss_ref = rss_dd(&p, &c.y, &crd, m);
                    let excess = (rss - rss_ref).f().max(0.0).sqrt();
                    let ratio = if bound > 0.0 { excess / bound } else if excess == 0.0 { 0.0 } else { f64::INFINITY };
                    rep.note_max("worst_ratio.rss_excess_over_bound", ratio);
                    rep.check("C14.rss.minimal_vs_reference", &regime, ratio <= 1.0, || {
                        input(json!({"coef": jf(&coef), "reference_coef": jf(&cref), "rss": jnum(rss.f()), "rss_reference": jnum(rss_ref.f()), "sqrt_excess": excess, "bound": bound, "kappa": kappa}))
                    });
                }
            }
            // (3) coordinate perturbations must not lower the RSS (beyond the rounding slack)
            let slack = bound * bound;
            let mut bad: Option<(usize, f64, f64)> = None;
            for j in 0..m {
                let h = 1e-4 * coef[j].abs().max(if ynorm > 0.0 { 1e-3 * ynorm / colnorm[j] } else { 1.0 });
                for s in [1.0, -1.0] {
                    let mut cp = cd.clone();
                    cp[j] = cp[j] + s * h;
                    let r2 = rss_dd(&p, &c.y, &cp, m);
                    let gain = (rss - r2).f();
                    if gain > slack && bad.is_none() {
                        bad = Some((j, s * h, gain));
                    }
                    if slack > 0.0 {
                        rep.note_max("worst_ratio.perturbation_gain_over_slack", gain / slack);
                    }
                }
            }
            rep.check("C14.rss.no_perturbation_lowers", &regime, bad.is_none(), || {
                let (j, h, gain) = bad.unwrap();
                input(json!({"coef": jf(&coef), "coordinate": j, "step": h, "rss": jnum(rss.f()), "rss_gain": gain, "slack": slack}))
            });
            // (4) polynomial data are reproduced
            if c.sigma == 0.0 {
                let mut worst = 0.0f64;
                for j in 0..m {
                    let v = (coef[j] - c.truth[j]).abs() * colnorm[j];
                    worst = worst.max(if bound > 0.0 { v / bound } else if v == 0.0 { 0.0 } else { f64::INFINITY });
                }
                rep.note_max("worst_ratio.reproduce_coef_over_bound", worst);
                rep.check("C14.reproduce.coef", &regime, worst <= 1.0, || input(json!({"coef": jf(&coef), "bound_scaled": bound, "kappa": kappa, "ratio": jnum(worst)})));
                if c.exact_int {
                    let e = coef.iter().zip(&c.truth).map(|(a, b)| (a - b).abs()).fold(0.0, f64::max);
                    rep.note_max("worst_abs.exact_integer_coef_error", e);
                    rep.check("C14.reproduce.exact_integer", &regime, e <= 1e-9, || input(json!({"coef": jf(&coef), "max_abs_error": e})));
                }
                let pred = guard(|| {
                    let mut mdl = PolynomialRegressor::new(d);
                    mdl.coef = coef.clone();
                    mdl.predict(&c.x)
                });
                if let Ok(pred) = pred {
                    if pred.len() == n {
                        let e = pred.iter().zip(&c.y).map(|(a, b)| (a - b).abs()).fold(0.0, f64::max);
                        let lim = m as f64 * bound + 8.0 * EPS * ynorm;
                        if lim > 0.0 {
                            rep.note_max("worst_ratio.reproduce_values", e / lim);
                        }
                        rep.check("C14.reproduce.values", &regime, e <= lim, || input(json!({"coef": jf(&coef), "max_abs_error": e, "limit": lim})));
                    }
                }
            }
        }
    }
    // (5) predict evaluates c0 + c1 x + ... at each point (with whatever the fit returned)
    if coef.iter().all(|v| v.is_finite()) {
        check_predict(rep, &regime, &coef, &c.x);
    }
    rep.sample(|| json!({"degree": d, "n": n, "kind": c.kind, "sigma": c.sigma, "coef": jf(&coef), "true_coef": jf(&c.truth), "kappa_scaled_gram": jnum(kappa)}));
    Some((coef, Scale { colnorm, bound: rel * ynorm, vacuous }))
}

// ---------------------------------------------------------------------------------------------
// object-reuse histories: the property quantifies over data sets, not over the past of the regressor
// object, so a `fit` on an object that has been fitted before (or whose public `coef` field holds
// anything of the right length) must return the least-squares polynomial of the CURRENT data set.

struct History<'a> {
    /// value written to the public `coef` field before the first fit, if any
    preset: Option<&'a [f64]>,
    /// data sets fitted earlier on the same object, oldest first
    earlier: Vec<&'a Case>,
}

impl History<'_> {
    fn json(&self) -> serde_json::Value {
        json!({"coef_field_preset": self.preset.map(jf),
               "earlier_fits_on_same_object": self.earlier.iter().map(|c| json!({"kind": c.kind, "n": c.x.len(), "sigma": c.sigma, "x": jf(&c.x), "y": jf(&c.y)})).collect::<Vec<_>>()})
    }
}

fn refit_kind(rng: &mut Rng, d: usize) -> (&'static str, bool) {
    let mut kind = *rng.choose(&KINDS);
    if kind == "integer" && d > 4 {
        kind = "uniform";
    }
    let exact_int = kind == "integer" && d <= 3 && rng.chance(0.5);
    (kind, exact_int)
}

/// one refit of `model` on data set `c` under `regime`: the full single-fit oracle on the result, and
/// agreement with a fresh regressor fitted once on the same data
fn refit_step(rep: &mut Report, regime: &str, model: &mut PolynomialRegressor, c: &Case, hist: &History) -> bool {
    let (d, n) = (c.d, c.x.len());
    rep.case(regime);
    rep.seen(&format!("refit:deg={}", d), 1);
    if let Some(prev) = hist.earlier.last() {
        let np = prev.x.len();
        rep.seen(if n > np { "refit:n-grows" } else if n < np { "refit:n-shrinks" } else { "refit:n-same" }, 1);
    }
    rep.distinct(Hasher::new().s(regime).u(hist.earlier.len() as u64).u(d as u64).u(n as u64).f(c.sigma).f(c.x[0]).f(c.y[0]).finish(), d >= 1 && c.sigma > 0.0 && n > d + 1);
    let hj = hist.json();
    let fitted = guard(|| {
        model.fit(&c.x, &c.y);
        model.coef.clone()
    });
    let fresh = guard(|| {
        let mut twin = PolynomialRegressor::new(d);
        twin.fit(&c.x, &c.y);
        twin.coef
    });
    judge_against_twin(rep, regime, "refit", c, fitted, fresh, &hj)
}

/// Verdict on a fit whose circumstances (`regime`: the object's or the thread's or the pool's history,
/// described by `hj`) the property does not quantify over, against a twin fit of the same data made
/// without those circumstances.
/// Both outcomes get the full single-fit oracle, each into a scratch report under the single-fit regime;
/// what fails on the fit under test ONLY is attributed to the circumstances (signed `assertion|regime`), what
/// fails on the twin as well keeps the signature the main workload gives it. Then the two coefficient
/// vectors are compared (`C14.refit.equals_fresh`, column-scaled difference <= 2B, not bitwise).
/// `tag` prefixes the bookkeeping labels. Returns false if the fit under test panicked.
fn judge_against_twin(rep: &mut Report, regime: &str, tag: &str, c: &Case, fitted: Result<Vec<f64>, String>, fresh: Result<Vec<f64>, String>, hj: &serde_json::Value) -> bool {
    let (d, n) = (c.d, c.x.len());
    let panicked = fitted.is_err();
    let noise = if c.sigma == 0.0 { "exact" } else { "noisy" };
    let single = format!("fit:{}:{}", c.kind, noise);
    let mut s_re = Report::new();
    s_re.case_seed = rep.case_seed;
    let checked = check_coef(&mut s_re, c, &single, fitted, Some(hj));
    let mut s_fr = Report::new();
    s_fr.case_seed = rep.case_seed;
    let fresh = check_coef(&mut s_fr, c, &single, fresh, None).map(|(fc, _)| fc);
    merge_differential(rep, s_re, s_fr, regime);
    if panicked {
        return false;
    }
    if let (Some((coef, sc)), Some(fc)) = (checked, fresh) {
        if coef.iter().zip(&fc).all(|(a, b)| a.to_bits() == b.to_bits()) {
            rep.seen(&format!("{}:bitwise-identical-to-fresh", tag), 1);
        }
        if sc.vacuous {
            rep.seen(&format!("{}:vacuous-not-compared", tag), 1);
        } else {
            // both are within B of the minimiser in the column-scaled norm (the bound `C14.reproduce.coef` uses)
            let lim = 2.0 * sc.bound;
            let mut worst = 0.0f64;
            for j in 0..coef.len() {
                let v = (coef[j] - fc[j]).abs() * sc.colnorm[j];
                let r = if v == 0.0 { 0.0 } else if lim > 0.0 { v / lim } else { f64::INFINITY };
                worst = worst.max(if r.is_nan() { f64::INFINITY } else { r });
            }
            rep.seen(&format!("{}:compared-with-fresh", tag), 1);
            rep.note_max(&format!("worst_ratio.{}_vs_fresh_over_limit", tag), worst);
            rep.check("C14.refit.equals_fresh", regime, worst <= 1.0, || {
                json!({"degree": d, "n": n, "kind": c.kind, "sigma": c.sigma, "x": jf(&c.x), "y": jf(&c.y), "object_history": hj,
                       "coef_reused_object": jf(&coef), "coef_fresh_object": jf(&fc), "scaled_diff_over_limit": jnum(worst), "limit_2B": lim})
            });
        }
    }
    true
}

/// Merge the verdicts on a reused object (`re`) and on its fresh twin (`fr`), both produced under the
/// single-fit regime labels: violations of `re` that the twin does not share are re-labelled
/// `assertion|reuse_regime`; shared ones and twin-only ones keep the single-fit signature.
fn merge_differential(rep: &mut Report, mut re: Report, fr: Report, reuse_regime: &str) {
    fn put(rep: &mut Report, v: Violation) {
        let key = format!("{}|{}", v.assertion, v.regime);
        match rep.violations.get_mut(&key) {
            Some(e) => e.count += v.count,
            None => {
                rep.violations.insert(key, v);
            }
        }
    }
    let vs = std::mem::take(&mut re.violations);
    rep.merge(re);
    for (sig, v) in &fr.violations {
        if !vs.contains_key(sig) {
            let st = rep.assert_stat(&v.assertion);
            st.checked += v.count;
            st.failed += v.count;
            put(rep, v.clone());
        }
    }
    for (sig, mut v) in vs {
        if !fr.violations.contains_key(&sig) {
            v.regime = reuse_regime.to_string();
        }
        put(rep, v);
    }
}

fn refit_case(i: usize, small: bool, rng: &mut Rng, rep: &mut Report) {
    // small: interpreter layers (Miri) — the history matters there, not the size
    let draw_n = |rng: &mut Rng, d: usize| if small { draw_n(rng, d).min(d + 40) } else { draw_n(rng, d) };
    let d = i % 7;
    let mode = (i / 7) % 3;
    let mut model = PolynomialRegressor::new(d);
    if mode == 2 {
        // the caller has written something of the right length into the public field (a starting guess, a previous result)
        let scale = *rng.choose(&[1.0, 1e3, 1e-3]);
        let preset: Vec<f64> = (0..=d).map(|_| scale * rng.range(-3.0, 3.0)).collect();
        model.coef = preset.clone();
        let (kind, exact_int) = refit_kind(rng, d);
        let n = draw_n(rng, d);
        let b = build_case(rng, kind, d, n, exact_int);
        refit_step(rep, "refit:after-set-coef", &mut model, &b, &History { preset: Some(&preset), earlier: vec![] });
        return;
    }
    // data set A on the fresh object
    let (kind, exact_int) = refit_kind(rng, d);
    let na = draw_n(rng, d);
    let a = build_case(rng, kind, d, na, exact_int);
    if let Err(msg) = guard(|| {
        model.fit(&a.x, &a.y);
    }) {
        let noise = if a.sigma == 0.0 { "exact" } else { "noisy" };
        rep.check("C14.fit.no_panic", &format!("fit:{}:{}", a.kind, noise), false, || json!({"degree": d, "n": na, "kind": a.kind, "x": jf(&a.x), "y": jf(&a.y), "panic": msg}));
        return;
    }
    // data set B: another number of points (mode 0) or whatever the size distribution gives (mode 1)
    let (kind, exact_int) = refit_kind(rng, d);
    let mut nb = draw_n(rng, d);
    if mode == 0 && nb == na {
        nb = if na < 2000 { na + 1 } else { na - 1 };
    }
    let b = build_case(rng, kind, d, nb, exact_int);
    if !refit_step(rep, "refit:after-ok", &mut model, &b, &History { preset: None, earlier: vec![&a] }) || mode == 0 {
        return;
    }
    // mode 1: a third data set on the same object
    let (kind, exact_int) = refit_kind(rng, d);
    let nc = draw_n(rng, d);
    let c = build_case(rng, kind, d, nc, exact_int);
    refit_step(rep, "refit:after-ok", &mut model, &c, &History { preset: None, earlier: vec![&a, &b] });
}

// ---------------------------------------------------------------------------------------------
// size sweep: every (degree, n) of the quantifier is executed; cheap oracle in plain f64

/// `fit` on a fresh regressor for one (degree, n): no panic, d+1 coefficients, and — unless the bound is
/// vacuous — finite coefficients whose residual is orthogonal to every power within 2·B, B the bound of
/// the main workload. The factor 2: residual and inner products are evaluated here in f64 with exactly
/// rounded-at-each-step powers, which costs at most (γ_n + γ_{2d+4}·sqrt((d+1)·κ))·‖y‖ ≤ B on top of what
/// the library is allowed.
fn sweep_case(d: usize, n: usize, kind: &'static str, rng: &mut Rng, rep: &mut Report) {
    let m = d + 1;
    let regime = format!("sweep:deg={}", d);
    rep.case(&regime);
    let c = build_case(rng, kind, d, n, false);
    rep.distinct(Hasher::new().s("sweep").s(c.kind).u(d as u64).u(n as u64).f(c.x[0]).f(c.y[0]).finish(), d >= 1 && c.sigma > 0.0 && n > m);
    let input = |extra: serde_json::Value| json!({"degree": d, "n": n, "kind": c.kind, "sigma": c.sigma, "x": jf(&c.x), "y": jf(&c.y), "true_coef": jf(&c.truth), "detail": extra});
    let fitted = guard(|| {
        let mut model = PolynomialRegressor::new(d);
        model.fit(&c.x, &c.y);
        model.coef
    });
    let coef = match fitted {
        Err(msg) => {
            rep.check("C14.fit.no_panic", &regime, false, || input(json!({"panic": msg})));
            return;
        }
        Ok(cf) => {
            rep.check("C14.fit.no_panic", &regime, true, || json!(null));
            cf
        }
    };
    if !rep.check("C14.coef.len", &regime, coef.len() == m, || input(json!({"coef": jf(&coef)}))) {
        return;
    }
    // powers, Gram matrix, column norms in f64
    let mut v = vec![1.0f64; n * m];
    for (i, &xi) in c.x.iter().enumerate() {
        for j in 1..m {
            v[i * m + j] = v[i * m + j - 1] * xi;
        }
    }
    let mut gram = vec![0.0f64; m * m];
    for row in v.chunks_exact(m) {
        for a in 0..m {
            for b in a..m {
                gram[a * m + b] += row[a] * row[b];
            }
        }
    }
    let colnorm: Vec<f64> = (0..m).map(|j| gram[j * m + j].sqrt()).collect();
    let mut gs = vec![0.0; m * m];
    for a in 0..m {
        for b in a..m {
            let s = gram[a * m + b] / (colnorm[a] * colnorm[b]);
            gs[a * m + b] = s;
            gs[b * m + a] = s;
        }
    }
    let ev = linref::jacobi_eigenvalues(&gs, m);
    let kappa = if ev[0] > 0.0 { ev[m - 1] / ev[0] } else { f64::INFINITY };
    let rel = (C_OPT * EPS + 4.0 * gamma_n(n)) * kappa;
    if !(rel <= VACUOUS) {
        rep.seen("sweep:vacuous:kappa-too-large", 1);
        return;
    }
    rep.seen("sweep:checked", 1);
    let ynorm = c.y.iter().map(|y| y * y).sum::<f64>().sqrt();
    let bound = 2.0 * rel * ynorm;
    if !rep.check("C14.coef.finite", &regime, coef.iter().all(|x| x.is_finite()), || input(json!({"coef": jf(&coef), "kappa": kappa}))) {
        return;
    }
    let mut g = vec![0.0f64; m];
    for (row, &yi) in v.chunks_exact(m).zip(&c.y) {
        let f: f64 = row.iter().zip(&coef).map(|(p, c)| p * c).sum();
        let r = yi - f;
        for j in 0..m {
            g[j] += r * row[j];
        }
    }
    let mut worst = 0.0f64;
    let mut wj = 0;
    for j in 0..m {
        let val = g[j].abs() / colnorm[j];
        let ratio = if val == 0.0 { 0.0 } else if bound > 0.0 { val / bound } else { f64::INFINITY };
        let ratio = if ratio.is_nan() { f64::INFINITY } else { ratio };
        if ratio > worst {
            worst = ratio;
            wj = j;
        }
    }
    rep.note_max("worst_ratio.sweep_orthogonality_over_2B", worst);
    rep.check("C14.residual.orthogonal", &regime, worst <= 1.0, || {
        input(json!({"coef": jf(&coef), "power": wj, "r_dot_xj_over_norm_f64": jnum(g[wj].abs() / colnorm[wj]), "bound_2B": bound, "kappa": kappa, "ratio": jnum(worst)}))
    });
}


// ---------------------------------------------------------------------------------------------
// a valid fit after a call that was outside the quantifier (stream 5)
//
// The property quantifies over data sets; what the process did before — on this thread, with this or
// another regressor object — is not part of the quantifier. A caller who survives a panic (catch_unwind,
// a worker thread whose panic is joined, an FFI boundary) goes on fitting on the same thread. So: a
// twin fit of a valid data set FIRST, then 1..3 calls of `fit` with arguments outside the quantifier
// (slices of different length, an empty slice, fewer than degree+1 points, all abscissae equal, a NaN) whose
// own outcome — panic or value — is only recorded, then the valid data set again, on the object that went
// through the rejected calls or on a new one. The second fit gets the full oracle and must agree with the
// first within 2B. Each case runs on a thread of its own, so that a thread the library has left in a bad
// state is charged to the case that caused it and to no other.

const OUTSIDE: [&str; 7] = ["x-longer-than-y", "y-longer-than-x", "empty-y", "empty-x", "fewer-than-d+1-points", "all-abscissae-equal", "nan-in-data"];

fn outside_call(rng: &mut Rng, kind: &str, d: usize, n: usize) -> (Vec<f64>, Vec<f64>) {
    let xs = |rng: &mut Rng, k: usize| -> Vec<f64> { (0..k).map(|_| rng.range(-2.0, 2.0)).collect() };
    match kind {
        "x-longer-than-y" => {
            let extra = *rng.choose(&[1usize, 1, 2, 7]);
            (xs(rng, n + extra), xs(rng, n))
        }
        "y-longer-than-x" => {
            let extra = *rng.choose(&[1usize, 1, 2, 7]);
            (xs(rng, n), xs(rng, n + extra))
        }
        "empty-y" => (xs(rng, n), vec![]),
        "empty-x" => (vec![], xs(rng, n)),
        "fewer-than-d+1-points" => {
            let k = rng.usize(1, d.max(1));
            (xs(rng, k), xs(rng, k))
        }
        "all-abscissae-equal" => (vec![rng.range(-2.0, 2.0); n], xs(rng, n)),
        _ => {
            let (mut x, mut y) = (xs(rng, n), xs(rng, n));
            if rng.bool() {
                x[rng.usize(0, n - 1)] = f64::NAN;
            } else {
                y[rng.usize(0, n - 1)] = f64::NAN;
            }
            (x, y)
        }
    }
}

fn after_outside_case(i: usize, small: bool, rng: &mut Rng, rep: &mut Report) {
    let d = i % 7;
    let kind = OUTSIDE[(i / 7) % OUTSIDE.len()];
    let same_object = (i / 49) % 2 == 0;
    let (akind, exact_int) = refit_kind(rng, d);
    let n = if small { draw_n(rng, d).min(d + 40) } else { draw_n(rng, d) };
    let c = build_case(rng, akind, d, n, exact_int);
    let ncalls = rng.usize(1, 3);
    let calls: Vec<(Vec<f64>, Vec<f64>)> = (0..ncalls).map(|_| { let m = rng.usize(d + 2, 40); outside_call(rng, kind, d, m) }).collect();
    let regime = if (i / 7) % OUTSIDE.len() < 4 { "after-outside-call:length-mismatch" } else { "after-outside-call:degenerate-data" };
    let seed = rep.case_seed;
    // the whole history on one thread of its own
    let local = std::thread::scope(|s| {
        s.spawn(|| {
            let mut rep = Report::new();
            rep.case_seed = seed;
            rep.case(regime);
            rep.seen(&format!("after-outside-call:{}", kind), 1);
            rep.seen(if same_object { "after-outside-call:same-object" } else { "after-outside-call:new-object" }, 1);
            rep.distinct(Hasher::new().s(regime).s(kind).u(same_object as u64).u(d as u64).u(n as u64).f(c.sigma).f(c.x[0]).f(c.y[0]).finish(), d >= 1 && c.sigma > 0.0 && n > d + 1);
            let twin = guard(|| {
                let mut t = PolynomialRegressor::new(d);
                t.fit(&c.x, &c.y);
                t.coef
            });
            let mut model = PolynomialRegressor::new(d);
            let mut outcomes = Vec::new();
            for (x, y) in &calls {
                match guard(|| {
                    model.fit(x, y);
                }) {
                    Ok(()) => {
                        rep.seen("outside-call:returned", 1);
                        outcomes.push(json!({"x_len": x.len(), "y_len": y.len(), "outcome": "returned"}));
                    }
                    Err(msg) => {
                        rep.seen("outside-call:panicked", 1);
                        outcomes.push(json!({"x_len": x.len(), "y_len": y.len(), "outcome": {"panic": msg}}));
                    }
                }
            }
            let hj = json!({"earlier_calls_of_fit_on_this_thread": {"class": kind, "calls": outcomes}, "final_fit_on": if same_object { "the object that went through those calls" } else { "a new regressor" },
                            "twin": "a new regressor fitted on the same data on this thread before those calls"});
            let fitted = guard(|| {
                if !same_object {
                    model = PolynomialRegressor::new(d);
                }
                model.fit(&c.x, &c.y);
                model.coef.clone()
            });
            judge_against_twin(&mut rep, regime, "after-outside-call", &c, fitted, twin, &hj);
            rep
        })
        .join()
    });
    match local {
        Ok(l) => rep.merge(l),
        Err(_) => rep.inconclusive(format!("C14: harness thread of an after-outside-call case died (case_seed {})", seed)),
    }
}

// ---------------------------------------------------------------------------------------------
// the ambient thread pool (stream 6)
//
// The property quantifies over data sets, not over the machine: the same data must give the least-squares
// polynomial on a laptop and on a 128-thread node. The size of rayon's current pool is the one piece of
// "machine" a library call can see, and `ThreadPool::install` lets a test choose it. Every case is fitted
// outside any pool (the twin, full oracle) and inside pools of 1, 2, 33, 48, 64 and 128 threads; every pool
// fit gets the full oracle and must agree with the twin within 2B (`|pool:threads=T`). Sizes: the whole
// distribution of the main workload, a uniform draw from 1024..2000, 300..2000, and powers of two +-1.

const POOL_SIZES: [usize; 6] = [1, 2, 33, 48, 64, 128];

fn panic_text(p: Box<dyn std::any::Any + Send>) -> String {
    if let Some(s) = p.downcast_ref::<&str>() {
        s.to_string()
    } else if let Some(s) = p.downcast_ref::<String>() {
        s.clone()
    } else {
        "<non-string panic payload>".to_string()
    }
}

fn pool_case(i: usize, pools: &[(usize, rayon::ThreadPool)], rng: &mut Rng, rep: &mut Report) {
    let d = i % 7;
    // the first seven cases (all a lite run has) take the large sizes
    let n = match (i / 7) % 4 {
        1 => draw_n(rng, d),
        0 => rng.usize(1024, 2000),
        2 => rng.usize(300, 2000),
        _ => {
            let k = rng.usize(4, 10);
            ((1usize << k) + rng.usize(0, 2)).saturating_sub(1).max(d + 1)
        }
    };
    let (kind, exact_int) = refit_kind(rng, d);
    let c = build_case(rng, kind, d, n, exact_int);
    rep.seen(if n >= 1024 { "pool:n>=1024" } else if n >= 256 { "pool:256<=n<1024" } else { "pool:n<256" }, 1);
    let twin = guard(|| {
        let mut t = PolynomialRegressor::new(d);
        t.fit(&c.x, &c.y);
        t.coef
    });
    for (threads, pool) in pools {
        let regime = format!("pool:threads={}", threads);
        rep.case(&regime);
        rep.distinct(Hasher::new().s(&regime).u(d as u64).u(n as u64).f(c.sigma).f(c.x[0]).f(c.y[0]).finish(), d >= 1 && c.sigma > 0.0 && n > d + 1);
        crate::report::install_panic_hook();
        // the panic of a pool worker is re-thrown here; its text is in the payload (the hook's note is on the worker)
        let fitted = std::panic::catch_unwind(std::panic::AssertUnwindSafe(|| {
            pool.install(|| {
                let mut m = PolynomialRegressor::new(d);
                m.fit(&c.x, &c.y);
                m.coef
            })
        }))
        .map_err(panic_text);
        let hj = json!({"fitted_inside": format!("rayon::ThreadPoolBuilder::new().num_threads({}).build().install(..)", threads), "twin": "the same data fitted outside any pool"});
        judge_against_twin(rep, &regime, "pool", &c, fitted, twin.clone(), &hj);
    }
}


// ---------------------------------------------------------------------------------------------
// abscissae at absolute scales far from 1 (stream 7)
//
// The quantifier says "abscissae in [-2, 2]", not "abscissae that fill [-2, 2]": offsets of a few
// micrometres given in metres, sub-millisecond times given in seconds, a normalised detuning of +-0.1 fitted
// at degree 6 are all inside it. (Scales above 2 are outside the stated range, so "far from 1" can only mean
// small here.) Case i: degree = i mod 7, shape = (i/7) mod 4 of {uniform, Chebyshev, dyadic lattice m/8 with
// m in -16..16, one-sided uniform on [0, 2]} on [-2, 2], multiplied by unit = 2^-k, k uniform in 1..200/degree
// (so that x^(2·degree) stays above 2^-400: no underflow in anybody's Gram matrix). The responses are
// polynomials in the natural variable u = x / unit with coefficients t_j of ordinary size (integers in -5..5
// on the lattice: the data are then exactly representable and the least-squares polynomial is known exactly),
// i.e. c_j = t_j / unit^j, plus noise of any scale or none.
// Oracle: the unchanged single-fit oracle. Every bound in it is stated on the column-scaled problem
// (kappa of the column-scaled Gram matrix, residual inner products divided by the column norm, coefficient
// errors multiplied by it, RSS against the double-double reference), and column scaling does not change the
// least-squares polynomial — so the bound does not know the unit, and a fit that is within B at unit 1 and is
// not at unit 2^-k has broken the property, not the tolerance.

const SCALED: [&str; 4] = ["scaled:uniform", "scaled:chebyshev", "scaled:lattice", "scaled:one-sided"];

fn scaled_case(i: usize, small: bool, rng: &mut Rng) -> (Case, usize) {
    let d = i % 7;
    let kind = SCALED[(i / 7) % 4];
    let kmax = if d == 0 { 200 } else { 200 / d };
    let k = rng.usize(1, kmax);
    let unit = (2.0f64).powi(-(k as i32));
    let n = if small { draw_n(rng, d).min(d + 40) } else { draw_n(rng, d) };
    let lattice = kind == "scaled:lattice";
    // the shape in the natural variable u = x / unit
    let u: Vec<f64> = match kind {
        "scaled:uniform" => abscissae(rng, "uniform", n, d),
        "scaled:chebyshev" => abscissae(rng, "chebyshev", n, d),
        "scaled:lattice" => {
            // d+1 <= 7 distinct values first, then anything on the lattice
            let mut vals: Vec<f64> = (-16..=16).map(|m| m as f64 / 8.0).collect();
            rng.shuffle(&mut vals);
            let mut v: Vec<f64> = (0..n).map(|i| if i <= d { vals[i] } else { vals[rng.usize(0, 32)] }).collect();
            rng.shuffle(&mut v);
            v
        }
        _ => {
            let mut v: Vec<f64> = (0..n).map(|_| rng.range(0.0, 2.0)).collect();
            let mut tries = 0;
            while n_distinct(&v) < d + 1 && tries < 20 {
                v = (0..n).map(|_| rng.range(0.0, 2.0)).collect();
                tries += 1;
            }
            v
        }
    };
    let t: Vec<f64> = if lattice { (0..=d).map(|_| rng.int(-5, 5) as f64).collect() } else { (0..=d).map(|_| rng.range(-3.0, 3.0)).collect() };
    let sigma = if rng.chance(if lattice { 0.6 } else { 0.3 }) { 0.0 } else { rng.log_range(1e-8, 1e4) };
    // on the lattice Horner in u is exact in f64 (dyadic rationals of at most 6·5 + 4 bits)
    let y: Vec<f64> = u.iter().map(|&ui| horner_dd(&t, ui).f() + if sigma > 0.0 { sigma * rng.normal() } else { 0.0 }).collect();
    // multiplying by a power of two is exact
    let x: Vec<f64> = u.iter().map(|&ui| ui * unit).collect();
    let truth: Vec<f64> = t.iter().enumerate().map(|(j, &tj)| tj / unit.powi(j as i32)).collect();
    (Case { kind, d, x, y, truth, sigma, exact_int: false, unit }, k)
}

fn scaled_fit(i: usize, small: bool, rng: &mut Rng, rep: &mut Report) {
    let (c, k) = scaled_case(i, small, rng);
    rep.seen(&format!("scaled:deg={}", c.d), 1);
    rep.seen(if k <= 10 { "scaled:unit=2^-1..2^-10" } else if k <= 40 { "scaled:unit=2^-11..2^-40" } else { "scaled:unit<2^-40" }, 1);
    // how far the powers are graded: log2 of ||x^d|| / ||x^0|| is about -k·d
    let g = k * c.d;
    rep.seen(if g == 0 { "scaled:grading=none" } else if g < 26 { "scaled:grading<2^-26" } else if g < 100 { "scaled:grading=2^-26..2^-100" } else { "scaled:grading>2^-100" }, 1);
    if c.kind == "scaled:lattice" && c.sigma == 0.0 {
        rep.seen("scaled:exactly-representable-polynomial-data", 1);
    }
    one_fit(rep, &c);
}

// ---------------------------------------------------------------------------------------------
// responses at absolute scales far from 1 (stream 8)
//
// "responses = polynomial + noise of any scale": nothing in the quantifier ties the responses to the
// magnitude 1 — charges in coulomb (1e-19), masses in kilogram (1e-27), counts per year (1e+12) are data sets
// like any other. The least-squares polynomial is linear in y: the minimiser of ||y·s − V c|| is s times the
// minimiser of ||y − V c||. Case i: degree = (i/6) mod 7, abscissa kind = (i/6 + i/42) mod 4 (the main workload's kinds),
// scale class = i mod 6:
//   tiny / small / large / huge : the main workload's data set, y multiplied by a power of two such that
//                                 max|y| lands in 2^-960..2^-400 / 2^-400..2^-30 / 2^30..2^400 / 2^400..2^900
//   power-of-ten                : y multiplied by 10^k, max|y| in 1e-290..1e270 (y·10^k rounded once)
//   graded-coefficients         : true coefficients t_j·10^-e_j with e_j in 0..12 (some exactly zero), noise
//                                 none or 1e-12..1 — then multiplied by a power of two of the classes above
// max|y| stays <= 2^900 so that neither n·2^6·max|y| nor the kappa-amplified intermediate products of ANY
// normal-equation solver overflow, and >= 2^-960 so that rounding to subnormals (absolute 2^-1075 per
// operation) stays 2^50 below the bound.
// Oracle: the unchanged single-fit oracle — every bound in it (orthogonality, RSS excess, perturbations,
// reproduction, twin distance) is B = rel·||y||, homogeneous of degree one in y. To keep the double-double
// arithmetic of the oracle itself inside its exponent range (it squares residuals) the returned coefficients
// and the offered responses are both divided by p = 2^floor(log2 max|y|) — exact — before they are judged.
// The true coefficients are multiplied by scale/p (a power of two for the binary classes; for 10^k one
// rounding per coefficient and per response, <= eps·sqrt(kappa)·||y|| in the column-scaled norm, 1/64 of B).

const YSCALE: [&str; 6] = ["yscale:tiny", "yscale:small", "yscale:large", "yscale:huge", "yscale:power-of-ten", "yscale:graded-coefficients"];

/// floor(log2 |v|) of a finite non-zero f64
fn ilog2(v: f64) -> i32 {
    let b = v.abs().to_bits();
    let e = (b >> 52) as i32;
    if e == 0 {
        // subnormal
        -1074 + (63 - (b.leading_zeros() as i32))
    } else {
        e - 1023
    }
}

/// 2^k for k in -1074..1023, exactly
fn pow2(k: i32) -> f64 {
    if k >= -1022 {
        f64::from_bits(((k + 1023) as u64) << 52)
    } else {
        f64::from_bits(1u64 << (k + 1074))
    }
}

fn yscale_fit(i: usize, small: bool, rng: &mut Rng, rep: &mut Report) {
    // class fastest, then degree, the abscissa kind shifted from one block of 42 to the next: a Miri run of 6 cases
    // meets every class, a sanitizer run of 24 four degrees and all kinds; 168 cases meet every (class, degree, kind)
    let class = YSCALE[i % 6];
    let base_kind = KINDS[(i / 6 + i / 42) % 4];
    let mut d = (i / 6) % 7;
    if base_kind == "integer" {
        d = d.min(4);
    }
    let n = if small { draw_n(rng, d).min(d + 40) } else { draw_n(rng, d) };
    let int_coef = base_kind == "integer" && d <= 3 && rng.chance(0.5);
    let mut c = build_case(rng, base_kind, d, n, int_coef);
    c.exact_int = false;
    if class == "yscale:graded-coefficients" {
        let mut e: Vec<i32> = (0..=d).map(|_| rng.int(0, 12) as i32).collect();
        let lead = rng.usize(0, d);
        e[lead] = 0;
        c.truth = c.truth.iter().zip(&e).enumerate().map(|(j, (t, e))| if j != lead && rng.chance(0.15) { 0.0 } else { t * 10f64.powi(-e) }).collect();
        c.sigma = if rng.chance(0.5) { 0.0 } else { rng.log_range(1e-12, 1.0) };
        c.y = c.x.iter().map(|&xi| horner_dd(&c.truth, xi).f() + if c.sigma > 0.0 { c.sigma * rng.normal() } else { 0.0 }).collect();
    }
    let ymax0 = c.y.iter().fold(0.0f64, |m, v| m.max(v.abs()));
    let binary_class = |rng: &mut Rng, which: usize| -> i32 {
        match which {
            0 => rng.int(-960, -400) as i32,
            1 => rng.int(-400, -30) as i32,
            2 => rng.int(30, 400) as i32,
            _ => rng.int(400, 900) as i32,
        }
    };
    // the offered responses y·s and s itself
    let (s, exact_scale): (f64, bool) = if ymax0 == 0.0 {
        (1.0, true) // the zero polynomial: nothing to scale
    } else {
        let e0 = ilog2(ymax0);
        match class {
            "yscale:tiny" => (pow2(binary_class(rng, 0) - e0), true),
            "yscale:small" => (pow2(binary_class(rng, 1) - e0), true),
            "yscale:large" => (pow2(binary_class(rng, 2) - e0), true),
            "yscale:huge" => (pow2(binary_class(rng, 3) - e0), true),
            "yscale:graded-coefficients" => {
                let w = rng.usize(0, 3);
                (pow2(binary_class(rng, w) - e0), true)
            }
            _ => {
                // 10^k with max|y|·10^k in 1e-290..1e270, |k| >= 10
                let l0 = ymax0.log10();
                let (klo, khi) = ((-290.0 - l0).ceil() as i32, (270.0 - l0).floor() as i32);
                let k = if rng.bool() { rng.int(klo.min(-10) as i64, -10) as i32 } else { rng.int(10, khi.max(10) as i64) as i32 };
                (10f64.powi(k), false)
            }
        }
    };
    let y_off: Vec<f64> = c.y.iter().map(|v| v * s).collect();
    let ymax = y_off.iter().fold(0.0f64, |m, v| m.max(v.abs()));
    let p = if ymax > 0.0 { pow2(ilog2(ymax)) } else { 1.0 };
    // the judged data set: (x, y_off / p), an exact image of what the library was given
    let ratio = s / p; // a power of two for the binary classes, 10^k / 2^e (one rounding) otherwise
    let judged = Case { kind: class, d, x: c.x.clone(), y: y_off.iter().map(|v| v / p).collect(), truth: c.truth.iter().map(|t| t * ratio).collect(), sigma: c.sigma * ratio, exact_int: false, unit: 1.0 };
    let noise = if judged.sigma == 0.0 { "exact" } else { "noisy" };
    let regime = format!("fit:{}:{}", class, noise);
    rep.case(&regime);
    rep.seen(class, 1);
    rep.seen(&format!("yscale:deg={}", d), 1);
    rep.seen(&format!("yscale:abscissae:{}", base_kind), 1);
    if ymax > 0.0 {
        let e = ilog2(ymax);
        rep.seen(if e < -600 { "yscale:max|y|<2^-600" } else if e < -52 { "yscale:max|y|=2^-600..2^-52" } else if e < 0 { "yscale:max|y|=2^-52..1" } else if e <= 600 { "yscale:max|y|=1..2^600" } else { "yscale:max|y|>2^600" }, 1);
        if ymax < f64::EPSILON {
            rep.seen("yscale:all-responses-below-eps", 1);
        }
    }
    rep.distinct(Hasher::new().s(class).u(d as u64).u(n as u64).f(s).f(c.x[0]).f(y_off[0]).finish(), d >= 1 && c.sigma > 0.0 && n > d + 1);
    let fitted = guard(|| {
        let mut model = PolynomialRegressor::new(d);
        model.fit(&c.x, &y_off);
        model.coef
    });
    let raw = fitted.clone().ok();
    let hj = json!({"responses_offered_to_fit": jf(&y_off), "scale_applied_to_the_unit-scale_responses": s, "exact_power_of_two": exact_scale, "judged_after_dividing_responses_and_coefficients_by": p,
                    "coef_returned": raw.as_ref().map(|v| jf(v))});
    check_coef(rep, &judged, &regime, fitted.map(|cf| cf.iter().map(|v| v / p).collect()), Some(&hj));
    if let Some(raw) = raw {
        if raw.iter().all(|v| v.is_finite()) {
            // prediction at the scale the caller works in
            check_predict(rep, &regime, &raw, &c.x);
            // evidence: is the fit bitwise homogeneous in y? (not demanded)
            if exact_scale && s != 1.0 {
                if let Ok(unit) = guard(|| {
                    let mut model = PolynomialRegressor::new(d);
                    model.fit(&c.x, &c.y);
                    model.coef
                }) {
                    if unit.len() == raw.len() && unit.iter().zip(&raw).all(|(u, r)| (u * s).to_bits() == r.to_bits()) {
                        rep.seen("yscale:bitwise-homogeneous", 1);
                    }
                }
            }
        }
    }
}

// ---------------------------------------------------------------------------------------------
// several fits on one thread over shared abscissae (stream 9)
//
// The property quantifies over data sets: which fits the thread has made before — with this or another
// regressor object, at which degree, on which responses — is not part of the quantifier. Callers who choose a
// degree fit the SAME abscissae again and again: a degree sweep upwards, backward selection from a high
// degree downwards, many series sampled on one grid, a growing or shrinking window of one series. Case i:
// order = i mod 5 of {descending, ascending, random, same-degree, prefix-extension}; objects = (i/5) mod 2 of
// {a new regressor per fit, ONE regressor whose public coef field is resized to the next degree}; maximal
// degree = (i/10) mod 7 (at least 1); one abscissa vector of the main workload's kinds; 3..6 fits, each with
// responses of its own (polynomial of that degree + noise); prefix-extension: every fit takes a leading
// part x[..n_t] of the shared vector (n_t random, not below degree+1 distinct values), degrees random.
// All fits of a case run in sequence on ONE thread spawned for the case. Every fit is then repeated as the
// first library call of a thread spawned for it alone: the two coefficient vectors must agree bit for bit
// (`C14.history.same_as_first_call_on_fresh_thread` — the fit is a function of degree, x and y; the library
// uses no randomness and no parallel reduction in this path), and the fit made inside the history gets the
// full single-fit oracle next to the fresh-thread fit (signed `assertion|thread-history:<order>` when only
// the fit inside the history fails).

const ORDERS: [&str; 5] = ["descending", "ascending", "random", "same-degree", "prefix-extension"];

fn thread_history_case(i: usize, small: bool, rng: &mut Rng, rep: &mut Report) {
    let order = ORDERS[i % 5];
    let one_object = (i / 5) % 2 == 1;
    let dmax = ((i / 10) % 7).max(1);
    let (kind, _) = refit_kind(rng, dmax);
    let n = if small { draw_n(rng, dmax).min(dmax + 8) } else { draw_n(rng, dmax).min(400) }.max(dmax + 2);
    let shared = build_case(rng, kind, dmax, n, false);
    let x = shared.x;
    let len = if small { 3 } else { rng.usize(3, 6) };
    // degrees of the successive fits
    let degrees: Vec<usize> = match order {
        "descending" | "ascending" => {
            let mut all: Vec<usize> = (0..=dmax).collect();
            rng.shuffle(&mut all);
            all.truncate(len.min(dmax + 1).max(2));
            all.sort_unstable();
            if order == "descending" {
                all.reverse();
            }
            all
        }
        "same-degree" => vec![dmax; len],
        _ => (0..len).map(|_| rng.usize(0, dmax)).collect(),
    };
    // the data set of every fit
    let cases: Vec<Case> = degrees
        .iter()
        .map(|&d| {
            let mut nt = n;
            if order == "prefix-extension" {
                nt = rng.usize(d + 1, n);
                if n_distinct(&x[..nt]) < d + 1 {
                    nt = n;
                }
            }
            let xt = x[..nt].to_vec();
            let truth: Vec<f64> = (0..=d).map(|_| rng.range(-3.0, 3.0)).collect();
            let sigma = if rng.chance(0.3) { 0.0 } else { rng.log_range(1e-8, 1e4) };
            let y: Vec<f64> = xt.iter().map(|&xi| horner_dd(&truth, xi).f() + if sigma > 0.0 { sigma * rng.normal() } else { 0.0 }).collect();
            Case { kind, d, x: xt, y, truth, sigma, exact_int: false, unit: 1.0 }
        })
        .collect();
    let regime = format!("thread-history:{}", order);
    // the history: all fits in sequence on one thread of its own
    let in_history: Option<Vec<Result<Vec<f64>, String>>> = std::thread::scope(|s| {
        s.spawn(|| {
            let mut shared_model = PolynomialRegressor::new(degrees[0]);
            cases
                .iter()
                .map(|c| {
                    guard(|| {
                        if one_object {
                            shared_model.coef = vec![0.0; c.d + 1];
                            shared_model.fit(&c.x, &c.y);
                            shared_model.coef.clone()
                        } else {
                            let mut m = PolynomialRegressor::new(c.d);
                            m.fit(&c.x, &c.y);
                            m.coef
                        }
                    })
                })
                .collect()
        })
        .join()
        .ok()
    });
    let in_history = match in_history {
        Some(v) => v,
        None => {
            let seed = rep.case_seed;
            rep.inconclusive(format!("C14: harness thread of a thread-history case died (case_seed {})", seed));
            return;
        }
    };
    rep.seen(if one_object { "thread-history:one-object-coef-resized" } else { "thread-history:new-object-per-fit" }, 1);
    for (t, c) in cases.iter().enumerate() {
        // the same fit as the first library call of a thread of its own
        let fresh: Option<Result<Vec<f64>, String>> = std::thread::scope(|s| {
            s.spawn(|| {
                guard(|| {
                    let mut m = PolynomialRegressor::new(c.d);
                    m.fit(&c.x, &c.y);
                    m.coef
                })
            })
            .join()
            .ok()
        });
        let fresh = match fresh {
            Some(v) => v,
            None => {
                let seed = rep.case_seed;
                rep.inconclusive(format!("C14: harness thread of a fresh-thread twin died (case_seed {})", seed));
                return;
            }
        };
        rep.case(&regime);
        if t > 0 {
            let (dp, np) = (cases[t - 1].d, cases[t - 1].x.len());
            rep.seen(if c.d < dp { "thread-history:degree-drops" } else if c.d > dp { "thread-history:degree-rises" } else { "thread-history:degree-stays" }, 1);
            rep.seen(if c.x.len() < np { "thread-history:n-shrinks" } else if c.x.len() > np { "thread-history:n-grows" } else { "thread-history:n-same" }, 1);
        }
        rep.distinct(Hasher::new().s(&regime).u(t as u64).u(c.d as u64).u(c.x.len() as u64).f(c.sigma).f(c.x[0]).f(c.y[0]).finish(), c.d >= 1 && c.sigma > 0.0 && c.x.len() > c.d + 1);
        let hj = json!({"earlier_fits_on_this_thread_oldest_first": cases[..t].iter().map(|e| json!({"degree": e.d, "n": e.x.len(), "x": "the leading n shared abscissae", "y": jf(&e.y)})).collect::<Vec<_>>(),
                        "shared_abscissae": jf(&x), "objects": if one_object { "one regressor, coef field resized to degree+1 before every fit" } else { "a new regressor per fit" },
                        "twin": "the same fit made as the first library call of a fresh thread"});
        let fitted = in_history[t].clone();
        if let (Ok(a), Ok(b)) = (&fitted, &fresh) {
            let same = a.len() == b.len() && a.iter().zip(b).all(|(p, q)| p.to_bits() == q.to_bits());
            rep.check("C14.history.same_as_first_call_on_fresh_thread", &regime, same, || {
                json!({"degree": c.d, "n": c.x.len(), "kind": c.kind, "x": jf(&c.x), "y": jf(&c.y), "history": hj, "coef_inside_history": jf(a), "coef_first_call_on_fresh_thread": jf(b)})
            });
        }
        judge_against_twin(rep, &regime, "thread-history", c, fitted, fresh, &hj);
    }
}

pub fn run(cfg: &Cfg, rep: &mut Report) {
    rep.rule = "case i: abscissa kind = i mod 4 (uniform, clustered, Chebyshev, integer lattice in [-2,2]), degree = (i/4) mod 7 (integer lattice: <= 4), n in {d+1, d+2..30, 30..300, 300..2000}, y = polynomial(coef in [-3,3]) + sigma*normal with sigma = 0 (20%) or log-uniform 1e-8..1e4; exact-integer cases: lattice abscissae, integer coefficients in -5..5, degree <= 3, no noise. Then direct predict cases with arbitrary distinct coefficients. Then refit histories on ONE regressor object (degree = i mod 7): fit A then B with another n; fit A, B, C; public coef field preset then fit — each refit gets the full single-fit oracle and is compared with a fresh regressor. Then the size sweep: every degree 0..6 with EVERY n in degree+1..2000 (quick: abscissa kind rotating with n; thorough: all four kinds), fresh regressor, cheap f64 oracle (no panic, shape, finite, orthogonality within 2B). Then histories on a thread of their own: twin fit of a valid data set, 1..3 calls of fit outside the quantifier (case i: degree = i mod 7, class = (i/7) mod 7 of {x longer, y longer, empty y, empty x, fewer than d+1 points, equal abscissae, NaN}, same / new object by (i/49) mod 2), then the valid data set again — full oracle and agreement with the twin. Then every case fitted outside any rayon pool and inside pools of 1, 2, 33, 48, 64, 128 threads (n: main distribution | uniform 1024..2000 | uniform 300..2000 | 2^k-1..2^k+1, k = 4..10) — full oracle on every pool fit and agreement with the outside fit. Then abscissae at small absolute scales (case i: degree = i mod 7, shape = (i/7) mod 4 of {uniform, Chebyshev, dyadic lattice m/8, one-sided uniform on [0,2]} times unit = 2^-k, k uniform in 1..200/degree; responses = polynomial in x/unit with coefficients in [-3,3] (lattice: integers in -5..5, exactly representable data) + sigma*normal, sigma = 0 (30 %, lattice 60 %) or log-uniform 1e-8..1e4) with the full single-fit oracle, whose bounds live on the column-scaled problem. Then responses at absolute scales far from 1 (case i: class = i mod 6, degree = (i/6) mod 7, abscissa kind = (i/6 + i/42) mod 4; classes {max|y| in 2^-960..2^-400, 2^-400..2^-30, 2^30..2^400, 2^400..2^900 by an exact power of two; y*10^k with max|y| in 1e-290..1e270; true coefficients graded by 10^-e_j, e_j in 0..12, some exactly zero, times a power of two}) judged by the single-fit oracle after dividing responses and coefficients by one power of two. Then sequences of 3..6 fits on ONE thread over shared abscissae (case i: order = i mod 5 of {degrees descending, ascending, random, all equal, leading parts x[..n_t] of the shared vector}, objects = (i/5) mod 2 of {new regressor per fit, one regressor with coef resized}, maximal degree = (i/10) mod 7), each fit with its own responses, compared bit for bit with the same fit made as the first library call of a fresh thread and judged by the single-fit oracle. non-trivial = degree >= 1, noise > 0 and n > d+1 (optimality rather than interpolation); distinct by (kind, degree, n, sigma, first/last point)".into();
    rep.assume("at least degree+1 distinct abscissae (ensured by the generator)");
    rep.assume("abscissae in [-2,2], finite responses; cases whose column-scaled Gram matrix has (64*eps + 4*gamma_n)*kappa > 1e-3 are counted as vacuous (only shape, finiteness of predict and Horner evaluation are checked there)");
    rep.assume("optimality bounds are stated relative to ||y|| (a-priori error of normal equations), not relative to ||r|| as DESIGN wrote: the latter is unsound for noise-free data");
    let n = cfg.pick(600, 15000, 40);
    par_cases(cfg, rep, 1, n, |i, rng: &mut Rng, rep| {
        let c = gen_case(i, rng);
        one_fit(rep, &c);
    });
    // direct predict cases: the coefficient order must be c0 + c1 x + ... (distinct coefficients)
    let np = cfg.pick(200, 5000, 20);
    par_cases(cfg, rep, 2, np, |i, rng: &mut Rng, rep| {
        let d = i % 7;
        let coef: Vec<f64> = (0..=d).map(|j| (j as f64 + 1.0) * if rng.bool() { 1.0 } else { -1.0 } + rng.range(0.0, 0.5)).collect();
        let mut xs: Vec<f64> = (0..rng.usize(0, 40)).map(|_| if rng.chance(0.8) { rng.range(-2.0, 2.0) } else { rng.range(-10.0, 10.0) }).collect();
        xs.extend_from_slice(&[0.0, 1.0, -1.0, 2.0, -2.0]);
        let regime = "predict:direct";
        rep.case(regime);
        rep.distinct(Hasher::new().s(regime).fs(&coef).u(xs.len() as u64).finish(), d >= 1);
        check_predict(rep, regime, &coef, &xs);
        // integer coefficients at integer points are exact
        let ic: Vec<f64> = (0..=d).map(|_| rng.int(-9, 9) as f64).collect();
        let ix: Vec<f64> = (-3..=3).map(|v| v as f64).collect();
        let mut mdl = PolynomialRegressor::new(d);
        mdl.coef = ic.clone();
        if let Ok(got) = guard(|| mdl.predict(&ix)) {
            let exp: Vec<f64> = ix.iter().map(|&x| ic.iter().enumerate().map(|(j, c)| c * x.powi(j as i32)).sum::<f64>()).collect();
            rep.check("C14.predict.exact_integer", regime, got == exp, || json!({"coef": jf(&ic), "x": jf(&ix), "observed": jf(&got), "expected": jf(&exp)}));
        }
    });
    // refit histories on one regressor object
    rep.assume("a regressor object that has been fitted before, or whose public coef field holds any finite vector of length degree+1, is inside the quantifier: the property quantifies over data sets only; the refitted coefficients are compared with a fresh regressor's within twice the a-priori bound (not bitwise)");
    let nr = cfg.pick(420, 8400, 7);
    par_cases(cfg, rep, 3, nr, |i, rng: &mut Rng, rep| refit_case(i, cfg.miri(), rng, rep));
    // size sweep: every degree with every n of the quantifier (thorough: once per abscissa kind)
    let mut grid: Vec<(usize, usize, usize)> = Vec::new();
    if cfg.lite {
        for d in 0..7usize {
            for n in (d + 1)..=(d + 6) {
                grid.push((d, n, 0));
            }
            if !cfg.miri() {
                for n in [64usize, 1000, 2000] {
                    grid.push((d, n, 0));
                }
            }
        }
    } else {
        for pass in 0..(if cfg.thorough() { 4 } else { 1 }) {
            for n in 1..=2000usize {
                for d in 0..7usize {
                    if n >= d + 1 {
                        grid.push((d, n, pass));
                    }
                }
            }
        }
    }
    par_cases(cfg, rep, 4, grid.len(), |i, rng: &mut Rng, rep| {
        let (d, n, pass) = grid[i];
        let mut kind = KINDS[(n + d + pass) % 4];
        if kind == "integer" && d > 4 {
            kind = "uniform";
        }
        sweep_case(d, n, kind, rng, rep);
    });
    // a valid fit after calls outside the quantifier, each history on a thread of its own (stream 5)
    rep.assume("what a thread did before a fit is outside the quantifier: after calls of fit with slices of different length, an empty slice, fewer than degree+1 points, equal abscissae or a NaN (whose own outcome, panic or value, is recorded and not judged), a valid data set fitted on the same thread — same or new regressor object — must get the least-squares polynomial and agree within 2B with the fit of the same data made before those calls");
    let na = cfg.pick(294, 5880, 7);
    par_cases(cfg, rep, 5, na, |i, rng: &mut Rng, rep| after_outside_case(i, cfg.miri(), rng, rep));
    rep.require("after-outside-call:length-mismatch", 1);
    rep.require("after-outside-call:compared-with-fresh", 1);
    if !cfg.lite {
        rep.require("after-outside-call:degenerate-data", 1);
        for k in OUTSIDE {
            rep.require(&format!("after-outside-call:{}", k), 1);
        }
        rep.require("after-outside-call:same-object", 1);
        rep.require("after-outside-call:new-object", 1);
        rep.require("outside-call:panicked", 1);
    }
    // fits inside rayon pools of several sizes against the fit outside any pool (stream 6); not in the interpreter
    if !cfg.miri() {
        rep.assume("the size of the ambient rayon pool is not part of the quantifier: the same data fitted inside ThreadPool::install of 1, 2, 33, 48, 64 and 128 threads must give the least-squares polynomial and agree within 2B (not bitwise) with the fit outside any pool");
        let sizes: &[usize] = if cfg.lite { &[2, 48] } else { &POOL_SIZES };
        let mut pools: Vec<(usize, rayon::ThreadPool)> = Vec::new();
        for &t in sizes {
            match rayon::ThreadPoolBuilder::new().num_threads(t).build() {
                Ok(p) => pools.push((t, p)),
                Err(e) => rep.inconclusive(format!("C14: could not build a rayon pool of {} threads: {}", t, e)),
            }
        }
        let np = cfg.pick(168, 2800, 7);
        par_cases(cfg, rep, 6, np, |i, rng: &mut Rng, rep| pool_case(i, &pools, rng, rep));
        for &t in sizes {
            rep.require(&format!("pool:threads={}", t), 1);
        }
        rep.require("pool:compared-with-fresh", 1);
        rep.require("pool:n>=1024", 1);
        if !cfg.lite {
            rep.require("pool:n<256", 1);
            rep.require("pool:256<=n<1024", 1);
        }
    }
    // abscissae at small absolute scales inside [-2, 2] (stream 7)
    rep.assume("abscissae on a small absolute scale (|x| <= 2^(1-k), k = 1..200/degree) are inside the quantifier's range [-2, 2]; scales above 2 are outside it and are not generated; the oracle's bounds are stated on the column-scaled problem and therefore do not depend on the scale");
    let ns = cfg.pick(560, 8400, 28);
    par_cases(cfg, rep, 7, ns, |i, rng: &mut Rng, rep| scaled_fit(i, cfg.miri(), rng, rep));
    for k in SCALED {
        rep.require(&format!("checked:{}", k), 1);
        if !cfg.lite {
            rep.require(&format!("fit:{}:exact", k), 1);
            rep.require(&format!("fit:{}:noisy", k), 1);
        }
    }
    for d in 0..7 {
        rep.require(&format!("scaled:deg={}", d), 1);
    }
    if !cfg.lite {
        rep.require("scaled:exactly-representable-polynomial-data", 1);
        for l in ["scaled:unit=2^-1..2^-10", "scaled:unit=2^-11..2^-40", "scaled:unit<2^-40", "scaled:grading<2^-26", "scaled:grading=2^-26..2^-100", "scaled:grading>2^-100"] {
            rep.require(l, 1);
        }
    }
    // responses at absolute scales far from 1 (stream 8)
    rep.assume("responses on any absolute scale with 2^-960 <= max|y| <= 2^900 are inside the quantifier ('noise of any scale'); beyond 2^900 the products n*2^6*max|y| and the kappa-amplified intermediates of a normal-equation solver may overflow, which the property does not exclude, so such data are not generated. The least-squares polynomial is linear in y and every bound of the oracle is B = rel*||y||, homogeneous in y: responses and returned coefficients are divided by the same power of two before they are judged (exact), so the verdict at scale s is the verdict the unit-scale oracle gives");
    let ny = cfg.pick(504, 8400, 6);
    par_cases(cfg, rep, 8, ny, |i, rng: &mut Rng, rep| yscale_fit(i, cfg.miri(), rng, rep));
    for k in YSCALE {
        rep.require(k, 1);
        if !cfg.lite {
            rep.require(&format!("checked:{}", k), 1);
            rep.require(&format!("fit:{}:exact", k), 1);
            rep.require(&format!("fit:{}:noisy", k), 1);
        }
    }
    if !cfg.lite {
        for d in 0..7 {
            rep.require(&format!("yscale:deg={}", d), 1);
        }
        for k in KINDS {
            rep.require(&format!("yscale:abscissae:{}", k), 1);
        }
        for l in ["yscale:max|y|<2^-600", "yscale:max|y|=2^-600..2^-52", "yscale:max|y|=1..2^600", "yscale:max|y|>2^600", "yscale:all-responses-below-eps"] {
            rep.require(l, 1);
        }
    }
    // several fits on one thread over shared abscissae (stream 9)
    rep.assume("which fits a thread has made before (degrees, responses, regressor objects) is outside the quantifier: every fit of a sequence made on ONE thread over shared abscissae (degrees descending / ascending / random / equal, leading parts of one abscissa vector) must give the least-squares polynomial of its own data set and — the library using neither randomness nor parallel reductions in fit — the same bits as the same fit made as the first library call of a fresh thread");
    let nh = cfg.pick(210, 4200, 5);
    par_cases(cfg, rep, 9, nh, |i, rng: &mut Rng, rep| thread_history_case(i, cfg.miri(), rng, rep));
    for o in ORDERS {
        rep.require(&format!("thread-history:{}", o), 1);
    }
    rep.require("thread-history:degree-drops", 1);
    rep.require("thread-history:degree-rises", 1);
    rep.require("thread-history:new-object-per-fit", 1);
    if !cfg.lite {
        rep.require("thread-history:compared-with-fresh", 1);
        rep.require("thread-history:degree-stays", 1);
        rep.require("thread-history:n-shrinks", 1);
        rep.require("thread-history:n-grows", 1);
        rep.require("thread-history:n-same", 1);
        rep.require("thread-history:one-object-coef-resized", 1);
    }
    for d in 0..7usize {
        let per_pass = if cfg.lite { 1 } else { (2000 - d) as u64 };
        rep.require(&format!("sweep:deg={}", d), per_pass * if cfg.thorough() && !cfg.lite { 4 } else { 1 });
        rep.require(&format!("refit:deg={}", d), 1);
    }
    rep.require("refit:after-ok", 1);
    rep.require("refit:after-set-coef", 1);
    rep.require("refit:compared-with-fresh", 1);
    rep.require("refit:n-grows", 1);
    rep.require("refit:n-shrinks", 1);
    rep.require("sweep:checked", 1);
    for k in KINDS {
        rep.require(&format!("fit:{}:noisy", k), 1);
        rep.require(&format!("checked:{}", k), 1);
    }
    rep.require("fit:uniform:exact", 1);
    rep.require("exact-integer", 1);
    rep.require("n=d+1", 1);
    rep.require("predict:direct", 1);
    for d in 0..7 {
        rep.require(&format!("deg={}", d), 1);
    }
}
