//! C05 — matrix products follow the definition for every shape and transpose flag (DESIGN §3 C05).
//!
//! Events: every return (value or panic) of `matmul`, `matmul_blocked`, `xtx` and of the 64
//! `Dot` trait methods (4 methods × 4 ownership forms × Matrix·Matrix, Matrix·Vector,
//! Vector·Matrix, Vector·Vector).
//! Oracle: a naive triple loop on explicitly transposed operands. Integer-valued entries
//! (|a| ≤ 50, inner dimension ≤ 64) make every partial sum exact, so the comparison is an equality;
//! real-valued entries use the a-priori bound γ_l·Σ|a||b| per entry against a double-double
//! reference. Non-conformable operands must panic.
use crate::gen::Rng;
use crate::oracle::dd::{gamma_n, Dd};
use crate::oracle::linref;
use crate::report::{guard, jf, par_cases, Cfg, Hasher, Report};
use compute::linalg::{matmul, matmul_blocked, xtx, Dot, Matrix, Vector};
use serde_json::{json, Value};

const FLAGS: [(bool, bool); 4] = [(false, false), (true, false), (false, true), (true, true)];
const METHODS: [&str; 4] = ["dot", "t_dot", "dot_t", "t_dot_t"];
const FORMS: [&str; 4] = ["(S,T)", "(S,&T)", "(&S,T)", "(&S,&T)"];

fn fl(ta: bool, tb: bool) -> &'static str {
    match (ta, tb) {
        (false, false) => "NN",
        (true, false) => "TN",
        (false, true) => "NT",
        (true, true) => "TT",
    }
}


// ---------------------------------------------------------------------------------------------
// Regime / assertion tables and a per-case tally.
//
// Every library call is one evaluation with three or four named assertions. Under Miri each
// `Report` map operation costs ~10 ms, so the monitor counts into flat arrays indexed by
// (assertion, regime) and flushes them into the `Report` once per case (same numbers, same
// signatures, first failing input kept as the replay record).

const ASSERTS: [&str; 17] = [
    "C05.matmul.no_panic", "C05.matmul.shape", "C05.matmul.entries", "C05.matmul.rejects",
    "C05.blocked.no_panic", "C05.blocked.shape", "C05.blocked.entries", "C05.blocked.rejects", "C05.blocked.eq_matmul",
    "C05.xtx.no_panic", "C05.xtx.shape", "C05.xtx.entries", "C05.xtx.symmetric",
    "C05.dot.no_panic", "C05.dot.shape", "C05.dot.entries", "C05.dot.rejects",
];
const A_MM: usize = 0;
const A_MM_REJECTS: usize = 3;
const A_BL: usize = 4;
const A_BL_REJECTS: usize = 7;
const A_BL_EQ: usize = 8;
const A_XTX: usize = 9;
const A_XTX_SYM: usize = 12;
const A_DOT: usize = 13;
const A_DOT_REJECTS: usize = 16;
const API: [&str; 4] = ["matmul", "blocked", "xtx", "dot"];
fn api_of(a: usize) -> usize {
    match a {
        0..=3 => 0,
        4..=8 => 1,
        9..=12 => 2,
        _ => 3,
    }
}

const NREG: usize = 85;
const R_BLOCKED: usize = 6; // + flag index
const R_XTX: usize = 10;
const R_NC_SMALLER: usize = 11;
const R_NC_LARGER: usize = 12;
const R_NC_TT: usize = 13;
const R_NC_NOTMAT: usize = 14;
const R_DOT: usize = 15; // + kind*4 + method; Matrix·Matrix t_dot_t (18) means ":rect"
const R_DOT_TT_SCALAR: usize = 31;
const R_DOT_TT_SQUARE: usize = 32;
const R_DOT_NC: usize = 33; // + kind*4 + method
/// Dot-trait products of integer data at other absolute scales (both operands are integers times a
/// power of two): + kind*4 + method
const R_DOT_SCALED: usize = 49;
/// Rejection probes whose operands come from a *value class* (all zeros of either sign, all ones,
/// identity-like, NaN / inf filled, ...): slice API (+ class) and Dot trait (+ class)
const R_NCV: usize = 65;
const R_DOT_NCV: usize = 75;
const VCLASSES: [&str; 10] = ["zeros", "neg-zeros", "mixed-zeros", "ones", "identity-like", "nan", "inf", "sparse", "constant", "tiny-and-huge"];
const KINDS: [&str; 4] = ["MM", "MV", "VM", "VV"];

fn regime_name(r: usize) -> String {
    match r {
        0..=2 => format!("flags={}", ["NN", "TN", "NT"][r]),
        3 => "flags=TT:scalar".into(),
        4 => "flags=TT:square".into(),
        5 => "flags=TT:rect".into(),
        6..=9 => format!("blocked:flags={}", ["NN", "TN", "NT", "TT"][r - 6]),
        R_XTX => "xtx".into(),
        R_NC_SMALLER => "nonconf:inner-smaller".into(),
        R_NC_LARGER => "nonconf:inner-larger".into(),
        R_NC_TT => "nonconf:TT".into(),
        R_NC_NOTMAT => "nonconf:not-a-matrix".into(),
        18 => "dot:MM:t_dot_t:rect".into(),
        15..=30 => format!("dot:{}:{}", KINDS[(r - 15) / 4], METHODS[(r - 15) % 4]),
        R_DOT_TT_SCALAR => "dot:MM:t_dot_t:scalar".into(),
        R_DOT_TT_SQUARE => "dot:MM:t_dot_t:square".into(),
        33..=48 => format!("dot-nonconf:{}:{}", KINDS[(r - 33) / 4], METHODS[(r - 33) % 4]),
        65..=74 => format!("nonconf-values:{}", VCLASSES[r - R_NCV]),
        75..=84 => format!("dot-nonconf-values:{}", VCLASSES[r - R_DOT_NCV]),
        _ => format!("dot-scaled:{}:{}", KINDS[(r - R_DOT_SCALED) / 4], METHODS[(r - R_DOT_SCALED) % 4]),
    }
}
fn flag_index(ta: bool, tb: bool) -> usize {
    (ta as usize) + 2 * (tb as usize)
}
/// Regime of a product through the non-blocked path. The both-transposed branch is a separate
/// code path (utils.rs:438), split further by whether all three dimensions coincide.
fn flag_regime(ta: bool, tb: bool, m: usize, l: usize, n: usize) -> usize {
    if ta && tb {
        if m == l && l == n {
            if m == 1 {
                3
            } else {
                4
            }
        } else {
            5
        }
    } else {
        flag_index(ta, tb)
    }
}

const NSEEN: usize = 25;
const SEEN: [&str; NSEEN] = [
    "data=int", "data=real", "dot-form=(S,T)", "dot-form=(S,&T)", "dot-form=(&S,T)", "dot-form=(&S,&T)",
    "dot-scaled:both-operands-below-2^-52", "dot-scaled:tiny-times-huge", "dot-scaled:mixed-scales", "dot-scaled:same-shape-different-operands", "dot-scaled:real-data",
    "nonconf-values:both-operands-in-class", "nonconf-values:left-operand-in-class", "nonconf-values:right-operand-in-class",
    "nonconf-values:flags=NN", "nonconf-values:flags=TN", "nonconf-values:flags=NT", "nonconf-values:flags=TT",
    "dot-nonconf-values:MM", "dot-nonconf-values:MV", "dot-nonconf-values:VM", "dot-nonconf-values:VV",
    "nonconf-values:equal-lengths", "nonconf-values:dimension=1", "nonconf-values:shapes-up-to-24",
];
const S_V_SIDE: usize = 11;
const S_V_FLAGS: usize = 14;
const S_V_KIND: usize = 18;
const S_V_EQLEN: usize = 22;
const S_V_DIM1: usize = 23;
const S_V_LARGE: usize = 24;
const S_SC_TINY: usize = 6;
const S_SC_TINYHUGE: usize = 7;
const S_SC_MIXED: usize = 8;
const S_SC_SAMESHAPE: usize = 9;
const S_SC_REAL: usize = 10;

struct Tally {
    cases: [u64; NREG],
    checks: Vec<[(u64, u64); NREG]>,
    first: Vec<(usize, usize, Value)>,
    seen: [u64; NSEEN],
    distinct: Vec<u64>,
    worst: [[f64; 2]; 4],
    samples: Vec<Value>,
    bitwise: [u64; 2],
    lean: bool,
}
impl Tally {
    fn new(lean: bool) -> Self {
        Tally { cases: [0; NREG], checks: vec![[(0, 0); NREG]; ASSERTS.len()], first: Vec::new(), seen: [0; NSEEN], distinct: Vec::new(), worst: [[-1.0; 2]; 4], samples: Vec::new(), bitwise: [0; 2], lean }
    }
    fn case(&mut self, r: usize) {
        self.cases[r] += 1;
    }
    fn check(&mut self, a: usize, r: usize, ok: bool, detail: &dyn Fn() -> Value) -> bool {
        let c = &mut self.checks[a][r];
        c.0 += 1;
        if !ok {
            c.1 += 1;
            if c.1 == 1 {
                self.first.push((a, r, detail()));
            }
        }
        ok
    }
    /// Register a case key (api tag + shape parameters). FNV natively; a plain polynomial under Miri,
    /// where the byte-wise hasher alone would cost 15 ms per call.
    fn distinct(&mut self, parts: &[u64], nontrivial: bool) {
        if nontrivial {
            let h = if self.lean {
                parts.iter().fold(7u64, |acc, &p| acc.wrapping_mul(1_000_003).wrapping_add(p))
            } else {
                parts.iter().fold(Hasher::new(), |h, &p| h.u(p)).finish()
            };
            self.distinct.push(h);
        }
    }
    fn flush(self, rep: &mut Report) {
        for r in 0..NREG {
            if self.cases[r] > 0 {
                rep.evaluations += self.cases[r];
                rep.seen(&regime_name(r), self.cases[r]);
            }
        }
        for (i, s) in SEEN.iter().enumerate() {
            if self.seen[i] > 0 {
                rep.seen(s, self.seen[i]);
            }
        }
        let mut first = self.first;
        for a in 0..ASSERTS.len() {
            for r in 0..NREG {
                let (checked, failed) = self.checks[a][r];
                if checked == 0 {
                    continue;
                }
                let mut direct_checked = checked;
                let mut direct_failed = failed;
                if failed > 0 {
                    // one real `check` call creates / bumps the violation record with the replay detail
                    let pos = first.iter().position(|(fa, fr, _)| *fa == a && *fr == r).expect("first failure kept");
                    let (_, _, d) = first.swap_remove(pos);
                    let regime = regime_name(r);
                    rep.check(ASSERTS[a], &regime, false, || d);
                    direct_checked -= 1;
                    direct_failed -= 1;
                    if direct_failed > 0 {
                        if let Some(v) = rep.violations.get_mut(&format!("{}|{}", ASSERTS[a], regime)) {
                            v.count += direct_failed;
                        }
                    }
                }
                let st = rep.assert_stat(ASSERTS[a]);
                st.checked += direct_checked;
                st.failed += direct_failed;
            }
        }
        for h in self.distinct {
            rep.distinct(h, true);
        }
        for (i, w) in self.worst.iter().enumerate() {
            if w[0] >= 0.0 {
                rep.note_max(&format!("worst_ratio.{}.real_entries", API[i]), w[0]);
            }
            if w[1] >= 0.0 {
                rep.note_max(&format!("worst_ratio.{}.real_entries_l>=8", API[i]), w[1]);
            }
        }
        if self.bitwise[0] > 0 {
            rep.note_add("blocked_real_bitwise_equal", self.bitwise[0] as f64);
        }
        if self.bitwise[1] > 0 {
            rep.note_add("blocked_real_bitwise_different", self.bitwise[1] as f64);
        }
        for s in self.samples {
            rep.sample(|| s);
        }
    }
}

/// The harness's own transposition (row-major r×c → c×r).
fn tr(a: &[f64], r: usize, c: usize) -> Vec<f64> {
    let mut t = vec![0.0; a.len()];
    for i in 0..r {
        for j in 0..c {
            t[j * r + i] = a[i * c + j];
        }
    }
    t
}

/// What the definition demands for op(A)·op(B) on *stored* shapes (ar×ac), (br×bc).
struct Expect {
    m: usize,
    l: usize,
    n: usize,
    /// plain f64 triple loop (exact on integer data)
    plain: Vec<f64>,
    /// double-double reference and entrywise bound γ_l·Σ|a||b| (real data only)
    real: Option<(Vec<Dd>, Vec<f64>)>,
}

fn define(a: &[f64], ar: usize, ac: usize, ta: bool, b: &[f64], br: usize, bc: usize, tb: bool, real: bool) -> Option<Expect> {
    let (m, l) = if ta { (ac, ar) } else { (ar, ac) };
    let (lb, n) = if tb { (bc, br) } else { (br, bc) };
    if l != lb {
        return None;
    }
    let oa = if ta { tr(a, ar, ac) } else { a.to_vec() };
    let ob = if tb { tr(b, br, bc) } else { b.to_vec() };
    let mut plain = vec![0.0; m * n];
    for i in 0..m {
        for j in 0..n {
            let mut s = 0.0;
            for k in 0..l {
                s += oa[i * l + k] * ob[k * n + j];
            }
            plain[i * n + j] = s;
        }
    }
    let real = if real {
        let r = linref::matmul_dd(&oa, &ob, m, l, n);
        let g = gamma_n(l);
        let bound: Vec<f64> = linref::matmul_abs(&oa, &ob, m, l, n).iter().map(|x| g * x * (1.0 + 1e-9)).collect();
        Some((r, bound))
    } else {
        None
    };
    Some(Expect { m, l, n, plain, real })
}

/// Compare a flat result with the definition. `a0` = index of the api's `no_panic` assertion
/// (`shape` and `entries` follow it). Returns true iff everything held.
fn judge(t: &mut Tally, a0: usize, r: usize, got: &Result<Vec<f64>, String>, shape: Option<[usize; 2]>, e: &Expect, detail: &dyn Fn() -> Value) -> bool {
    match got {
        Err(_) => {
            t.check(a0, r, false, detail);
            false
        }
        Ok(v) => {
            t.check(a0, r, true, detail);
            let shape_ok = v.len() == e.m * e.n && shape.map_or(true, |s| s == [e.m, e.n]);
            if !t.check(a0 + 1, r, shape_ok, detail) {
                return false;
            }
            match &e.real {
                None => {
                    let ok = v.iter().zip(&e.plain).all(|(x, y)| x == y);
                    t.check(a0 + 2, r, ok, detail)
                }
                Some((rf, bound)) => {
                    let ratio = linref::worst_ratio(v, rf, bound);
                    // (the defective both-transposed branch would drown the headroom figure)
                    if ratio <= 1.0 {
                        let w = &mut t.worst[api_of(a0)];
                        w[0] = w[0].max(ratio);
                        if e.l >= 8 {
                            w[1] = w[1].max(ratio);
                        }
                    }
                    t.check(a0 + 2, r, ratio <= 1.0, detail)
                }
            }
        }
    }
}

fn jres(got: &Result<Vec<f64>, String>) -> Value {
    match got {
        Ok(v) => json!({"len": v.len(), "data": jf(v)}),
        Err(m) => json!({"panic": m}),
    }
}

/// One stored-shape product through `matmul`, every requested block size of `matmul_blocked`.
fn slice_case(t: &mut Tally, a: &[f64], ar: usize, ac: usize, b: &[f64], br: usize, bc: usize, ta: bool, tb: bool, bsizes: &[usize], real: bool) {
    let e = define(a, ar, ac, ta, b, br, bc, tb, real).expect("conformable by construction");
    let r = flag_regime(ta, tb, e.m, e.l, e.n);
    t.case(r);
    t.seen[real as usize] += 1;
    let nontrivial = e.m * e.l * e.n > 1;
    t.distinct(&[1, e.m as u64, e.l as u64, e.n as u64, flag_index(ta, tb) as u64, real as u64], nontrivial);
    let got = guard(|| matmul(a, b, ar, br, ta, tb));
    let base = |api: &str, bs: Option<usize>, g: &Result<Vec<f64>, String>| {
        json!({"api": api, "data_kind": if real { "real (bound gamma_l*sum|a||b|)" } else { "integer (exact)" },
               "a": jf(a), "a_stored_shape": [ar, ac], "b": jf(b), "b_stored_shape": [br, bc], "transpose_a": ta, "transpose_b": tb,
               "bsize": bs, "observed": jres(g), "expected": {"shape": [e.m, e.n], "data": jf(&e.plain)}})
    };
    let mm_ok = judge(t, A_MM, r, &got, None, &e, &|| base("matmul", None, &got));
    if t.samples.is_empty() && !t.lean {
        t.samples.push(json!({"api": "matmul", "flags": fl(ta, tb), "m": e.m, "l": e.l, "n": e.n, "ok": mm_ok}));
    }
    let rb = R_BLOCKED + flag_index(ta, tb);
    for &bs in bsizes {
        t.case(rb);
        if !t.lean {
            t.distinct(&[2, e.m as u64, e.l as u64, e.n as u64, flag_index(ta, tb) as u64, bs as u64, real as u64], nontrivial);
        }
        let gb = guard(|| matmul_blocked(a, b, ar, br, ta, tb, bs));
        let ok = judge(t, A_BL, rb, &gb, None, &e, &|| base("matmul_blocked", Some(bs), &gb));
        // "the blocked variant returns the same result": only meaningful where the plain variant
        // itself delivered the definition (its own failure is already reported above)
        if ok && mm_ok {
            let (x, y) = (gb.as_ref().unwrap(), got.as_ref().unwrap());
            if real {
                // same accumulation order in both kernels: record (not assert) whether bits agree
                let same = x.iter().zip(y).all(|(p, q)| p.to_bits() == q.to_bits());
                t.bitwise[!same as usize] += 1;
            } else {
                let same = x.iter().zip(y).all(|(p, q)| p == q);
                t.check(A_BL_EQ, rb, same, &|| base("matmul_blocked", Some(bs), &gb));
            }
        }
    }
}

/// Non-conformable product through the slice API: op(A) is m×la, op(B) is lb×n, la ≠ lb.
fn slice_nonconf(t: &mut Tally, rng: &mut Rng, m: usize, la: usize, lb: usize, n: usize, ta: bool, tb: bool) {
    let (ar, ac) = if ta { (la, m) } else { (m, la) };
    let (br, bc) = if tb { (n, lb) } else { (lb, n) };
    let a = rng.ints(ar * ac, 1, 50);
    let b = rng.ints(br * bc, 1, 50);
    let rel = if la < lb { R_NC_SMALLER } else { R_NC_LARGER };
    // the slice-level functions never compare inner dimensions: what happens is decided by the
    // index arithmetic, which differs between the both-transposed branch and the common loop
    let r = if ta && tb { R_NC_TT } else { rel };
    t.case(r);
    let got = guard(|| matmul(&a, &b, ar, br, ta, tb));
    t.check(A_MM_REJECTS, r, got.is_err(), &|| {
        json!({"api": "matmul", "a": jf(&a), "a_stored_shape": [ar, ac], "b": jf(&b), "b_stored_shape": [br, bc], "transpose_a": ta, "transpose_b": tb,
               "op_a_shape": [m, la], "op_b_shape": [lb, n], "observed": jres(&got), "expected": "panic"})
    });
    let bs = rng.usize(1, 2 * m.max(la).max(lb).max(n));
    t.case(rel);
    let gb = guard(|| matmul_blocked(&a, &b, ar, br, ta, tb, bs));
    t.check(A_BL_REJECTS, rel, gb.is_err(), &|| {
        json!({"api": "matmul_blocked", "a": jf(&a), "a_stored_shape": [ar, ac], "b": jf(&b), "b_stored_shape": [br, bc], "transpose_a": ta, "transpose_b": tb,
               "bsize": bs, "op_a_shape": [m, la], "op_b_shape": [lb, n], "observed": jres(&gb), "expected": "panic"})
    });
}

/// A slice whose length is not a multiple of the row count is no matrix at all.
fn slice_not_matrix(t: &mut Tally, rng: &mut Rng) {
    let rows = rng.usize(2, 6);
    let len = rows * rng.usize(1, 5) + rng.usize(1, rows - 1);
    let a = rng.ints(len, 1, 50);
    let b = rng.ints(rows * 2, 1, 50);
    let left = rng.bool();
    t.case(R_NC_NOTMAT);
    let got = guard(|| if left { matmul(&a, &b, rows, rows, true, false) } else { matmul(&b, &a, rows, rows, true, false) });
    t.check(A_MM_REJECTS, R_NC_NOTMAT, got.is_err(), &|| json!({"api": "matmul", "ragged_len": len, "rows": rows, "ragged_operand_left": left, "observed": jres(&got)}));
    t.case(R_NC_NOTMAT);
    let gb = guard(|| if left { matmul_blocked(&a, &b, rows, rows, true, false, 2) } else { matmul_blocked(&b, &a, rows, rows, true, false, 2) });
    t.check(A_BL_REJECTS, R_NC_NOTMAT, gb.is_err(), &|| json!({"api": "matmul_blocked", "ragged_len": len, "rows": rows, "ragged_operand_left": left, "observed": jres(&gb)}));
}


// ---------------------------------------------------------------------------------------------
// Rejection must not depend on the operand VALUES: the non-conformable probes once more with
// operands from value classes for which a product has a shortcut (zero, one, identity) or for which
// comparisons behave specially (signed zeros, NaN, inf), in both operands or in one of them only.

const SIDES: [&str; 3] = ["both", "left", "right"];

/// An r×c operand of value class `class` (index into VCLASSES).
fn vfill(rng: &mut Rng, class: usize, r: usize, c: usize) -> Vec<f64> {
    let k = r * c;
    match class {
        0 => vec![0.0; k],
        1 => vec![-0.0; k],
        2 => (0..k).map(|_| if rng.bool() { 0.0 } else { -0.0 }).collect(),
        3 => vec![1.0; k],
        4 => (0..k).map(|i| if i / c == i % c { 1.0 } else { 0.0 }).collect(),
        5 => vec![f64::NAN; k],
        6 => (0..k).map(|_| if rng.bool() { f64::INFINITY } else { f64::NEG_INFINITY }).collect(),
        7 => {
            let mut v = vec![0.0; k];
            let i = rng.usize(0, k - 1);
            v[i] = rng.int(1, 50) as f64 * if rng.bool() { 1.0 } else { -1.0 };
            v
        }
        8 => {
            let cst = if rng.bool() { rng.int(1, 50) as f64 } else { rng.normal() * 3.0 + 0.25 } * if rng.bool() { 1.0 } else { -1.0 };
            vec![cst; k]
        }
        _ => (0..k).map(|_| *rng.choose(&[5e-324, -5e-324, f64::MIN_POSITIVE, 1e-300, f64::MAX, f64::MIN, 1e300, -1e300])).collect(),
    }
}

/// The operand pair of a value-class probe: `side` 0 = both operands in the class, 1 = the left one only,
/// 2 = the right one only (the other one: non-zero integers, as in the ordinary rejection probes).
fn vpair(t: &mut Tally, rng: &mut Rng, class: usize, side: usize, ar: usize, ac: usize, br: usize, bc: usize) -> (Vec<f64>, Vec<f64>) {
    t.seen[S_V_SIDE + side] += 1;
    if ar * ac == br * bc {
        t.seen[S_V_EQLEN] += 1;
    }
    if ar.min(ac).min(br).min(bc) == 1 {
        t.seen[S_V_DIM1] += 1;
    }
    if ar.max(ac).max(br).max(bc) > 9 {
        t.seen[S_V_LARGE] += 1;
    }
    let a = if side == 2 { rng.ints(ar * ac, 1, 50) } else { vfill(rng, class, ar, ac) };
    let b = if side == 1 { rng.ints(br * bc, 1, 50) } else { vfill(rng, class, br, bc) };
    (a, b)
}

/// Non-conformable product through the slice API (op(A) is m×la, op(B) is lb×n, la ≠ lb; both slices are
/// valid matrices for their row counts) with operands of value class `class`: `matmul` and `matmul_blocked`
/// must panic whatever the operands contain.
fn slice_nonconf_values(t: &mut Tally, rng: &mut Rng, m: usize, la: usize, lb: usize, n: usize, ta: bool, tb: bool, class: usize, side: usize, blocked: bool) {
    let (ar, ac) = if ta { (la, m) } else { (m, la) };
    let (br, bc) = if tb { (n, lb) } else { (lb, n) };
    let (a, b) = vpair(t, rng, class, side, ar, ac, br, bc);
    let r = R_NCV + class;
    t.seen[S_V_FLAGS + flag_index(ta, tb)] += 1;
    t.case(r);
    let got = guard(|| matmul(&a, &b, ar, br, ta, tb));
    t.check(A_MM_REJECTS, r, got.is_err(), &|| {
        json!({"api": "matmul", "value_class": VCLASSES[class], "operands_in_class": SIDES[side],
               "a": jf(&a), "a_stored_shape": [ar, ac], "b": jf(&b), "b_stored_shape": [br, bc], "transpose_a": ta, "transpose_b": tb,
               "op_a_shape": [m, la], "op_b_shape": [lb, n], "observed": jres(&got), "expected": "panic"})
    });
    if blocked {
        let bs = rng.usize(1, 2 * m.max(la).max(lb).max(n));
        t.case(r);
        let gb = guard(|| matmul_blocked(&a, &b, ar, br, ta, tb, bs));
        t.check(A_BL_REJECTS, r, gb.is_err(), &|| {
            json!({"api": "matmul_blocked", "value_class": VCLASSES[class], "operands_in_class": SIDES[side],
                   "a": jf(&a), "a_stored_shape": [ar, ac], "b": jf(&b), "b_stored_shape": [br, bc], "transpose_a": ta, "transpose_b": tb,
                   "bsize": bs, "op_a_shape": [m, la], "op_b_shape": [lb, n], "observed": jres(&gb), "expected": "panic"})
        });
    }
}

/// The same through the Dot trait: method `meth`, ownership form `form`, operand kind `kind` (a vector
/// stands for m = 1 resp. n = 1).
fn dot_nonconf_values(t: &mut Tally, rng: &mut Rng, kind: usize, m: usize, la: usize, lb: usize, n: usize, meth: usize, form: usize, class: usize, side: usize) {
    let (ta, tb) = FLAGS[meth];
    let (m, n) = (if kind == VM || kind == VV { 1 } else { m }, if kind == MV || kind == VV { 1 } else { n });
    // stored shapes: a promoted vector ignores the transpose request
    let (ar, ac) = if kind == VM || kind == VV { (1, la) } else if ta { (la, m) } else { (m, la) };
    let (br, bc) = if kind == MV || kind == VV { (lb, 1) } else if tb { (n, lb) } else { (lb, n) };
    let (a, b) = vpair(t, rng, class, side, ar, ac, br, bc);
    t.seen[S_V_KIND + kind] += 1;
    dot_case_at(t, kind, meth, form, &a, ar, ac, &b, br, bc, false, false, Some(class));
}

/// One point (m, la ≠ lb, n) of the rejection grid through every flag combination / Dot method with the
/// operands of value class `class`. `all_sides`: both / left / right at every call, else rotating.
fn nonconf_values_point(t: &mut Tally, rng: &mut Rng, i: usize, m: usize, la: usize, lb: usize, n: usize, class: usize, all_sides: bool) {
    let sides: Vec<usize> = if all_sides { vec![0, 1, 2] } else { vec![(i + class) % 3] };
    for (fi, &(ta, tb)) in FLAGS.iter().enumerate() {
        for &side in &sides {
            let side = if all_sides { side } else { (side + fi) % 3 };
            slice_nonconf_values(t, rng, m, la, lb, n, ta, tb, class, side, true);
            let form = (i + fi + side) % 4;
            let kind = (i / 4 + fi + class + side) % 4;
            dot_nonconf_values(t, rng, kind, m, la, lb, n, fi, form, class, side);
        }
    }
}

fn xtx_case(t: &mut Tally, x: &[f64], k: usize, c: usize, real: bool) {
    let e = define(x, k, c, true, x, k, c, false, real).unwrap();
    t.case(R_XTX);
    t.distinct(&[3, k as u64, c as u64, real as u64], k * c > 1);
    let got = guard(|| xtx(x, k));
    let ok = judge(t, A_XTX, R_XTX, &got, None, &e, &|| json!({"api": "xtx", "x": jf(x), "rows": k, "cols": c, "observed": jres(&got), "expected": jf(&e.plain)}));
    if ok {
        let v = got.as_ref().unwrap();
        let sym = (0..c).all(|i| (0..c).all(|j| v[i * c + j].to_bits() == v[j * c + i].to_bits()));
        t.check(A_XTX_SYM, R_XTX, sym, &|| json!({"api": "xtx", "x": jf(x), "rows": k, "observed": jf(v)}));
    }
}

// ---------------------------------------------------------------------------------------------
// Dot trait

macro_rules! forms {
    ($S:ty, $T:ty, $O:ty, $f:ident, $form:expr, $a:expr, $b:expr) => {
        match $form {
            0 => <$S as Dot<$T, $O>>::$f($a, $b.clone()),
            1 => <$S as Dot<&$T, $O>>::$f($a, $b),
            2 => <&$S as Dot<$T, $O>>::$f(&$a, $b.clone()),
            _ => <&$S as Dot<&$T, $O>>::$f(&$a, $b),
        }
    };
}
macro_rules! methods {
    ($S:ty, $T:ty, $O:ty, $meth:expr, $form:expr, $a:expr, $b:expr) => {
        match $meth {
            0 => forms!($S, $T, $O, dot, $form, $a, $b),
            1 => forms!($S, $T, $O, t_dot, $form, $a, $b),
            2 => forms!($S, $T, $O, dot_t, $form, $a, $b),
            _ => forms!($S, $T, $O, t_dot_t, $form, $a, $b),
        }
    };
}

const MM: usize = 0;
const MV: usize = 1;
const VM: usize = 2;
const VV: usize = 3;

/// One Dot-trait call. `a` is stored ar×ac (a left Vector is 1×len), `b` is stored br×bc (a right
/// Vector is len×1). `meth` 0..4 = dot, t_dot, dot_t, t_dot_t; `form` 0..4 = (S,T) (S,&T) (&S,T) (&S,&T).
fn dot_case(t: &mut Tally, kind: usize, meth: usize, form: usize, a: &[f64], ar: usize, ac: usize, b: &[f64], br: usize, bc: usize, real: bool) {
    dot_case_at(t, kind, meth, form, a, ar, ac, b, br, bc, real, false, None)
}

/// `scaled`: the operands are a conformable pair at an absolute scale other than O(1); such calls are
/// filed under the `dot-scaled:*` regimes (one per operand kind and method).
///
/// `vclass`: a rejection probe of the value-class family (non-conformable by construction), filed under
/// `dot-nonconf-values:<class>`.
fn dot_case_at(t: &mut Tally, kind: usize, meth: usize, form: usize, a: &[f64], ar: usize, ac: usize, b: &[f64], br: usize, bc: usize, real: bool, scaled: bool, vclass: Option<usize>) {
    let (ta, tb) = FLAGS[meth];
    // a transpose request on a promoted vector does nothing
    let ta_eff = ta && (kind == MM || kind == MV);
    let tb_eff = tb && (kind == MM || kind == VM);
    let e = define(a, ar, ac, ta_eff, b, br, bc, tb_eff, real);
    let r = match &e {
        None if vclass.is_some() => R_DOT_NCV + vclass.unwrap(),
        Some(_) if scaled => R_DOT_SCALED + kind * 4 + meth,
        // Matrix·Matrix t_dot_t is the only Dot method that reaches the both-transposed branch of matmul
        Some(e) if kind == MM && meth == 3 => {
            if e.m == e.l && e.l == e.n {
                if e.m == 1 {
                    R_DOT_TT_SCALAR
                } else {
                    R_DOT_TT_SQUARE
                }
            } else {
                R_DOT + 3
            }
        }
        Some(_) => R_DOT + kind * 4 + meth,
        None => R_DOT_NC + kind * 4 + meth,
    };
    t.case(r);
    t.seen[2 + form] += 1;
    t.distinct(&[4, r as u64, form as u64, ar as u64, ac as u64, br as u64, bc as u64, real as u64], ar * ac > 1 || br * bc > 1);
    if scaled && ar == br && ac == bc && a != b {
        t.seen[S_SC_SAMESHAPE] += 1;
    }
    // result as (shape if a Matrix, flat data)
    let got: Result<(Option<[usize; 2]>, Vec<f64>), String> = match kind {
        MM => {
            let ma = Matrix::new(a.to_vec(), ar as i32, ac as i32);
            let mb = Matrix::new(b.to_vec(), br as i32, bc as i32);
            guard(|| {
                let r: Matrix = methods!(Matrix, Matrix, Matrix, meth, form, &ma, &mb);
                (Some([r.nrows, r.ncols]), r.data.v.clone())
            })
        }
        MV => {
            let ma = Matrix::new(a.to_vec(), ar as i32, ac as i32);
            let vb = Vector::new(b.to_vec());
            guard(|| {
                let r: Vector = methods!(Matrix, Vector, Vector, meth, form, &ma, &vb);
                (None, r.v)
            })
        }
        VM => {
            let va = Vector::new(a.to_vec());
            let mb = Matrix::new(b.to_vec(), br as i32, bc as i32);
            guard(|| {
                let r: Vector = methods!(Vector, Matrix, Vector, meth, form, &va, &mb);
                (None, r.v)
            })
        }
        _ => {
            let va = Vector::new(a.to_vec());
            let vb = Vector::new(b.to_vec());
            guard(|| {
                let r: f64 = methods!(Vector, Vector, f64, meth, form, &va, &vb);
                (None, vec![r])
            })
        }
    };
    let flat: Result<Vec<f64>, String> = got.as_ref().map(|(_, d)| d.clone()).map_err(|m| m.clone());
    let shape = got.as_ref().ok().and_then(|(s, _)| *s);
    let detail = || {
        json!({"api": format!("{}::{}", KINDS[kind], METHODS[meth]), "ownership_form": FORMS[form],
               "data_kind": if real { "real (bound gamma_l*sum|a||b|)" } else { "integer (exact)" },
               "left": jf(a), "left_shape": if kind == VM || kind == VV { json!([ac]) } else { json!([ar, ac]) },
               "right": jf(b), "right_shape": if kind == MV || kind == VV { json!([br]) } else { json!([br, bc]) },
               "observed": {"matrix_shape": shape, "result": jres(&flat)},
               "expected": match &e { Some(e) => json!({"shape": [e.m, e.n], "data": jf(&e.plain)}), None => json!("panic") }})
    };
    match &e {
        None => {
            t.check(A_DOT_REJECTS, r, flat.is_err(), &detail);
        }
        Some(e) => {
            judge(t, A_DOT, r, &flat, shape, e, &detail);
        }
    }
}

/// All Dot-trait calls that belong to the cube point (m, l, n): Matrix·Matrix always, Matrix·Vector
/// when n = 1, Vector·Matrix when m = 1, Vector·Vector when m = n = 1.
fn dot_point(t: &mut Tally, rng: &mut Rng, m: usize, l: usize, n: usize, forms: &[usize], real: bool, nonconf: bool, one_method: bool) {
    let fill = |rng: &mut Rng, k: usize| -> Vec<f64> {
        if real {
            (0..k).map(|_| rng.normal() * 3.0 + 0.25).collect()
        } else {
            rng.ints(k, -50, 50)
        }
    };
    for meth in 0..4 {
        if one_method && meth != (m + l + n) % 4 {
            continue; // Miri smoke: one of the four methods per point, rotating
        }
        let (ta, tb) = FLAGS[meth];
        let (ar, ac) = if ta { (l, m) } else { (m, l) };
        for &form0 in forms {
            // with a single form per point, rotate it over the methods
            let form = if forms.len() == 1 { (form0 + meth) % 4 } else { form0 };
            let (br, bc) = if tb { (n, l) } else { (l, n) };
            let a = fill(rng, ar * ac);
            let b = fill(rng, br * bc);
            dot_case(t, MM, meth, form, &a, ar, ac, &b, br, bc, real);
            if n == 1 {
                let v = fill(rng, l);
                dot_case(t, MV, meth, form, &a, ar, ac, &v, l, 1, real);
            }
            if m == 1 {
                let v = fill(rng, l);
                dot_case(t, VM, meth, form, &v, 1, l, &b, br, bc, real);
            }
            if m == 1 && n == 1 {
                let (x, y) = (fill(rng, l), fill(rng, l));
                dot_case(t, VV, meth, form, &x, 1, l, &y, l, 1, real);
            }
        }
        if nonconf {
            // one ownership form per method and point is enough: the shape assert does not depend on it
            let form = (m + l + n + meth) % 4;
            let l2 = if rng.bool() || l == 1 { l + rng.usize(1, 3) } else { l - 1 };
            let (br, bc) = if tb { (n, l2) } else { (l2, n) };
            let a = fill(rng, ar * ac);
            let b = fill(rng, br * bc);
            dot_case(t, MM, meth, form, &a, ar, ac, &b, br, bc, real);
            if n == 1 {
                let v = fill(rng, l2);
                dot_case(t, MV, meth, form, &a, ar, ac, &v, l2, 1, real);
            }
            if m == 1 {
                let v = fill(rng, l);
                dot_case(t, VM, meth, form, &v, 1, l, &b, br, bc, real);
            }
            if m == 1 && n == 1 {
                let (x, y) = (fill(rng, l), fill(rng, l2));
                dot_case(t, VV, meth, form, &x, 1, l, &y, l2, 1, real);
            }
        }
    }
}

/// The absolute scale of the operands is arbitrary: a pair of binary exponents (ka, kb) for the left and
/// the right operand. A third of the draws puts both operands below 2^-52 (k in -70..=-54), a third pairs a
/// tiny with a huge operand, the rest mixes freely; integers (|a| <= 50) times 2^k keep every product and
/// partial sum exact (|ka + kb| <= 400, far from over-/underflow).
fn scale_pair(t: &mut Tally, rng: &mut Rng) -> (i32, i32) {
    const LADDER: [i32; 11] = [-200, -70, -60, -53, -52, -30, 0, 20, 60, 100, 200];
    match rng.usize(0, 2) {
        0 => {
            t.seen[S_SC_TINY] += 1;
            (rng.int(-70, -54) as i32, rng.int(-70, -54) as i32)
        }
        1 => {
            t.seen[S_SC_TINYHUGE] += 1;
            let k = rng.int(54, 200) as i32;
            let k2 = rng.int(54, 200) as i32;
            if rng.bool() {
                (-k, k2)
            } else {
                (k, -k2)
            }
        }
        _ => {
            t.seen[S_SC_MIXED] += 1;
            (*rng.choose(&LADDER), *rng.choose(&LADDER))
        }
    }
}

/// The Dot-trait calls of the cube point (m, l, n) once more, on two *different* operands that are
/// integers times 2^ka resp. 2^kb (exact oracle), or — `real` — N(0.25, 3²) reals times those powers
/// (the bound γ_l·Σ|a||b| scales along). Whenever the method's two stored shapes coincide (m = n for
/// t_dot and dot_t, m = l = n for dot and t_dot_t; always for two vectors) this is a pair of distinct
/// operands of identical shape.
fn dot_point_scaled(t: &mut Tally, rng: &mut Rng, m: usize, l: usize, n: usize, forms: &[usize], real: bool) {
    for meth in 0..4 {
        let (ta, tb) = FLAGS[meth];
        let (ar, ac) = if ta { (l, m) } else { (m, l) };
        let (br, bc) = if tb { (n, l) } else { (l, n) };
        for &form0 in forms {
            let form = if forms.len() == 1 { (form0 + meth) % 4 } else { form0 };
            let (ka, kb) = scale_pair(t, rng);
            let (fa, fb) = (2f64.powi(ka), 2f64.powi(kb));
            if real {
                t.seen[S_SC_REAL] += 1;
            }
            let fill = |rng: &mut Rng, k: usize, f: f64| -> Vec<f64> {
                if real {
                    (0..k).map(|_| (rng.normal() * 3.0 + 0.25) * f).collect()
                } else {
                    rng.ints(k, -50, 50).iter().map(|v| v * f).collect()
                }
            };
            let a = fill(rng, ar * ac, fa);
            let b = fill(rng, br * bc, fb);
            dot_case_at(t, MM, meth, form, &a, ar, ac, &b, br, bc, real, true, None);
            if n == 1 {
                let v = fill(rng, l, fb);
                dot_case_at(t, MV, meth, form, &a, ar, ac, &v, l, 1, real, true, None);
            }
            if m == 1 {
                let v = fill(rng, l, fa);
                dot_case_at(t, VM, meth, form, &v, 1, l, &b, br, bc, real, true, None);
            }
            if m == 1 && n == 1 {
                let (x, y) = (fill(rng, l, fa), fill(rng, l, fb));
                dot_case_at(t, VV, meth, form, &x, 1, l, &y, l, 1, real, true, None);
            }
        }
    }
}

fn cube_point(cfg: &Cfg, t: &mut Tally, rng: &mut Rng, m: usize, l: usize, n: usize, fills: usize) {
    let maxd = m.max(l).max(n);
    for _ in 0..fills {
        for (fi, &(ta, tb)) in FLAGS.iter().enumerate() {
            let (ar, ac) = if ta { (l, m) } else { (m, l) };
            let (br, bc) = if tb { (n, l) } else { (l, n) };
            let a = rng.ints(ar * ac, -50, 50);
            let b = rng.ints(br * bc, -50, 50);
            let bsizes: Vec<usize> = if cfg.miri() {
                // smoke (a library call costs ~15 ms there): two of the edge-handling classes of the
                // tile loops (1, small non-divisor, = dim, > dim), rotating over the points
                let mut v = vec![1 + (m + l + n + fi) % 3, maxd + (m + l + n + fi) % 2 * maxd];
                v.sort_unstable();
                v.dedup();
                v
            } else {
                (1..=2 * maxd).collect()
            };
            slice_case(t, &a, ar, ac, &b, br, bc, ta, tb, &bsizes, false);
            if !cfg.miri() {
                // the same integers at other absolute scales (powers of two keep every product and
                // partial sum exact): tiny x huge, huge x tiny, both tiny
                let (ka, kb) = *rng.choose(&[(-60, 60), (60, -60), (-200, 200), (-30, -30), (100, 20), (-52, 0), (0, -53)]);
                let sa: Vec<f64> = a.iter().map(|v| v * 2f64.powi(ka)).collect();
                let sb: Vec<f64> = b.iter().map(|v| v * 2f64.powi(kb)).collect();
                let bs = [1usize, 1 + (m + l + n) % (2 * maxd), 2 * maxd];
                slice_case(t, &sa, ar, ac, &sb, br, bc, ta, tb, &bs, false);
                // operands that alias: B is (a prefix of) A's own buffer
                if !ta && tb && n <= m {
                    slice_case(t, &a, ar, ac, &a[..n * l], n, l, ta, tb, &bs, false);
                }
                if ta != tb && n == m {
                    slice_case(t, &a, ar, ac, &a, ar, ac, ta, tb, &bs, false);
                }
            }
        }
        if n == 1 {
            let x = rng.ints(m * l, -50, 50);
            xtx_case(t, &x, m, l, false);
        }
        if cfg.miri() {
            // one ownership form and one method per point (rotating), all four + non-conformable on three points
            let nc = (m, l, n) == (2, 3, 1) || (m, l, n) == (1, 2, 3) || (m, l, n) == (1, 3, 1);
            let all = nc || (m == l && l == n); // all-equal points: the both-transposed branch must be among the methods
            dot_point(t, rng, m, l, n, &[(m + 2 * l + 3 * n) % 4], false, nc, !all);
        } else {
            dot_point(t, rng, m, l, n, &[0, 1, 2, 3], false, true, false);
            dot_point_scaled(t, rng, m, l, n, &[0, 1, 2, 3], false);
        }
    }
}

fn random_nonconf(cfg: &Cfg, t: &mut Tally, rng: &mut Rng, i: usize) {
    if i % 3 == 0 {
        slice_not_matrix(t, rng);
    } else {
        // larger random non-conformable shapes
        let hi = if cfg.miri() { 4 } else { 24 };
        let (m, n, la) = (rng.usize(1, hi), rng.usize(1, hi), rng.usize(1, hi));
        let mut lb = rng.usize(1, hi);
        if lb == la {
            lb += 1;
        }
        let (ta, tb) = FLAGS[rng.usize(0, 3)];
        slice_nonconf(t, rng, m, la, lb, n, ta, tb);
    }
}

/// Larger random rejection probes (dimensions up to 24) from the value classes; every other one with
/// operands of equal length (m = k·lb, n = k·la: both slices hold k·la·lb numbers).
fn random_nonconf_values(t: &mut Tally, rng: &mut Rng, i: usize) {
    let class = i % VCLASSES.len();
    let side = (i / VCLASSES.len()) % 3;
    let (la, mut lb) = (rng.usize(1, 12), rng.usize(1, 12));
    if lb == la {
        lb += 1;
    }
    let (m, n) = if (i / 30) % 2 == 0 {
        let k = rng.usize(1, 2);
        (k * lb, k * la)
    } else {
        (rng.usize(1, 24), rng.usize(1, 24))
    };
    let fi = rng.usize(0, 3);
    let (ta, tb) = FLAGS[fi];
    slice_nonconf_values(t, rng, m, la, lb, n, ta, tb, class, side, true);
    let (kind, form) = (rng.usize(0, 3), rng.usize(0, 3));
    dot_nonconf_values(t, rng, kind, m, la, lb, n, fi, form, class, side);
}

fn random_real(cfg: &Cfg, t: &mut Tally, rng: &mut Rng, i: usize) {
    let hi = if cfg.miri() { 5 } else { 64 };
    let dim = |rng: &mut Rng| -> usize {
        match rng.usize(0, 9) {
            0 => 1,
            1 => *rng.choose(&[7usize, 8, 9, 15, 16, 17, 31, 32, 33, 63, 64]).min(&hi),
            2 | 3 => rng.usize(1, 8.min(hi)),
            _ => rng.usize(1, hi),
        }
    };
    let (mut m, mut l, mut n) = (dim(rng), dim(rng), dim(rng));
    if (i / 4) % 4 == 0 {
        // all-equal dimensions: the only place where the both-transposed branch returns the right shape
        m = m.max(2);
        l = m;
        n = m;
    }
    let (ta, tb) = FLAGS[i % 4];
    let (ar, ac) = if ta { (l, m) } else { (m, l) };
    let (br, bc) = if tb { (n, l) } else { (l, n) };
    let a: Vec<f64> = (0..ar * ac).map(|_| rng.normal() * 3.0 + 0.25).collect();
    let b: Vec<f64> = (0..br * bc).map(|_| rng.normal() * 3.0 + 0.25).collect();
    let maxd = m.max(l).max(n);
    let mut bsizes = vec![rng.usize(1, 2 * maxd), rng.usize(1, maxd), rng.usize(1, 8.min(2 * maxd))];
    if cfg.thorough() && i % 50 == 0 {
        bsizes = (1..=2 * maxd).collect();
    }
    if cfg.miri() {
        bsizes.truncate(1);
    }
    slice_case(t, &a, ar, ac, &b, br, bc, ta, tb, &bsizes, true);
    let (k, c) = (dim(rng), dim(rng));
    let x: Vec<f64> = (0..k * c).map(|_| rng.normal() * 3.0 + 0.25).collect();
    xtx_case(t, &x, k, c, true);
    // Dot trait on large shapes, real and integer data, with a vector on either side now and then
    let (dm, dn2) = match i % 5 {
        0 => (m, 1),
        1 => (1, n),
        2 => (1, 1),
        _ => (m, n),
    };
    let form = rng.usize(0, 3);
    dot_point(t, rng, dm, l, dn2, &[form], true, false, cfg.miri());
    if !cfg.miri() {
        // integer data on the same large shape (exact oracle beyond the cube)
        let ai = rng.ints(ar * ac, -50, 50);
        let bi = rng.ints(br * bc, -50, 50);
        slice_case(t, &ai, ar, ac, &bi, br, bc, ta, tb, &bsizes[..1], false);
        dot_point(t, rng, dm, l, dn2, &[(form + 1) % 4], false, i % 4 == 0, false);
        // the same at other absolute scales; every other case with coinciding outer dimensions, so that
        // t_dot / dot_t meet two different operands of one shape beyond the cube as well
        let sn = if i % 2 == 0 { dm } else { dn2 };
        dot_point_scaled(t, rng, dm, l, sn, &[(form + 2) % 4], false);
        dot_point_scaled(t, rng, dm, l, sn, &[(form + 3) % 4], true);
    }
}

// ---------------------------------------------------------------------------------------------
// Fresh-process family: state that the library initialises lazily, once per process, from its FIRST
// caller (a `OnceLock`, a `static` cache, a thread-local table) is invisible to any sweep inside one
// process: whatever the sweep starts with pins the state for everything that follows. "For all
// conformable shapes" does not depend on what the process multiplied before, so part of the product
// workload runs in fresh processes whose first library call differs: the harness re-executes itself
// (`std::env::current_exe()`) with the environment variable `VHARNESS_C05_FRESH=<r>x<c>:<api>`, which
// only this module reads. Such a child runs nothing but `fresh_child`: first one product whose
// transposed operand is stored r×c, through the named API; then products whose transposed operand has
// the same element count in every other shape (all factorisations, vectors included), through every
// API that transposes an operand; then a handful of random shapes. Integer data, equality oracle. The
// child writes an ordinary result file; the parent files every child violation under
// `fresh-process:first=<r>x<c>` and never turns a child that could not be run into a verdict.

const FRESH_ENV: &str = "VHARNESS_C05_FRESH";
/// the APIs that transpose exactly one operand (the both-transposed products take a branch of their own)
const FRESH_APIS: [&str; 7] = ["matmul:TN", "matmul:NT", "xtx", "MM.t_dot", "MM.dot_t", "MV.t_dot", "VM.dot_t"];
/// first shapes of the quick tier (r, c >= 2); later children draw r in 1..=16, c in 2..=16
const FRESH_FIRST: [(usize, usize); 12] = [(4, 2), (2, 4), (3, 5), (50, 3), (6, 6), (2, 2), (3, 2), (12, 2), (2, 9), (5, 4), (8, 3), (10, 15)];

/// One exact integer product whose transposed operand is stored r×c, through API `api`.
fn transposed_product(t: &mut Tally, rng: &mut Rng, api: usize, r: usize, c: usize) {
    let other = rng.usize(1, 6);
    let form = rng.usize(0, 3);
    let x = rng.ints(r * c, -50, 50);
    match api {
        0 => {
            let b = rng.ints(r * other, -50, 50);
            slice_case(t, &x, r, c, &b, r, other, true, false, &[], false);
        }
        1 => {
            let a = rng.ints(other * c, -50, 50);
            slice_case(t, &a, other, c, &x, r, c, false, true, &[], false);
        }
        2 => xtx_case(t, &x, r, c, false),
        3 => {
            let b = rng.ints(r * other, -50, 50);
            dot_case(t, MM, 1, form, &x, r, c, &b, r, other, false);
        }
        4 => {
            let a = rng.ints(other * c, -50, 50);
            dot_case(t, MM, 2, form, &a, other, c, &x, r, c, false);
        }
        5 => {
            let v = rng.ints(r, -50, 50);
            dot_case(t, MV, 1, form, &x, r, c, &v, r, 1, false);
        }
        _ => {
            let v = rng.ints(c, -50, 50);
            dot_case(t, VM, 2, form, &v, 1, c, &x, r, c, false);
        }
    }
}

fn parse_fresh_spec(spec: &str) -> Option<(usize, usize, usize)> {
    let (shape, api) = spec.split_once(':')?;
    let (r, c) = shape.split_once('x')?;
    let (r, c, api): (usize, usize, usize) = (r.parse().ok()?, c.parse().ok()?, api.parse().ok()?);
    if r >= 1 && c >= 1 && r * c <= 4096 && api < FRESH_APIS.len() {
        Some((r, c, api))
    } else {
        None
    }
}

/// The whole run of a child process (see above). No library call precedes the first product.
fn fresh_child(cfg: &Cfg, rep: &mut Report, spec: &str) {
    let (r, c, api) = match parse_fresh_spec(spec) {
        Some(p) => p,
        None => {
            rep.inconclusive(format!("{} = {:?} is not <rows>x<cols>:<api index>", FRESH_ENV, spec));
            return;
        }
    };
    rep.rule = format!("fresh-process sub-workload: first library call = {} with a transposed operand stored {}x{}; then every factorisation of {} elements (and the first shape again) as the transposed operand of each of {:?}; then 8 random shapes up to 12x12; integer entries in [-50,50], equality oracle", FRESH_APIS[api], r, c, r * c, FRESH_APIS);
    par_cases(cfg, rep, 20, 1, |_i, rng, rep| {
        let mut t = Tally::new(false);
        transposed_product(&mut t, rng, api, r, c);
        let count = r * c;
        for r2 in (1..=count).filter(|d| count % d == 0) {
            for api2 in 0..FRESH_APIS.len() {
                transposed_product(&mut t, rng, api2, r2, count / r2);
            }
        }
        for _ in 0..8 {
            let (r2, c2, api2) = (rng.usize(1, 12), rng.usize(1, 12), rng.usize(0, FRESH_APIS.len() - 1));
            transposed_product(&mut t, rng, api2, r2, c2);
        }
        t.flush(rep);
    });
}

/// Spawn the children, read their result files back and re-report what they found.
fn fresh_parent(cfg: &Cfg, rep: &mut Report) {
    use std::process::{Command, Stdio};
    let nchildren = if cfg.thorough() { 96 } else { FRESH_FIRST.len() };
    rep.assume("fresh-process regimes: products with one transposed operand (matmul TN / NT, xtx, Matrix t_dot / dot_t, Matrix^T·Vector, Vector·Matrix^T) in freshly started processes whose first library call is such a product on an r x c operand (12 fixed shapes with r, c >= 2, then r drawn from 1..=16 and c from 2..=16), followed by every other factorisation of r·c elements and 8 random shapes; integer entries |a| <= 50, inner dimension <= 256 (every partial sum exact); run natively only (not under Miri, not in the lite sanitizer layers); a child that cannot be started or leaves no result file makes the run inconclusive");
    let exe = match std::env::current_exe() {
        Ok(p) => p,
        Err(e) => {
            rep.inconclusive(format!("fresh-process children: current_exe() failed: {}", e));
            return;
        }
    };
    let mut rng = Rng::new(crate::report::case_seed(cfg.seed, 21, 0));
    let specs: Vec<(usize, usize, usize, u64)> = (0..nchildren)
        .map(|idx| {
            let (r, c) = if idx < FRESH_FIRST.len() { FRESH_FIRST[idx] } else { (rng.usize(1, 16), rng.usize(2, 16)) };
            let api = (idx + cfg.seed as usize % FRESH_APIS.len()) % FRESH_APIS.len();
            (r, c, api, rng.u64() >> 16)
        })
        .collect();
    let mut idx0 = 0;
    while idx0 < specs.len() {
        let batch = &specs[idx0..(idx0 + cfg.threads.max(1)).min(specs.len())];
        let mut running = Vec::new();
        for (off, &(r, c, api, cseed)) in batch.iter().enumerate() {
            let idx = idx0 + off;
            let out = std::env::temp_dir().join(format!("vharness_c05_fresh_{}_{}_{}_{}.json", std::process::id(), cfg.seed, if cfg.thorough() { "t" } else { "q" }, idx));
            let _ = std::fs::remove_file(&out);
            let spec = format!("{}x{}:{}", r, c, api);
            let child = Command::new(&exe)
                .args(["C05", "--tier", "quick", "--seed", &cseed.to_string(), "--threads", "1", "--layer", "fresh-child", "--out"])
                .arg(&out)
                .env(FRESH_ENV, &spec)
                .stdin(Stdio::null())
                .stdout(Stdio::null())
                .stderr(Stdio::null())
                .spawn();
            running.push((r, c, api, cseed, spec, out, child));
        }
        for (r, c, api, cseed, spec, out, child) in running {
            let regime = format!("fresh-process:first={}x{}", r, c);
            let status = match child {
                Ok(mut ch) => ch.wait().map_err(|e| format!("wait failed: {}", e)),
                Err(e) => Err(format!("spawn failed: {}", e)),
            };
            let text = std::fs::read_to_string(&out);
            let _ = std::fs::remove_file(&out);
            let js: Value = match (status, text) {
                (Err(e), _) => {
                    rep.inconclusive(format!("fresh-process child {} ({}): {}", spec, FRESH_APIS[api], e));
                    continue;
                }
                (Ok(_), Err(e)) => {
                    rep.inconclusive(format!("fresh-process child {} ({}): no result file: {}", spec, FRESH_APIS[api], e));
                    continue;
                }
                (Ok(_), Ok(t)) => match serde_json::from_str(&t) {
                    Ok(v) => v,
                    Err(e) => {
                        rep.inconclusive(format!("fresh-process child {} ({}): unreadable result file: {}", spec, FRESH_APIS[api], e));
                        continue;
                    }
                },
            };
            let child_inc = js["inconclusive"].as_array().map(|a| a.len()).unwrap_or(1);
            let child_ev = js["evaluations"].as_u64().unwrap_or(0);
            if child_inc > 0 || child_ev == 0 {
                rep.inconclusive(format!("fresh-process child {} ({}): inconclusive: {}", spec, FRESH_APIS[api], js["inconclusive"]));
                continue;
            }
            rep.case(&regime);
            rep.seen("fresh-process:children-judged", 1);
            rep.seen(match api {
                0 | 1 => "fresh-process:first-api=matmul",
                2 => "fresh-process:first-api=xtx",
                _ => "fresh-process:first-api=Dot",
            }, 1);
            rep.evaluations += child_ev;
            rep.note_add("fresh_process.child_evaluations", child_ev as f64);
            rep.distinct(Hasher::new().s("fresh").u(r as u64).u(c as u64).u(api as u64).finish(), true);
            // assertions the child evaluated without a failure
            if let Some(m) = js["assertions"].as_object() {
                for (name, st) in m {
                    if st["failed"].as_u64() == Some(0) && st["checked"].as_u64().unwrap_or(0) > 0 {
                        rep.check(name, &regime, true, || json!(null));
                    }
                }
            }
            for v in js["violations"].as_array().cloned().unwrap_or_default() {
                let assertion = v["assertion"].as_str().unwrap_or("C05.matmul.entries").to_string();
                let count = v["count"].as_u64().unwrap_or(1).max(1);
                rep.check(&assertion, &regime, false, || {
                    json!({"fresh_process": {"first_library_call": FRESH_APIS[api], "first_transposed_operand_shape": [r, c], "env": format!("{}={}", FRESH_ENV, spec), "child_seed": cseed,
                           "replay": format!("{}={} vharness C05 --tier quick --seed {} --threads 1 --out FILE", FRESH_ENV, spec, cseed)},
                           "child_regime": v["regime"], "child_count": count, "first": v["first"]})
                });
                if count > 1 {
                    if let Some(e) = rep.violations.get_mut(&format!("{}|{}", assertion, regime)) {
                        e.count += count - 1;
                    }
                    let st = rep.assert_stat(&assertion);
                    st.checked += count - 1;
                    st.failed += count - 1;
                }
            }
        }
        idx0 += batch.len();
    }
    rep.require("fresh-process:children-judged", nchildren as u64);
    for r in ["fresh-process:first-api=matmul", "fresh-process:first-api=xtx", "fresh-process:first-api=Dot"] {
        rep.require(r, 1);
    }
}

// ---------------------------------------------------------------------------------------------
// Products inside thread pools of other sizes (stream 7)
//
// "For all conformable shapes" quantifies over the operands, not over the machine: the same product
// must come out on a laptop and on a 128-thread node. The size of rayon's current pool is the one piece
// of "machine" a library call can see, and `ThreadPool::install` lets a caller choose it. Part of the
// product workload (matmul with all four flag pairs, matmul_blocked, xtx, the Dot methods) therefore runs
// inside pools of 1, 2, 3, 17, 33, 48, 64 and 128 threads, on shapes up to 64 that put few rows against
// many columns (fewer rows than the pool has workers, and the transposed / short-inner counterparts),
// vector operands and ordinary shapes. Integer entries: the equality oracle applies, and every result is
// also compared bit for bit with the same call outside any pool.

const POOL_SIZES: [usize; 8] = [1, 2, 3, 17, 33, 48, 64, 128];
const POOL_SHAPES: [&str; 5] = ["pool:shape=few-rows", "pool:shape=few-cols", "pool:shape=short-inner", "pool:shape=ordinary", "pool:shape=vector-operand"];

type DotOut = (Option<[usize; 2]>, Vec<f64>);

/// One unguarded Dot-trait call (see `dot_case_at` for the conventions).
fn dot_call(kind: usize, meth: usize, form: usize, a: &[f64], ar: usize, ac: usize, b: &[f64], br: usize, bc: usize) -> DotOut {
    match kind {
        MM => {
            let ma = Matrix::new(a.to_vec(), ar as i32, ac as i32);
            let mb = Matrix::new(b.to_vec(), br as i32, bc as i32);
            let r: Matrix = methods!(Matrix, Matrix, Matrix, meth, form, &ma, &mb);
            (Some([r.nrows, r.ncols]), r.data.v.clone())
        }
        MV => {
            let ma = Matrix::new(a.to_vec(), ar as i32, ac as i32);
            let vb = Vector::new(b.to_vec());
            let r: Vector = methods!(Matrix, Vector, Vector, meth, form, &ma, &vb);
            (None, r.v)
        }
        VM => {
            let va = Vector::new(a.to_vec());
            let mb = Matrix::new(b.to_vec(), br as i32, bc as i32);
            let r: Vector = methods!(Vector, Matrix, Vector, meth, form, &va, &mb);
            (None, r.v)
        }
        _ => {
            let va = Vector::new(a.to_vec());
            let vb = Vector::new(b.to_vec());
            let r: f64 = methods!(Vector, Vector, f64, meth, form, &va, &vb);
            (None, vec![r])
        }
    }
}

/// Judge one in-pool result: no panic, shape, entries (equality with the definition on integer data),
/// and bitwise agreement with the same call outside any pool. `api` = "matmul" / "blocked" / "xtx" / "dot".
fn pool_judge(rep: &mut Report, api: &str, regime: &str, got: &Result<DotOut, String>, outside: &Result<DotOut, String>, e: &Expect, detail: &dyn Fn(Value) -> Value) {
    rep.case(regime);
    let show = |r: &Result<DotOut, String>| match r {
        Ok((s, d)) => json!({"matrix_shape": s, "len": d.len(), "data": jf(d)}),
        Err(m) => json!({"panic": m}),
    };
    let full = || detail(json!({"observed_inside_pool": show(got), "observed_outside_any_pool": show(outside), "expected": {"shape": [e.m, e.n], "data": jf(&e.plain)}}));
    match got {
        Err(_) => {
            rep.check(&format!("C05.{}.no_panic", api), regime, false, full);
        }
        Ok((shape, v)) => {
            rep.check(&format!("C05.{}.no_panic", api), regime, true, || json!(null));
            let shape_ok = v.len() == e.m * e.n && shape.map_or(true, |s| s == [e.m, e.n]);
            if rep.check(&format!("C05.{}.shape", api), regime, shape_ok, full) {
                rep.check(&format!("C05.{}.entries", api), regime, v.iter().zip(&e.plain).all(|(p, q)| p == q), full);
            }
            if let Ok((oshape, ov)) = outside {
                let same = oshape == shape && ov.len() == v.len() && ov.iter().zip(v).all(|(p, q)| p.to_bits() == q.to_bits());
                rep.check("C05.pool.same_as_outside", regime, same, full);
            }
        }
    }
}

fn pool_case(i: usize, pools: &[(usize, rayon::ThreadPool)], rng: &mut Rng, rep: &mut Report) {
    let class = i % POOL_SHAPES.len();
    // a "large" dimension: 64 half of the time, else 40..=64; a "small" one: 1..=40 (8 or fewer a third of the time)
    let big = |rng: &mut Rng| if rng.bool() { 64 } else { rng.usize(40, 64) };
    let small = |rng: &mut Rng| if rng.chance(0.33) { rng.usize(1, 8) } else { rng.usize(1, 40) };
    let (m, l, n) = match class {
        0 => (small(rng), big(rng), big(rng)),
        1 => (big(rng), big(rng), small(rng)),
        2 => (big(rng), small(rng), big(rng)),
        3 => (rng.usize(1, 64), rng.usize(1, 64), rng.usize(1, 64)),
        _ => match rng.usize(0, 2) {
            0 => (1, big(rng), rng.usize(1, 64)),
            1 => (rng.usize(1, 64), big(rng), 1),
            _ => (1, rng.usize(1, 64), 1),
        },
    };
    rep.seen(POOL_SHAPES[class], 1);
    if m * l * n >= 1 << 16 {
        rep.seen("pool:multiply-adds>=2^16", 1);
    }
    if m <= 8 {
        rep.seen("pool:rows<=8", 1);
    }
    let maxd = m.max(l).max(n);
    let note_rows = |rep: &mut Report, rows: usize, t: usize| {
        rep.seen(if rows < t { "pool:result-rows<threads" } else { "pool:result-rows>=threads" }, 1);
    };
    for (fi, &(ta, tb)) in FLAGS.iter().enumerate() {
        let (ar, ac) = if ta { (l, m) } else { (m, l) };
        let (br, bc) = if tb { (n, l) } else { (l, n) };
        let a = rng.ints(ar * ac, -50, 50);
        let b = rng.ints(br * bc, -50, 50);
        let e = define(&a, ar, ac, ta, &b, br, bc, tb, false).expect("conformable by construction");
        let bs = rng.usize(1, 2 * maxd);
        let form = rng.usize(0, 3);
        rep.distinct(Hasher::new().s("pool").u(m as u64).u(l as u64).u(n as u64).u(fi as u64).finish(), m * l * n > 1);
        let mm = || -> DotOut { (None, matmul(&a, &b, ar, br, ta, tb)) };
        let bl = || -> DotOut { (None, matmul_blocked(&a, &b, ar, br, ta, tb, bs)) };
        let dt = || dot_call(MM, fi, form, &a, ar, ac, &b, br, bc);
        let (out_mm, out_bl, out_dt) = (guard(mm), guard(bl), guard(dt));
        for (t, pool) in pools {
            let regime = format!("pool:threads={}", t);
            note_rows(rep, m, *t);
            let det = |api: String, extra: Value| {
                json!({"api": api, "called_inside": format!("rayon::ThreadPoolBuilder::new().num_threads({}).build().unwrap().install(..)", t), "data_kind": "integer (exact)",
                       "a": jf(&a), "a_stored_shape": [ar, ac], "b": jf(&b), "b_stored_shape": [br, bc], "transpose_a": ta, "transpose_b": tb, "op_shapes": {"m": m, "l": l, "n": n}, "result": extra})
            };
            let g = guard(|| pool.install(mm));
            pool_judge(rep, "matmul", &regime, &g, &out_mm, &e, &|x| det("matmul".into(), x));
            let g = guard(|| pool.install(bl));
            pool_judge(rep, "blocked", &regime, &g, &out_bl, &e, &|x| det(format!("matmul_blocked bsize={}", bs), x));
            let g = guard(|| pool.install(dt));
            pool_judge(rep, "dot", &regime, &g, &out_dt, &e, &|x| det(format!("Matrix.{}(Matrix) form {}", METHODS[fi], FORMS[form]), x));
        }
        // a vector on either side (a transpose request on a promoted vector does nothing)
        if n == 1 || m == 1 {
            let kind = if m == 1 && n == 1 { VV } else if n == 1 { MV } else { VM };
            let (va, var, vac) = if kind == MV { (a.clone(), ar, ac) } else { (rng.ints(l, -50, 50), 1, l) };
            let (vb, vbr, vbc) = if kind == VM { (b.clone(), br, bc) } else { (rng.ints(l, -50, 50), l, 1) };
            let (tae, tbe) = (ta && kind == MV, tb && kind == VM);
            let ev = define(&va, var, vac, tae, &vb, vbr, vbc, tbe, false).expect("conformable by construction");
            let dv = || dot_call(kind, fi, form, &va, var, vac, &vb, vbr, vbc);
            let out_dv = guard(dv);
            for (t, pool) in pools {
                let regime = format!("pool:threads={}", t);
                let g = guard(|| pool.install(dv));
                pool_judge(rep, "dot", &regime, &g, &out_dv, &ev, &|x| {
                    json!({"api": format!("{}::{} form {}", KINDS[kind], METHODS[fi], FORMS[form]), "called_inside": format!("a rayon pool of {} threads", t), "left": jf(&va), "right": jf(&vb), "op_shapes": {"m": ev.m, "l": ev.l, "n": ev.n}, "result": x})
                });
            }
        }
    }
    // xtx: x stored l x n, result n x n
    let x = rng.ints(l * n, -50, 50);
    let e = define(&x, l, n, true, &x, l, n, false, false).unwrap();
    let xx = || -> DotOut { (None, xtx(&x, l)) };
    let out_xx = guard(xx);
    for (t, pool) in pools {
        let regime = format!("pool:threads={}", t);
        note_rows(rep, n, *t);
        let g = guard(|| pool.install(xx));
        pool_judge(rep, "xtx", &regime, &g, &out_xx, &e, &|r| json!({"api": "xtx", "called_inside": format!("a rayon pool of {} threads", t), "x": jf(&x), "rows": l, "cols": n, "result": r}));
    }
}

pub fn run(cfg: &Cfg, rep: &mut Report) {
    if !cfg.miri() {
        if let Ok(spec) = std::env::var(FRESH_ENV) {
            fresh_child(cfg, rep, &spec);
            return;
        }
    }
    let d = if cfg.miri() { 4 } else { 9 };
    let lean = cfg.miri();
    rep.rule = format!(
        "exhaustive cube: every (m,l,n) in 1..={d}^3 x 4 transpose-flag combinations, integer entries in [-50,50], stored shapes passed to the slice API; \
         per point: matmul, matmul_blocked at every block size 1..=2*max(m,l,n), xtx (n=1), all 4 Dot methods x 4 ownership forms for Matrix.Matrix \
         (+ Matrix.Vector when n=1, Vector.Matrix when m=1, Vector.Vector when m=n=1) and one non-conformable variant per method; \
         then non-conformable slice products (inner dimensions 1..=5, la != lb) and random real-valued shapes up to 64 \
         (Miri smoke: 2 block sizes, 1 Dot method and 1 ownership form per point, rotating). \
         value-class rejection probes: the grid m,n in 1..=3, la != lb in 1..=5 x 4 flag combinations x 10 operand value classes (class in both / left / right operand) through matmul, matmul_blocked and one Dot method (operand kinds and ownership forms rotating), plus random shapes up to 24 (half of them with operands of equal length). \
         fresh-process children (native full runs): 12 (quick) / 96 (thorough) re-executions of the harness whose first library call is a product with a transposed r x c operand (r, c >= 2), followed by every other factorisation of r*c elements through matmul TN / NT, xtx and the transposing Dot methods. \
         pool family (native): 300 (quick) / 2000 (thorough) integer shapes up to 64 (few rows, few columns, short inner dimension, ordinary, vector operand) x 4 flag pairs through matmul, matmul_blocked, one Dot method and xtx inside rayon pools of 1, 2, 3, 17, 33, 48, 64, 128 threads, against the definition and the same call outside any pool. \
         non-trivial = m*l*n > 1; distinct by (api, regime, shapes, flags, block size / ownership form, data kind)"
    );
    rep.assume("entries are finite; integer entries |a| <= 50 with inner dimension <= 64 so every partial sum is exact; real entries are N(0.25, 3^2) (no overflow/underflow in products)");
    rep.assume("dot-scaled regimes: Dot-trait products of two different operands that are integers (|a| <= 50) times 2^ka and 2^kb (exact: equality oracle) or N(0.25, 3^2) reals times those powers (bound gamma_l*sum|a||b|), ka, kb in -200..=200, a third of the pairs with both operands below 2^-52; not run under Miri");
    rep.assume("nonconf-values regimes: 'non-conformable shapes are rejected by a panic' is a statement about shapes, so it is probed with operands of every value class for which a product could take a shortcut or a comparison behaves specially (all +0, all -0, mixed signed zeros, all ones, identity-like, all NaN, +-inf, a single non-zero entry, a constant, subnormal/huge magnitudes), in both operands or in one of them only; the finiteness assumption applies to the values of conformable products, not to rejection");
    rep.assume("block size 0 is outside the property ('every block size >= 1')");
    rep.assume("zero-sized dimensions are outside the quantifier (1..=9, 1..=64)");
    rep.exhaustive = Some(!cfg.lite);

    let points: Vec<(usize, usize, usize)> = (1..=d).flat_map(|m| (1..=d).flat_map(move |l| (1..=d).map(move |n| (m, l, n)))).collect();
    let fills = if cfg.lite { 1 } else { cfg.pick(2, 10, 1) };
    let mut nc: Vec<(usize, usize, usize, usize, bool, bool)> = Vec::new();
    let (dn, dl) = if cfg.miri() { (1, 2) } else { (3, 5) };
    for m in 1..=dn {
        for n in 1..=dn {
            for la in 1..=dl {
                for lb in 1..=dl {
                    if la != lb {
                        for &(ta, tb) in &FLAGS {
                            nc.push((m, la, lb, n, ta, tb));
                        }
                    }
                }
            }
        }
    }
    let n_rand_nc = cfg.pick(40, 400, 2);
    let n_real = cfg.pick(200, 5000, 1);

    if cfg.miri() {
        // one case, one tally, one flush: every `Report` map operation costs ~10 ms under Miri
        par_cases(cfg, rep, 1, 1, |_i, rng, rep| {
            let mut t = Tally::new(lean);
            for &(m, l, n) in &points {
                cube_point(cfg, &mut t, rng, m, l, n, fills);
            }
            for &(m, la, lb, n, ta, tb) in &nc {
                slice_nonconf(&mut t, rng, m, la, lb, n, ta, tb);
            }
            for i in 0..n_rand_nc {
                random_nonconf(cfg, &mut t, rng, i);
            }
            for i in 0..n_real {
                random_real(cfg, &mut t, rng, 3 + 13 * i); // flags TT (square), then NN
            }
            // value-class rejection probes, smoke (a panic costs ~0.1 s here): four classes, one flag pair each
            for (k, &(class, side)) in [(0usize, 0usize), (2, 1), (4, 2), (5, 0)].iter().enumerate() {
                let (ta, tb) = FLAGS[k];
                slice_nonconf_values(&mut t, rng, 2, 1 + k % 2, 2 - k % 2, 2, ta, tb, class, side, false);
            }
            dot_nonconf_values(&mut t, rng, MM, 2, 1, 2, 2, 0, 3, 1, 0);
            dot_nonconf_values(&mut t, rng, MV, 2, 2, 1, 1, 1, 1, 3, 1);
            t.flush(rep);
        });
    } else {
        // ---- exhaustive cube ---------------------------------------------------------------
        par_cases(cfg, rep, 1, points.len(), |i, rng, rep| {
            let mut t = Tally::new(lean);
            let (m, l, n) = points[i];
            cube_point(cfg, &mut t, rng, m, l, n, fills);
            t.flush(rep);
        });
        // ---- non-conformable slice products ------------------------------------------------
        par_cases(cfg, rep, 2, nc.len(), |i, rng, rep| {
            let mut t = Tally::new(lean);
            let (m, la, lb, n, ta, tb) = nc[i];
            slice_nonconf(&mut t, rng, m, la, lb, n, ta, tb);
            t.flush(rep);
        });
        par_cases(cfg, rep, 3, n_rand_nc, |i, rng, rep| {
            let mut t = Tally::new(lean);
            random_nonconf(cfg, &mut t, rng, i);
            t.flush(rep);
        });
        // ---- rejection does not depend on the operand values ------------------------------------
        let vpoints: Vec<(usize, usize, usize, usize, usize)> = nc
            .iter()
            .filter(|p| !p.4 && !p.5)
            .flat_map(|&(m, la, lb, n, _, _)| (0..VCLASSES.len()).map(move |c| (m, la, lb, n, c)))
            .enumerate()
            .filter(|(i, _)| !cfg.lite || i % 8 == 0)
            .map(|(_, p)| p)
            .collect();
        let all_sides = cfg.thorough();
        par_cases(cfg, rep, 5, vpoints.len(), |i, rng, rep| {
            let mut t = Tally::new(lean);
            let (m, la, lb, n, class) = vpoints[i];
            nonconf_values_point(&mut t, rng, i, m, la, lb, n, class, all_sides);
            t.flush(rep);
        });
        par_cases(cfg, rep, 6, cfg.pick(600, 6000, 60), |i, rng, rep| {
            let mut t = Tally::new(lean);
            random_nonconf_values(&mut t, rng, i);
            t.flush(rep);
        });
        // ---- random real-valued shapes up to 64 --------------------------------------------
        par_cases(cfg, rep, 4, n_real, |i, rng, rep| {
            let mut t = Tally::new(lean);
            random_real(cfg, &mut t, rng, i);
            t.flush(rep);
        });
        // ---- products inside thread pools of other sizes (stream 7) ---------------------------------
        rep.assume("the size of the ambient rayon pool is not part of the quantifier: integer products (|a| <= 50, shapes up to 64: few rows / few columns / short inner dimension against dimensions of 40..=64, ordinary shapes, vector operands) through matmul (4 flag pairs), matmul_blocked, xtx and the Dot methods inside ThreadPool::install of 1, 2, 3, 17, 33, 48, 64 and 128 threads (lite layers: 2 and 48) must equal the definition and, bit for bit, the same call outside any pool; not run under Miri");
        let sizes: &[usize] = if cfg.lite { &[2, 48] } else { &POOL_SIZES };
        let mut pools: Vec<(usize, rayon::ThreadPool)> = Vec::new();
        for &t in sizes {
            match rayon::ThreadPoolBuilder::new().num_threads(t).build() {
                Ok(p) => pools.push((t, p)),
                Err(e) => rep.inconclusive(format!("C05: could not build a rayon pool of {} threads: {}", t, e)),
            }
        }
        par_cases(cfg, rep, 7, cfg.pick(300, 2000, 10), |i, rng, rep| pool_case(i, &pools, rng, rep));
        drop(pools);
        for &t in sizes {
            rep.require(&format!("pool:threads={}", t), 1);
        }
        for s in POOL_SHAPES {
            rep.require(s, 1);
        }
        for s in ["pool:result-rows<threads", "pool:result-rows>=threads"] {
            rep.require(s, 1);
        }
        if !cfg.lite {
            rep.require("pool:multiply-adds>=2^16", 1);
            rep.require("pool:rows<=8", 1);
        }
        // ---- products in fresh processes (state keyed by the first caller of a process) ----------
        if !cfg.lite && cfg.shard.1 <= 1 {
            fresh_parent(cfg, rep);
        }
    }

    // ---- coverage that the quantifier names -------------------------------------------------
    for r in 0..R_DOT_NC + 16 {
        if r == R_DOT_TT_SCALAR {
            continue; // a single point of the cube, nothing the quantifier names separately
        }
        rep.require(&regime_name(r), 1);
    }
    for (i, s) in SEEN.iter().enumerate() {
        if i < S_SC_TINY || !cfg.miri() {
            rep.require(s, 1);
        }
    }
    if !cfg.miri() {
        for r in R_DOT_SCALED..R_DOT_SCALED + 16 {
            rep.require(&regime_name(r), 1);
        }
        for r in R_NCV..R_NCV + 2 * VCLASSES.len() {
            rep.require(&regime_name(r), 1);
        }
    }
}
