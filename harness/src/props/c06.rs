//! C06 — GLM fitting returns the (penalised) MLE with correct inference (DESIGN §3 C06).
//!
//! Events: every `GLM::fit` (Ok / Err / panic, Fisher iterations seen through the `glm.iter` hook)
//! and, after a successful fit, `coef()`, `deviance()`, `dispersion()`, `coef_covariance_matrix()`,
//! `coef_standard_error()`, `aic()`, `bic()`, `predict()`.
//!
//! Oracle: from `coef()` alone the harness recomputes (η in double-double, sums in double-double)
//!   U_j = Σ_i w_i x_ij (y_i − μ_i) μ'_i / V(μ_i) − α β_j [j ≥ 1],   I = XᵀWX + α·diag(0,1,…,1)
//! and requires the Newton decrement UᵀI⁻¹U ≤ K·tol·max(D,1), K = 100 (D = weighted deviance at
//! the returned coefficients). Derivation of K: the stop rule bounds the last relative change of the
//! (penalised) deviance by tol; the decrement is, to second order, the deviance still to be gained;
//! for a linearly convergent scoring iteration with rate r the remaining gain is ≤ r⁴/(1−r²) of the
//! last change because the returned β is one update past the last evaluated deviance; K = 100
//! covers r ≤ 0.995 and the factor ≤ 3 between weighted and unweighted deviance. Loose tolerances
//! therefore decide little; the power is in tol = 1e-10 / 1e-14 where the threshold is ≤ 1e-8·D.
//!
//!
//! The library caches deviance and information at the μ of the last-but-one coefficient vector.
//! That lag is second order in the last step for the deviance of an unpenalised fit (DESIGN's
//! `K·tol + 1e-10`), but FIRST order (∝ sqrt(tol)) for the information of Bernoulli/(quasi-)Poisson
//! fits and for the deviance at a penalised fixed point (∇D = 2αβ ≠ 0). DESIGN's `1e-6 + K·tol` for
//! standard errors alarmed on correct code (tol = 1e-5, Bernoulli, α = 1: 1.8e-3), so `limits()`
//! derives the first-order terms from the same decrement threshold (see there).
//!
//! Signatures are built so that each mechanism found on the unchanged tree has its own one:
//!   C06.score.zero|alpha!=0,1                 gradient penalty omits α (fixed point of strength 1)
//!   C06.gaussian.ridge_ls|alpha!=0,1          same mechanism seen through the closed form
//!   C06.deviance|gaussian:w=none              Gaussian deviance is sqrt(RSS)
//!   C06.deviance|nongaussian:w=integer        deviance ignores the weights (while n is the weight sum)
//!   C06.deviance|gaussian:w=integer           both of the above
//!   C06.stderr|gaussian:w=none, |gaussian:w=integer, |dispersion-family:w=integer
//!                                             the same three through dispersion → standard errors
//!   C06.replication.deviance|integer-weights, C06.replication.stderr|dispersion-family
//!                                             integer weights ≢ replicated rows (same weights defect, no
//!                                             definition of "weighted deviance" needed)
//! while alpha ∈ {0,1} (score per family), unweighted non-Gaussian deviance per family, covariance
//! against the library's own dispersion, unit-dispersion standard errors, predictions, permutation
//! and the Err clause are monitored under their own (silent) regimes. α added to the intercept's
//! information entry only changes the path (notes `iterations_max.*`: Gaussian α=0 needs 3
//! iterations, α=1 up to 20), which the property does not constrain.
//!
//! Structured weight vectors (stream 6, see the section before `run`): constant c·1 (c in 1e-6..1e6), two-valued, with
//! exact zeros, integer frequencies; each fitted together with its rescaled twin (c·w, c·α) ≡ (w, α), integer-valued
//! weights also against replicated rows, zero weights against the data set without those rows; signed `|weights:*`.
//!
//! Object-reuse histories (stream 3, see the section before `run`): one model object is fitted more than
//! once — Err from a budget of 1..3 iterations then retried with 300 (as is / after set_tolerance); Ok then
//! refitted on new data (same n keeping weights and offsets; another n and p), after set_weights, after
//! set_offset, after set_penalty / set_tolerance; set_coef before the first fit. The last fit gets the whole single-fit oracle against the
//! final configuration and is compared with a fresh twin (`C06.reuse.{coef,deviance,dispersion,aic_bic,
//! stderr,predict}`) within the convergence-scaled limits. Reused object and twin are judged into scratch
//! reports: what only the reused object fails is signed `assertion|refit:after-err` / `|refit:after-ok` / `|refit:after-set-coef`,
//! what the twin fails as well keeps the single-fit signature above.
use crate::gen::Rng;
use crate::oracle::dd::Dd;
use crate::oracle::linref;
use crate::report::{guard, jf, jnum, par_cases, Cfg, Hasher, Report, Violation};
use compute::predict::{ExponentialFamily, GLM};
use compute::verif_hooks::{count, Site};
use serde_json::{json, Value};

const K: f64 = 100.0;
const EPS: f64 = f64::EPSILON;
const ALPHAS: [f64; 4] = [0.0, 0.1, 1.0, 10.0];
const TOLS: [f64; 4] = [1e-5, 1e-8, 1e-10, 1e-14];
const MAX_ITER: usize = 300;

#[derive(Clone, Copy, PartialEq, Eq, Debug)]
enum Fam {
    Gaussian,
    Bernoulli,
    QuasiPoisson,
    Poisson,
    Gamma,
    Exponential,
}
const FAMS: [Fam; 6] = [Fam::Gaussian, Fam::Bernoulli, Fam::QuasiPoisson, Fam::Poisson, Fam::Gamma, Fam::Exponential];

impl Fam {
    fn name(self) -> &'static str {
        match self {
            Fam::Gaussian => "gaussian",
            Fam::Bernoulli => "bernoulli",
            Fam::QuasiPoisson => "quasipoisson",
            Fam::Poisson => "poisson",
            Fam::Gamma => "gamma",
            Fam::Exponential => "exponential",
        }
    }
    fn lib(self) -> ExponentialFamily {
        match self {
            Fam::Gaussian => ExponentialFamily::Gaussian,
            Fam::Bernoulli => ExponentialFamily::Bernoulli,
            Fam::QuasiPoisson => ExponentialFamily::QuasiPoisson,
            Fam::Poisson => ExponentialFamily::Poisson,
            Fam::Gamma => ExponentialFamily::Gamma,
            Fam::Exponential => ExponentialFamily::Exponential,
        }
    }
    /// families whose dispersion is estimated as deviance / (n − p)
    fn has_dispersion(self) -> bool {
        matches!(self, Fam::Gaussian | Fam::QuasiPoisson | Fam::Gamma)
    }
    /// textbook pieces at linear predictor η: (μ, (y−μ)·μ'/V, μ'²/V, |dμ/dη|)
    fn obs(self, y: f64, eta: f64) -> (f64, f64, f64, f64) {
        match self {
            Fam::Gaussian => (eta, y - eta, 1.0, 1.0),
            Fam::Bernoulli => {
                let mu = 1.0 / (1.0 + (-eta).exp());
                let one_minus = 1.0 / (1.0 + eta.exp());
                // y − μ without cancellation for y ∈ {0,1}
                let s = if y == 1.0 {
                    one_minus
                } else if y == 0.0 {
                    -mu
                } else {
                    y - mu
                };
                (mu, s, mu * one_minus, mu * one_minus)
            }
            Fam::QuasiPoisson | Fam::Poisson => {
                let mu = eta.exp();
                (mu, y - mu, mu, mu)
            }
            Fam::Gamma | Fam::Exponential => {
                let mu = eta.exp();
                (mu, (y - mu) / mu, 1.0, mu)
            }
        }
    }
    /// textbook unit deviance d(y, μ)
    fn unit_deviance(self, y: f64, mu: f64) -> f64 {
        match self {
            Fam::Gaussian => (y - mu) * (y - mu),
            Fam::Bernoulli => {
                let a = if y > 0.0 { y * mu.ln() } else { 0.0 };
                let b = if y < 1.0 { (1.0 - y) * (-mu).ln_1p() } else { 0.0 };
                -2.0 * (a + b)
            }
            Fam::QuasiPoisson | Fam::Poisson => {
                let a = if y > 0.0 { y * (y / mu).ln() } else { 0.0 };
                2.0 * (a - (y - mu))
            }
            Fam::Gamma | Fam::Exponential => 2.0 * ((y - mu) / mu - (y / mu).ln()),
        }
    }
}

#[derive(Clone)]
struct Prob {
    fam: Fam,
    n: usize,
    p: usize,
    x: Vec<f64>,
    y: Vec<f64>,
    w: Option<Vec<f64>>,
    off: Option<Vec<f64>>,
    alpha: f64,
    tol: f64,
    design: &'static str,
    wkind: &'static str,
}

impl Prob {
    fn wi(&self, i: usize) -> f64 {
        self.w.as_ref().map(|w| w[i]).unwrap_or(1.0)
    }
    fn oi(&self, i: usize) -> f64 {
        self.off.as_ref().map(|o| o[i]).unwrap_or(0.0)
    }
    fn alpha_class(&self) -> &'static str {
        if self.alpha == 0.0 {
            "alpha=0"
        } else if self.alpha == 1.0 {
            "alpha=1"
        } else {
            "alpha!=0,1"
        }
    }
    fn json(&self) -> Value {
        json!({"family": self.fam.name(), "n": self.n, "p": self.p, "alpha": self.alpha, "tolerance": self.tol, "design": self.design,
               "weights_kind": self.wkind, "x_row_major": jf(&self.x), "y": jf(&self.y),
               "weights": self.w.as_ref().map(|w| jf(w)), "offsets": self.off.as_ref().map(|o| jf(o))})
    }
    /// rows permuted by `perm`
    fn permuted(&self, perm: &[usize]) -> Prob {
        let mut q = self.clone();
        for (k, &i) in perm.iter().enumerate() {
            q.x[k * self.p..(k + 1) * self.p].copy_from_slice(&self.x[i * self.p..(i + 1) * self.p]);
            q.y[k] = self.y[i];
            if let (Some(qw), Some(w)) = (q.w.as_mut(), self.w.as_ref()) {
                qw[k] = w[i];
            }
            if let (Some(qo), Some(o)) = (q.off.as_mut(), self.off.as_ref()) {
                qo[k] = o[i];
            }
        }
        q
    }
    /// integer weights turned into replicated rows (no weights)
    fn replicated(&self) -> Prob {
        let w = self.w.as_ref().unwrap();
        let mut q = self.clone();
        q.x.clear();
        q.y.clear();
        q.w = None;
        q.wkind = "none";
        let mut off = Vec::new();
        for i in 0..self.n {
            for _ in 0..(w[i] as usize) {
                q.x.extend_from_slice(&self.x[i * self.p..(i + 1) * self.p]);
                q.y.push(self.y[i]);
                if let Some(o) = &self.off {
                    off.push(o[i]);
                }
            }
        }
        q.n = q.y.len();
        q.off = self.off.as_ref().map(|_| off);
        q
    }
}

/// What the oracle derives from a coefficient vector.
struct Eval {
    /// Newton decrement UᵀI⁻¹U for the given penalty strength
    dec: f64,
    /// weighted deviance Σ w_i d(y_i, μ_i)
    dev: f64,
    /// unpenalised information XᵀWX (f64 copy)
    info: Vec<f64>,
    mu: Vec<f64>,
    /// a-priori bound on |fl(μ_i) − μ_i| for a correctly rounded evaluation of g⁻¹(x_iᵀβ + o_i)
    mu_bound: Vec<f64>,
    score_inf: f64,
}

fn evaluate(pr: &Prob, beta: &[f64], strength: f64) -> Option<Eval> {
    let (n, p) = (pr.n, pr.p);
    let mut u = vec![Dd::ZERO; p];
    let mut info = vec![Dd::ZERO; p * p];
    let mut dev = Dd::ZERO;
    let mut mu = Vec::with_capacity(n);
    let mut mu_bound = Vec::with_capacity(n);
    for i in 0..n {
        let row = &pr.x[i * p..(i + 1) * p];
        let mut eta = Dd::new(pr.oi(i));
        let mut mag = pr.oi(i).abs();
        for j in 0..p {
            eta = eta + Dd::prod(row[j], beta[j]);
            mag += (row[j] * beta[j]).abs();
        }
        let (m, s, ww, dmu) = pr.fam.obs(pr.y[i], eta.f());
        if !m.is_finite() {
            return None;
        }
        let w = pr.wi(i);
        dev = dev + Dd::prod(w, pr.fam.unit_deviance(pr.y[i], m));
        for j in 0..p {
            let xs = Dd::prod(row[j], w);
            u[j] = u[j] + xs * s;
            let xw = xs * ww;
            for k in j..p {
                info[j * p + k] = info[j * p + k] + xw * row[k];
            }
        }
        mu.push(m);
        mu_bound.push(EPS * ((p + 2) as f64 * mag * dmu + 4.0 * m.abs()));
    }
    for j in 0..p {
        for k in 0..j {
            info[j * p + k] = info[k * p + j];
        }
    }
    let info_f: Vec<f64> = info.iter().map(|v| v.f()).collect();
    for j in 1..p {
        u[j] = u[j] - Dd::prod(strength, beta[j]);
        info[j * p + j] = info[j * p + j] + strength;
    }
    let step = linref::solve_dd_dd(&info, &u, p, 1)?;
    let mut dec = Dd::ZERO;
    for j in 0..p {
        dec = dec + u[j] * step[j];
    }
    let score_inf = u.iter().map(|v| v.f().abs()).fold(0.0, f64::max);
    Some(Eval { dec: dec.f(), dev: dev.f(), info: info_f, mu, mu_bound, score_inf })
}

/// The harness's own damped Fisher scoring (f64). Used only to establish that the (penalised) MLE
/// exists with moderate linear predictors, i.e. that the case is inside the property's quantifier.
fn reference_fit(pr: &Prob, strength: f64) -> Option<Vec<f64>> {
    let (n, p) = (pr.n, pr.p);
    let objective = |b: &[f64]| -> f64 {
        let mut d = 0.0;
        for i in 0..n {
            let eta: f64 = pr.oi(i) + (0..p).map(|j| pr.x[i * p + j] * b[j]).sum::<f64>();
            let (m, _, _, _) = pr.fam.obs(pr.y[i], eta);
            d += pr.wi(i) * pr.fam.unit_deviance(pr.y[i], m);
        }
        d + strength * b[1..].iter().map(|v| v * v).sum::<f64>()
    };
    let sw: f64 = (0..n).map(|i| pr.wi(i)).sum();
    let ybar: f64 = (0..n).map(|i| pr.wi(i) * pr.y[i]).sum::<f64>() / sw;
    let mut beta = vec![0.0; p];
    beta[0] = match pr.fam {
        Fam::Gaussian => ybar,
        Fam::Bernoulli => {
            let q = ybar.clamp(0.02, 0.98);
            (q / (1.0 - q)).ln()
        }
        _ => ybar.max(1e-3).ln(),
    };
    let mut cur = objective(&beta);
    for _ in 0..100 {
        let mut u = vec![0.0; p];
        let mut info = vec![0.0; p * p];
        for i in 0..n {
            let row = &pr.x[i * p..(i + 1) * p];
            let eta: f64 = pr.oi(i) + (0..p).map(|j| row[j] * beta[j]).sum::<f64>();
            let (_, s, ww, _) = pr.fam.obs(pr.y[i], eta);
            let w = pr.wi(i);
            for j in 0..p {
                u[j] += w * row[j] * s;
                for k in 0..p {
                    info[j * p + k] += w * ww * row[j] * row[k];
                }
            }
        }
        for j in 1..p {
            u[j] -= strength * beta[j];
            info[j * p + j] += strength;
        }
        let step = linref::solve(&info, &u, p, 1)?;
        let dec: f64 = (0..p).map(|j| u[j] * step[j]).sum();
        if !dec.is_finite() {
            return None;
        }
        if dec.abs() <= 1e-13 * cur.abs().max(1.0) {
            let max_eta = (0..n).map(|i| (pr.oi(i) + (0..p).map(|j| pr.x[i * p + j] * beta[j]).sum::<f64>()).abs()).fold(0.0, f64::max);
            return if max_eta <= 15.0 || pr.fam == Fam::Gaussian { Some(beta) } else { None };
        }
        let mut t = 1.0;
        loop {
            let cand: Vec<f64> = (0..p).map(|j| beta[j] + t * step[j]).collect();
            let o = objective(&cand);
            if o.is_finite() && o <= cur + 1e-12 * cur.abs() {
                beta = cand;
                cur = o;
                break;
            }
            t *= 0.5;
            if t < 1e-6 {
                return None;
            }
        }
    }
    None
}

// ---------------------------------------------------------------------------------------------
// generators

fn standardise(col: &mut [f64]) {
    let n = col.len() as f64;
    let m = col.iter().sum::<f64>() / n;
    let v = col.iter().map(|c| (c - m) * (c - m)).sum::<f64>() / n;
    let s = v.sqrt();
    for c in col.iter_mut() {
        *c = (*c - m) / s;
    }
}

/// n×p design with a leading column of ones; returns None if it is (nearly) collinear
fn gen_design(rng: &mut Rng, kind: &str, n: usize, p: usize) -> Option<Vec<f64>> {
    let mut cols: Vec<Vec<f64>> = Vec::new();
    match kind {
        "polynomial" => {
            let t: Vec<f64> = (0..n).map(|_| rng.range(-1.0, 1.0)).collect();
            for j in 1..p {
                cols.push(t.iter().map(|v| v.powi(j as i32)).collect());
            }
        }
        "indicator" => {
            let forced = rng.usize(1, p.max(2) - 1);
            for j in 1..p {
                if j == forced || rng.chance(0.5) {
                    let q = rng.range(0.3, 0.7);
                    let c: Vec<f64> = (0..n).map(|_| if rng.chance(q) { 1.0 } else { 0.0 }).collect();
                    let ones = c.iter().filter(|v| **v == 1.0).count();
                    if ones < 3 || n - ones < 3 {
                        return None;
                    }
                    cols.push(c);
                } else {
                    let mut c = rng.normals(n);
                    standardise(&mut c);
                    cols.push(c);
                }
            }
        }
        _ => {
            for _ in 1..p {
                let mut c = rng.normals(n);
                standardise(&mut c);
                cols.push(c);
            }
        }
    }
    let mut x = vec![1.0; n * p];
    for i in 0..n {
        for j in 1..p {
            x[i * p + j] = cols[j - 1][i];
        }
    }
    // reject nearly collinear designs (scaled Gram condition number)
    let mut g = vec![0.0; p * p];
    for i in 0..n {
        for a in 0..p {
            for b in 0..p {
                g[a * p + b] += x[i * p + a] * x[i * p + b];
            }
        }
    }
    let d: Vec<f64> = (0..p).map(|j| g[j * p + j].sqrt()).collect();
    for a in 0..p {
        for b in 0..p {
            g[a * p + b] /= d[a] * d[b];
        }
    }
    let ev = linref::jacobi_eigenvalues(&g, p);
    if !(ev[0] > 0.0) || ev[p - 1] / ev[0] > 1e6 {
        return None;
    }
    Some(x)
}

fn simulate(rng: &mut Rng, fam: Fam, eta: &[f64]) -> Vec<f64> {
    match fam {
        Fam::Gaussian => {
            let s = rng.range(0.3, 2.0);
            eta.iter().map(|e| e + s * rng.normal()).collect()
        }
        Fam::Bernoulli => eta.iter().map(|e| if rng.f64() < 1.0 / (1.0 + (-e).exp()) { 1.0 } else { 0.0 }).collect(),
        Fam::Poisson => eta.iter().map(|e| rng.poisson(e.exp())).collect(),
        Fam::QuasiPoisson => {
            let k = rng.range(2.0, 10.0);
            eta.iter().map(|e| { let g = rng.gamma(k) / k; rng.poisson(e.exp() * g) }).collect()
        }
        Fam::Gamma => {
            let k = rng.range(1.0, 6.0);
            eta.iter().map(|e| (e.exp() * rng.gamma(k) / k).max(1e-300)).collect()
        }
        Fam::Exponential => eta.iter().map(|e| (e.exp() * rng.exp1()).max(1e-300)).collect(),
    }
}

/// A problem inside the quantifier, or None (counted as excluded) if no MLE was established.
fn gen_problem(rng: &mut Rng, fam: Fam, alpha: f64, tol: f64, small: bool) -> Option<Prob> {
    gen_problem_opt(rng, fam, alpha, tol, small, None, None)
}

/// `gen_problem` with the kind of weights / the presence of offsets imposed (the random choices are still
/// drawn, so the stream of the main workload is the one it always was).
fn gen_problem_opt(rng: &mut Rng, fam: Fam, alpha: f64, tol: f64, small: bool, force_w: Option<&'static str>, force_off: Option<bool>) -> Option<Prob> {
    let n = if small { rng.usize(20, 24) } else { rng.log_range(20.0, 500.99).floor() as usize };
    let p = if small { 2 } else { rng.usize(1, 6) };
    let design = if p == 1 { "intercept-only" } else { *rng.choose(&["normal", "polynomial", "indicator"]) };
    let wkind = *rng.choose(&["none", "none", "random", "integer"]);
    let wkind = force_w.unwrap_or(wkind);
    let with_off = rng.chance(0.4);
    let with_off = force_off.unwrap_or(with_off);
    for _attempt in 0..6 {
        if let Some(pr) = try_build(rng, fam, n, p, design, wkind, with_off, None, None, alpha, tol) {
            return Some(pr);
        }
    }
    None
}

fn draw_weights(rng: &mut Rng, wkind: &str, n: usize) -> Option<Vec<f64>> {
    match wkind {
        "random" => Some((0..n).map(|_| rng.range(0.5, 3.0)).collect()),
        "integer" => Some((0..n).map(|_| rng.int(1, 3) as f64).collect()),
        _ => None,
    }
}

/// does the (penalised) MLE exist for this configuration (and for strength 1, which the replicated /
/// permuted comparisons and the unchanged tree's fixed point need)?
fn mle_established(pr: &Prob) -> bool {
    reference_fit(pr, pr.alpha).is_some() && (pr.alpha == 0.0 || reference_fit(pr, 1.0).is_some())
}

/// One attempt at a problem of the given shape. `given_w` / `given_off` impose the vectors themselves
/// (a model object that keeps what it was configured with), otherwise they are drawn.
#[allow(clippy::too_many_arguments)]
fn try_build(
    rng: &mut Rng,
    fam: Fam,
    n: usize,
    p: usize,
    design: &'static str,
    wkind: &'static str,
    with_off: bool,
    given_w: Option<&Option<Vec<f64>>>,
    given_off: Option<&Option<Vec<f64>>>,
    alpha: f64,
    tol: f64,
) -> Option<Prob> {
    let x = gen_design(rng, design, n, p)?;
    // |β| <= 1.5: slopes inside the ball of radius 1.5, intercept chosen per family
    let mut beta: Vec<f64> = (0..p).map(|_| rng.range(-1.5, 1.5)).collect();
    let nb = beta[1..].iter().map(|b| b * b).sum::<f64>().sqrt();
    if nb > 1.5 {
        let r = 1.5 * rng.range(0.3, 1.0) / nb;
        for b in beta[1..].iter_mut() {
            *b *= r;
        }
    }
    beta[0] = match fam {
        Fam::Gaussian => rng.range(-1.5, 1.5),
        Fam::Bernoulli => rng.range(-1.0, 1.0),
        Fam::Poisson | Fam::QuasiPoisson => rng.range(0.0, 1.5),
        Fam::Gamma | Fam::Exponential => rng.range(-1.0, 1.5),
    };
    let off: Option<Vec<f64>> = match given_off {
        Some(o) => o.clone(),
        None => {
            if with_off {
                Some((0..n).map(|_| rng.range(-0.5, 0.5)).collect())
            } else {
                None
            }
        }
    };
    let w: Option<Vec<f64>> = match given_w {
        Some(w) => w.clone(),
        None => draw_weights(rng, wkind, n),
    };
    let eta: Vec<f64> = (0..n).map(|i| off.as_ref().map(|o| o[i]).unwrap_or(0.0) + (0..p).map(|j| x[i * p + j] * beta[j]).sum::<f64>()).collect();
    let y = simulate(rng, fam, &eta);
    let pr = Prob { fam, n, p, x, y, w, off, alpha, tol, design, wkind };
    // MLE exists for the configured strength and for the unpenalised problem of the replicated/permuted data alike
    if mle_established(&pr) {
        Some(pr)
    } else {
        None
    }
}

// ---------------------------------------------------------------------------------------------
// library side

struct Fit {
    /// Ok(true) = fit returned Ok, Ok(false) = Err, Err = panic message
    outcome: Result<bool, String>,
    iters: u64,
    glm: Option<GLM>,
}

fn lib_fit(pr: &Prob, max_iter: usize) -> Fit {
    let before = count(Site::GlmIter);
    let r = guard(|| {
        let mut glm = GLM::new(pr.fam.lib());
        glm.set_penalty(pr.alpha).set_tolerance(pr.tol);
        if let Some(w) = &pr.w {
            glm.set_weights(w);
        }
        if let Some(o) = &pr.off {
            glm.set_offset(o);
        }
        let ok = glm.fit(&pr.x, &pr.y, max_iter).is_ok();
        (glm, ok)
    });
    let iters = count(Site::GlmIter) - before;
    match r {
        Ok((glm, ok)) => Fit { outcome: Ok(ok), iters, glm: Some(glm) },
        Err(msg) => Fit { outcome: Err(msg), iters, glm: None },
    }
}

fn rel_err(a: f64, b: f64) -> f64 {
    if a == b {
        0.0
    } else {
        let e = (a - b).abs() / b.abs().max(f64::MIN_POSITIVE);
        if e.is_nan() {
            f64::INFINITY
        } else {
            e
        }
    }
}

fn lambda_min_max(a: &[f64], p: usize) -> (f64, f64) {
    let ev = linref::jacobi_eigenvalues(a, p);
    (ev[0], ev[p - 1])
}

/// Tolerances that follow from "the returned β is within the decrement threshold of the fixed point and
/// deviance / information were evaluated one update earlier" (the library caches μ of the last-but-one
/// coefficient vector). `step` bounds ‖β_prev − β‖₂.
struct Limits {
    /// relative, reported deviance vs deviance at predict(X)
    dev: f64,
    /// relative (scaled by sqrt(c_aa c_bb)), covariance / standard errors
    cov: f64,
    /// absolute, coefficients of two fits of the same data
    coef: f64,
}

fn limits(pr: &Prob, ev: &Eval, coef: &[f64], inv: Option<&[f64]>) -> Limits {
    let p = pr.p;
    let (lmin, lmax) = lambda_min_max(&ev.info, p);
    let kappa = if lmin > 0.0 { lmax / lmin } else { f64::INFINITY };
    let thr = K * pr.tol * ev.dev.max(1.0);
    let step = (thr / lmin).sqrt();
    // second order in the step for an unpenalised fit (∇D = 0 at the MLE); at a penalised fixed point
    // ∇D = 2·strength·β ≠ 0, so the one-update lag is first order there
    let bnorm = coef[1..].iter().map(|b| b * b).sum::<f64>().sqrt();
    // On the unchanged tree the iteration for α ∉ {0,1} is not a descent method for the quantity its stop
    // rule watches (gradient uses strength 1, stop rule and information use α), so the lag is not tied to
    // tol as tightly there (observed: 4.5× instead of > 90× headroom); the first-order terms get ×10.
    let lag = if pr.alpha_class() == "alpha!=0,1" { 10.0 } else { 1.0 };
    let first_order_dev = if pr.alpha > 0.0 { lag * 2.0 * pr.alpha.max(1.0) * bnorm * step / ev.dev.max(f64::MIN_POSITIVE) } else { 0.0 };
    let dev = K * pr.tol + 1e-10 + first_order_dev + deviance_rounding(pr, ev, coef);
    // W_i = w_i μ'²/V is constant in η for Gaussian and the log-link gamma/exponential; for
    // Bernoulli / (quasi-)Poisson |d ln W_i / dη_i| ≤ 1, and |δη_i| ≤ sqrt(x_iᵀI⁻¹x_i)·sqrt(thr)
    let varying = matches!(pr.fam, Fam::Bernoulli | Fam::Poisson | Fam::QuasiPoisson);
    let mut first_order_info = 0.0;
    if let (true, Some(inv)) = (varying, inv) {
        let mut h2 = 0.0f64;
        for i in 0..pr.n {
            let row = &pr.x[i * p..(i + 1) * p];
            let mut q = 0.0;
            for a in 0..p {
                for b in 0..p {
                    q += row[a] * inv[a * p + b] * row[b];
                }
            }
            h2 = h2.max(q);
        }
        first_order_info = lag * h2.sqrt() * thr.sqrt();
    }
    let cov = 1e-6 + 64.0 * EPS * kappa + first_order_info + if pr.fam.has_dispersion() { dev } else { 0.0 };
    let scale = coef.iter().fold(0.0f64, |m, v| m.max(v.abs())).max(1.0);
    let coef_lim = 2.0 * (2.0 * thr / lmin).sqrt() + 1e-9 * kappa * scale;
    Limits { dev, cov, coef: coef_lim }
}

/// Relative rounding error of a deviance evaluated in double precision by the textbook formula (what any
/// implementation commits, and what therefore has to be granted on top of the convergence-scaled limit).
/// Gaussian — the deviance IS the residual sum of squares Σ w (y − μ)²: a residual formed in floating point is
/// off by |e_i| <= (p+3)·eps·(|y_i| + |o_i| + Σ_j |x_ij β_j|) (product sum, offset, subtraction), hence the sum of
/// squares by <= 2·sqrt(RSS)·E + E², E² = Σ w_i e_i² — a term of size eps·‖y‖·‖r‖, NOT eps·‖y‖²: the squares of
/// the responses never enter. It is ~1e-14 for ordinary signal-to-noise ratios and matters when the level of the
/// response is 1e5 and more residual standard deviations.
/// (Quasi-)Poisson — 2 Σ w [y ln y − y ln μ − y + μ] (the expanded form is as textbook as y ln(y/μ) − (y − μ)):
/// eps·(|η_i| + 2) times the magnitude of each term.
fn deviance_rounding(pr: &Prob, ev: &Eval, coef: &[f64]) -> f64 {
    let p = pr.p;
    let d = ev.dev;
    if !(d > 0.0) {
        return f64::INFINITY;
    }
    match pr.fam {
        Fam::Gaussian => {
            let mut e2 = 0.0;
            for i in 0..pr.n {
                let mag = pr.y[i].abs() + pr.oi(i).abs() + (0..p).map(|j| (pr.x[i * p + j] * coef[j]).abs()).sum::<f64>();
                let e = (p + 3) as f64 * EPS * mag;
                e2 += pr.wi(i) * e * e;
            }
            4.0 * (2.0 * (d * e2).sqrt() + e2) / d
        }
        Fam::Poisson | Fam::QuasiPoisson => {
            let mut t = 0.0;
            for i in 0..pr.n {
                let (y, mu) = (pr.y[i], ev.mu[i]);
                let eta = mu.ln().abs();
                let ylogy = if y > 0.0 { (y * y.ln()).abs() } else { 0.0 };
                t += pr.wi(i) * (eta + 2.0) * (ylogy + (y * mu.ln()).abs() + y + mu);
            }
            8.0 * EPS * t / d
        }
        _ => 0.0,
    }
}

/// Σ w_i (y_i − o_i − x_iᵀβ)² with the linear predictor, the residual and the sum in double-double
fn gaussian_rss_dd(pr: &Prob, beta: &[f64]) -> f64 {
    let p = pr.p;
    let mut rss = Dd::ZERO;
    for i in 0..pr.n {
        let mut eta = Dd::new(pr.oi(i));
        for j in 0..p {
            eta = eta + Dd::prod(pr.x[i * p + j], beta[j]);
        }
        let r = Dd::new(pr.y[i]) - eta;
        rss = rss + Dd::new(pr.wi(i)) * (r * r);
    }
    rss.f()
}

/// All assertions on one successful fit. Returns the coefficients.
fn check_success(rep: &mut Report, pr: &Prob, glm: &GLM, iters: u64) -> Option<(Vec<f64>, Eval, Limits)> {
    let fam = pr.fam.name();
    let ac = pr.alpha_class();
    let (n, p) = (pr.n, pr.p);
    let coef: Vec<f64> = match glm.coef() {
        Ok(c) => c.to_vec(),
        Err(e) => {
            rep.check("C06.accessors.available", fam, false, || json!({"problem": pr.json(), "coef": e}));
            return None;
        }
    };
    if !rep.check("C06.coef.finite", fam, coef.len() == p && coef.iter().all(|v| v.is_finite()), || json!({"problem": pr.json(), "coef": jf(&coef)})) {
        return None;
    }
    let ev = match evaluate(pr, &coef, pr.alpha) {
        Some(ev) => ev,
        None => {
            rep.inconclusive(format!("C06: oracle could not evaluate the score at the returned coefficients ({}, case_seed {})", fam, rep.case_seed));
            return None;
        }
    };
    let dscale = ev.dev.max(1.0);
    let thr = K * pr.tol * dscale;

    // ---- (1) penalised score equations: Newton decrement
    let ratio = ev.dec / (pr.tol * dscale);
    let score_regime = if ac == "alpha!=0,1" { ac.to_string() } else { format!("{}:{}", fam, ac) };
    rep.note_max(&format!("worst_ratio.decrement_over_tolD.{}", ac), ratio);
    rep.check("C06.score.zero", &score_regime, ratio <= K, || {
        let with_one = evaluate(pr, &coef, 1.0).map(|e| e.dec);
        json!({"problem": pr.json(), "coef": jf(&coef), "iterations": iters, "newton_decrement": ev.dec, "score_inf_norm": ev.score_inf,
               "threshold_K_tol_maxD1": thr, "deviance_at_coef": ev.dev,
               "diagnosis_decrement_if_penalty_strength_were_1": with_one})
    });

    let inv = linref::inverse(&ev.info, p);
    let lims = limits(pr, &ev, &coef, inv.as_deref());

    // ---- (2) Gaussian: weighted ridge least squares (intercept unpenalised)
    let (lmin_unpen, lmax_unpen) = lambda_min_max(&ev.info, p);
    let kappa = if lmin_unpen > 0.0 { lmax_unpen / lmin_unpen } else { f64::INFINITY };
    if pr.fam == Fam::Gaussian && pr.off.is_none() {
        let mut pen = vec![pr.alpha; p];
        pen[0] = 0.0;
        match linref::ridge_ls(&pr.x, &pr.y, pr.w.as_deref(), &pen, n, p) {
            None => rep.inconclusive("C06: reference ridge least squares failed".into()),
            Some(bref) => {
                let scale = bref.iter().fold(0.0f64, |m, v| m.max(v.abs())).max(1.0);
                let lim = (thr / lmin_unpen).sqrt() + 1e-9 * kappa * scale;
                let err = coef.iter().zip(&bref).map(|(a, b)| (a - b).abs()).fold(0.0, f64::max);
                rep.note_max(&format!("worst_ratio.gaussian_ridge_ls.{}", ac), err / lim);
                rep.check("C06.gaussian.ridge_ls", ac, err <= lim, || {
                    let mut pen1 = vec![1.0; p];
                    pen1[0] = 0.0;
                    json!({"problem": pr.json(), "coef": jf(&coef), "ridge_ls_reference": jf(&bref), "max_abs_diff": err, "limit": lim,
                           "diagnosis_ridge_ls_with_strength_1": linref::ridge_ls(&pr.x, &pr.y, pr.w.as_deref(), &pen1, n, p).map(|b| jf(&b))})
                });
            }
        }
    }

    // ---- (3) predictions = g⁻¹(Xβ + offset)
    let pred: Option<Vec<f64>> = match guard(|| glm.predict(&pr.x).map(|v| v.to_vec()).map_err(|e| e.to_string())) {
        Ok(Ok(v)) if v.len() == n => {
            let mut worst = 0.0f64;
            let mut at = 0;
            for i in 0..n {
                let r = (v[i] - ev.mu[i]).abs() / (ev.mu_bound[i] + f64::MIN_POSITIVE);
                let r = if r.is_nan() { f64::INFINITY } else { r };
                if r > worst {
                    worst = r;
                    at = i;
                }
            }
            rep.note_max("worst_ratio.predict_over_rounding_bound", worst);
            rep.check("C06.predict.inverse_link", fam, worst <= 8.0, || {
                json!({"problem": pr.json(), "coef": jf(&coef), "row": at, "observed": jnum(v[at]), "expected": jnum(ev.mu[at]), "error_over_bound": jnum(worst)})
            });
            // new data (fewer rows) when no offsets are attached to the model
            if pr.off.is_none() && n >= 2 {
                let m = n / 2;
                let sub = guard(|| glm.predict(&pr.x[..m * p]).map(|v| v.to_vec()).map_err(|e| e.to_string()));
                let ok = match &sub {
                    Ok(Ok(s)) => s.len() == m && (0..m).all(|i| (s[i] - ev.mu[i]).abs() <= 8.0 * ev.mu_bound[i] + f64::MIN_POSITIVE),
                    _ => false,
                };
                rep.check("C06.predict.new_rows", fam, ok, || json!({"problem": pr.json(), "coef": jf(&coef), "rows": m, "observed": format!("{:?}", sub.as_ref().map(|r| r.as_ref().map(|v| jf(v)))), "expected": jf(&ev.mu[..m])}));
            }
            Some(v)
        }
        other => {
            rep.check("C06.predict.inverse_link", fam, false, || json!({"problem": pr.json(), "coef": jf(&coef), "observed": format!("{:?}", other.map(|r| r.map(|v| v.len())))}));
            None
        }
    };

    // ---- (4) deviance = family deviance at the fitted means
    let dev_lib = glm.deviance().unwrap_or(f64::NAN);
    let wclass = format!("w={}", pr.wkind);
    if let Some(pred) = &pred {
        // Σ w_i d(y_i, μ_i) is defined for every weight vector (it does not involve n). The library caches it one
        // update before the returned coefficients; `lims.dev` bounds that lag through the stop rule, which watches the
        // UNWEIGHTED penalised deviance. For constant weights (the weighted deviance is a multiple of the watched
        // one) and for unpenalised fits (lag of second order) the bound stands with > 25x headroom; for the main
        // workload's integer weights 1..3 it has been calibrated since round 1 (worst 0.22 of the limit at alpha = 1).
        // For any other non-constant weights with alpha > 0 the lag is first order in a step the stop rule does not
        // bound (seen: 0.27 of the limit for two-valued integers, and once 1.4x — gamma, alpha = 1, tol = 1e-5,
        // U(0.5,3) weights, 0.69 % against 0.50 %), so the value is not judged there — as it never was for the
        // "random" kind; the weight relations still compare the deviances of such fits with each other.
        let w_constant = pr.w.as_ref().map(|w| w.windows(2).all(|a| a[0] == a[1])).unwrap_or(true);
        let calibrated = pr.wkind == "none" || pr.wkind == "integer";
        if calibrated || w_constant || pr.alpha == 0.0 {
            let mut d = Dd::ZERO;
            let mut d_unw = Dd::ZERO;
            for i in 0..n {
                let u = pr.fam.unit_deviance(pr.y[i], pred[i]);
                d = d + Dd::prod(pr.wi(i), u);
                d_unw = d_unw + Dd::new(u);
            }
            let (d, d_unw) = (d.f(), d_unw.f());
            let regime = match (pr.fam, pr.wkind) {
                (Fam::Gaussian, _) => format!("gaussian:{}", wclass),
                (_, "none") => format!("{}:w=none", fam),
                _ => format!("nongaussian:{}", wclass),
            };
            let lim = lims.dev;
            let e = rel_err(dev_lib, d);
            if regime.ends_with("w=none") && pr.fam != Fam::Gaussian {
                rep.note_max(&format!("worst_ratio.deviance_relerr_over_limit.{}", ac), e / lim);
                rep.note_max(&format!("worst_ratio.deviance_relerr_over_tol.{}", ac), e / pr.tol);
            }
            if pr.w.is_some() {
                rep.note_max(&format!("worst_ratio.weighted_deviance_relerr_over_limit.w={}.{}", pr.wkind, ac), e / lim);
            }
            rep.check("C06.deviance", &regime, e <= lim, || {
                json!({"problem": pr.json(), "coef": jf(&coef), "deviance_reported": jnum(dev_lib), "deviance_expected_weighted_textbook": d,
                       "relative_error": jnum(e), "limit": lim,
                       "diagnosis": {"unweighted_textbook_deviance": d_unw, "sqrt_of_unweighted": d_unw.sqrt(), "sqrt_of_weighted": d.sqrt()}})
            });
        }
    }

    // ---- (5) dispersion, covariance, standard errors, aic, bic
    // no weights: n = rows; integer-valued weights (frequencies, zeros included): n = weight sum;
    // non-integer weights: the property does not say which n is meant
    let sum_w: f64 = (0..n).map(|i| pr.wi(i)).sum();
    let all_integer = pr.w.as_ref().map(|w| w.iter().all(|v| v.fract() == 0.0)).unwrap_or(true);
    let n_eff: Option<f64> = if all_integer { Some(sum_w) } else { None };
    // With non-integer weights the library counts round(Σw) observations; a dispersion family whose weights
    // sum to no more than p has no residual degrees of freedom under that convention (the accessor divides by
    // n − p in unsigned arithmetic). Which n is meant is not fixed by the property, so nothing that involves the
    // dispersion is judged there; coefficients, predictions and the deviance above are.
    // (the 1e-12: the library rounds its own floating-point sum, which may fall on the other side of a tie)
    if pr.fam.has_dispersion() && n_eff.is_none() && !((sum_w * (1.0 - 1e-12)).round() > p as f64) {
        rep.seen("excluded:dispersion-not-judged(non-integer weights, round(sum w) <= p)", 1);
        return Some((coef, ev, lims));
    }
    let disp_lib = glm.dispersion().unwrap_or(f64::NAN);
    if let Some(ne) = n_eff {
        let expect = if pr.fam.has_dispersion() { dev_lib / (ne - p as f64) } else { 1.0 };
        rep.check("C06.dispersion.formula", fam, rel_err(disp_lib, expect) <= 4.0 * EPS, || {
            json!({"problem": pr.json(), "dispersion_reported": jnum(disp_lib), "expected_reported_deviance_over_n_minus_p": jnum(expect), "deviance_reported": jnum(dev_lib), "n": ne, "p": p})
        });
        let aic = glm.aic().unwrap_or(f64::NAN);
        let bic = glm.bic().unwrap_or(f64::NAN);
        rep.check("C06.aic.formula", fam, rel_err(aic, dev_lib + 2.0 * p as f64) <= 4.0 * EPS, || json!({"problem": pr.json(), "aic": jnum(aic), "deviance_reported": jnum(dev_lib), "p": p}));
        rep.check("C06.bic.formula", fam, rel_err(bic, dev_lib + p as f64 * ne.ln()) <= 4.0 * EPS, || json!({"problem": pr.json(), "bic": jnum(bic), "deviance_reported": jnum(dev_lib), "p": p, "n": ne}));
    }
    let cov = guard(|| glm.coef_covariance_matrix().map_err(|e| e.to_string()));
    let se = guard(|| glm.coef_standard_error().map(|v| v.to_vec()).map_err(|e| e.to_string()));
    match (inv, cov, se) {
        (Some(inv), Ok(Ok(cov)), Ok(Ok(se))) if cov.len() == p * p && se.len() == p => {
            let lim = lims.cov;
            // covariance against the library's own dispersion: isolates information matrix + inversion
            let mut worst = 0.0f64;
            for a in 0..p {
                for b in 0..p {
                    let scale = disp_lib * (inv[a * p + a] * inv[b * p + b]).sqrt();
                    let r = (cov[a * p + b] - disp_lib * inv[a * p + b]).abs() / scale;
                    worst = worst.max(if r.is_nan() { f64::INFINITY } else { r });
                }
            }
            rep.note_max(&format!("worst_ratio.covariance_relerr_over_limit.{}", ac), worst / lim);
            if pr.tol <= 1e-10 {
                rep.note_max("worst_relerr.covariance_at_tol<=1e-10", worst);
            }
            rep.check("C06.covariance", fam, worst <= lim, || {
                json!({"problem": pr.json(), "coef": jf(&coef), "covariance_reported": jf(&cov), "dispersion_reported": jnum(disp_lib),
                       "inverse_information_expected": jf(&inv), "worst_scaled_error": jnum(worst), "limit": lim})
            });
            let consistent = (0..p).all(|j| rel_err(se[j], cov[j * p + j].sqrt()) <= 4.0 * EPS);
            rep.check("C06.stderr.is_sqrt_diag_covariance", fam, consistent, || json!({"problem": pr.json(), "stderr": jf(&se), "covariance_reported": jf(&cov)}));
            // standard errors against the oracle's dispersion
            let disp_oracle: Option<f64> = if !pr.fam.has_dispersion() { Some(1.0) } else { n_eff.map(|ne| ev.dev / (ne - p as f64)) };
            if let Some(phi) = disp_oracle {
                let regime = if pr.fam == Fam::Gaussian {
                    format!("gaussian:{}", wclass)
                } else if pr.wkind == "none" {
                    format!("{}:w=none", fam)
                } else if pr.fam.has_dispersion() {
                    format!("dispersion-family:{}", wclass)
                } else {
                    format!("unit-dispersion:{}", wclass)
                };
                let expect: Vec<f64> = (0..p).map(|j| (phi * inv[j * p + j]).sqrt()).collect();
                let worst = (0..p).map(|j| rel_err(se[j], expect[j])).fold(0.0, f64::max);
                if !(pr.fam == Fam::Gaussian || (pr.fam.has_dispersion() && pr.wkind != "none")) {
                    rep.note_max(&format!("worst_ratio.stderr_relerr_over_limit.{}", ac), worst / lim);
                }
                if pr.w.is_some() {
                    rep.note_max(&format!("worst_ratio.weighted_stderr_relerr_over_limit.w={}.{}", pr.wkind, ac), worst / lim);
                }
                rep.check("C06.stderr", &regime, worst <= lim, || {
                    json!({"problem": pr.json(), "coef": jf(&coef), "stderr_reported": jf(&se), "stderr_expected": jf(&expect), "dispersion_expected": phi,
                           "dispersion_reported": jnum(disp_lib), "worst_relative_error": jnum(worst), "limit": lim})
                });
            }
        }
        (None, _, _) => rep.inconclusive("C06: oracle information matrix singular".into()),
        (_, cov, se) => {
            rep.check("C06.accessors.available", fam, false, || json!({"problem": pr.json(), "covariance": format!("{:?}", cov.map(|r| r.map(|v| v.len()))), "stderr": format!("{:?}", se.map(|r| r.map(|v| v.len())))}));
        }
    }
    Some((coef, ev, lims))
}

fn main_case(i: usize, small_until: usize, rng: &mut Rng, rep: &mut Report) {
    let fam = FAMS[i % 6];
    let alpha = ALPHAS[(i / 6) % 4];
    let tol = TOLS[if i < 96 { (i / 24) % 4 } else { rng.usize(0, 3) }];
    let pr = match gen_problem(rng, fam, alpha, tol, i < small_until) {
        Some(pr) => pr,
        None => {
            rep.seen("excluded:no-mle-established-by-reference-fit", 1);
            return;
        }
    };
    let ac = pr.alpha_class();
    let regime = format!("fit:{}:{}", fam.name(), ac);
    rep.case(&regime);
    for r in [format!("alpha={}", alpha), format!("tol={:e}", tol), format!("w={}", pr.wkind), format!("design={}", pr.design), format!("offsets={}", pr.off.is_some()), format!("p={}", pr.p)] {
        rep.seen(&r, 1);
    }
    let fit = lib_fit(&pr, MAX_ITER);
    rep.distinct(
        Hasher::new().s(fam.name()).u(pr.n as u64).u(pr.p as u64).f(alpha).f(tol).s(pr.wkind).s(pr.design).u(pr.off.is_some() as u64).fs(&pr.y[..4]).finish(),
        pr.p >= 2 && fit.iters >= 2,
    );
    rep.check("C06.nonconv.budget_respected", "main", fit.iters <= MAX_ITER as u64, || json!({"problem": pr.json(), "iterations": fit.iters, "max_iter": MAX_ITER}));
    let glm = match (&fit.outcome, &fit.glm) {
        (Err(msg), _) => {
            rep.check("C06.fit.no_panic", fam.name(), false, || json!({"problem": pr.json(), "panic": msg}));
            return;
        }
        (Ok(false), _) => {
            rep.check("C06.fit.no_panic", fam.name(), true, || json!(null));
            rep.seen(&format!("result:err:{}", ac), 1);
            return;
        }
        (Ok(true), Some(g)) => {
            rep.check("C06.fit.no_panic", fam.name(), true, || json!(null));
            rep.seen("result:ok", 1);
            rep.seen(&format!("ok:{}:tol={:e}", ac, tol), 1);
            g
        }
        _ => return,
    };
    rep.note_max(&format!("iterations_max.{}.{}", if fam == Fam::Gaussian { "gaussian" } else { "nongaussian" }, ac), fit.iters as f64);
    let (coef, ev, lims) = match check_success(rep, &pr, glm, fit.iters) {
        Some(v) => v,
        None => return,
    };
    rep.sample(|| json!({"family": fam.name(), "n": pr.n, "p": pr.p, "alpha": alpha, "tolerance": tol, "weights": pr.wkind, "offsets": pr.off.is_some(), "design": pr.design,
                         "iterations": fit.iters, "coef": jf(&coef), "newton_decrement": ev.dec, "deviance_oracle": ev.dev, "deviance_reported": jnum(glm.deviance().unwrap_or(f64::NAN))}));
    let lim = lims.coef;

    // ---- (6) invariance to reordering observations
    if i % 2 == 0 {
        let perm = rng.perm(pr.n);
        let q = pr.permuted(&perm);
        let f2 = lib_fit(&q, MAX_ITER);
        match (&f2.outcome, &f2.glm) {
            (Ok(true), Some(g2)) => {
                let c2 = g2.coef().map(|c| c.to_vec()).unwrap_or_default();
                let err = coef.iter().zip(&c2).map(|(a, b)| (a - b).abs()).fold(0.0, f64::max);
                rep.note_max("worst_ratio.permutation_coef_over_limit", err / lim);
                rep.check("C06.permutation.coef", ac, c2.len() == coef.len() && err <= lim, || json!({"problem": pr.json(), "permutation": perm, "coef": jf(&coef), "coef_permuted": jf(&c2), "max_abs_diff": err, "limit": lim}));
                let (d1, d2) = (glm.deviance().unwrap_or(f64::NAN), g2.deviance().unwrap_or(f64::NAN));
                rep.check("C06.permutation.deviance", fam.name(), rel_err(d1, d2) <= 2.0 * lims.dev, || json!({"problem": pr.json(), "permutation": perm, "deviance": jnum(d1), "deviance_permuted": jnum(d2)}));
            }
            (Ok(false), _) => rep.seen("permutation:err-after-ok", 1),
            (Err(msg), _) => {
                rep.check("C06.fit.no_panic", fam.name(), false, || json!({"problem": q.json(), "panic": msg, "note": "row-permuted copy of a data set that fitted"}));
            }
            _ => {}
        }
    }

    // ---- (7) integer weights ≡ replicated rows
    if pr.wkind == "integer" {
        let q = pr.replicated();
        let f2 = lib_fit(&q, MAX_ITER);
        match (&f2.outcome, &f2.glm) {
            (Ok(true), Some(g2)) => {
                rep.seen("replication:compared", 1);
                let c2 = g2.coef().map(|c| c.to_vec()).unwrap_or_default();
                let err = coef.iter().zip(&c2).map(|(a, b)| (a - b).abs()).fold(0.0, f64::max);
                rep.note_max("worst_ratio.replication_coef_over_limit", err / lim);
                rep.check("C06.replication.coef", ac, c2.len() == coef.len() && err <= lim, || json!({"problem": pr.json(), "coef_weighted": jf(&coef), "coef_replicated": jf(&c2), "max_abs_diff": err, "limit": lim}));
                let (d1, d2) = (glm.deviance().unwrap_or(f64::NAN), g2.deviance().unwrap_or(f64::NAN));
                let dl = 2.0 * lims.dev;
                rep.check("C06.replication.deviance", "integer-weights", rel_err(d1, d2) <= dl, || {
                    json!({"problem": pr.json(), "deviance_weighted_fit": jnum(d1), "deviance_replicated_fit": jnum(d2), "rows": pr.n, "replicated_rows": q.n, "relative_limit": dl})
                });
                let s1 = guard(|| glm.coef_standard_error().map(|v| v.to_vec()).unwrap_or_default()).unwrap_or_default();
                let s2 = guard(|| g2.coef_standard_error().map(|v| v.to_vec()).unwrap_or_default()).unwrap_or_default();
                if s1.len() == pr.p && s2.len() == pr.p {
                    let sl = 2.0 * lims.cov;
                    let worst = (0..pr.p).map(|j| rel_err(s1[j], s2[j])).fold(0.0, f64::max);
                    let regime = if pr.fam.has_dispersion() { "dispersion-family" } else { "unit-dispersion" };
                    if !pr.fam.has_dispersion() {
                        rep.note_max("worst_ratio.replication_stderr_over_limit", worst / sl);
                    }
                    rep.check("C06.replication.stderr", regime, worst <= sl, || json!({"problem": pr.json(), "stderr_weighted_fit": jf(&s1), "stderr_replicated_fit": jf(&s2), "worst_relative_diff": jnum(worst), "limit": sl}));
                }
            }
            (Ok(false), _) => rep.seen("replication:err-after-ok", 1),
            (Err(msg), _) => {
                rep.check("C06.fit.no_panic", fam.name(), false, || json!({"problem": q.json(), "panic": msg, "note": "replicated-rows copy of an integer-weighted data set that fitted"}));
            }
            _ => {}
        }
    }
}

/// Directed cases for "reports an error, not a wrong answer, when it has not converged".
fn nonconv_case(i: usize, rng: &mut Rng, rep: &mut Report) {
    if i % 4 == 3 {
        // perfectly separable logistic data: no finite MLE, the iteration cannot converge
        let n = rng.usize(20, 100);
        let p = rng.usize(2, 4);
        let x = loop {
            if let Some(x) = gen_design(rng, "normal", n, p) {
                break x;
            }
        };
        let dir: Vec<f64> = (0..p).map(|j| if j == 0 { 0.0 } else { rng.range(0.5, 1.5) }).collect();
        let mut y: Vec<f64> = (0..n).map(|r| if (0..p).map(|j| x[r * p + j] * dir[j]).sum::<f64>() > 0.0 { 1.0 } else { 0.0 }).collect();
        if y.iter().all(|v| *v == y[0]) {
            y[0] = 1.0 - y[0];
        }
        let tol = *rng.choose(&TOLS);
        let max_iter = *rng.choose(&[25usize, 60]);
        let pr = Prob { fam: Fam::Bernoulli, n, p, x, y, w: None, off: None, alpha: 0.0, tol, design: "normal", wkind: "none" };
        let regime = "nonconv:separable-logistic";
        rep.case(regime);
        rep.distinct(Hasher::new().s(regime).u(n as u64).u(p as u64).f(tol).f(pr.x[1]).finish(), true);
        let fit = lib_fit(&pr, max_iter);
        rep.check("C06.nonconv.budget_respected", regime, fit.iters <= max_iter as u64, || json!({"problem": pr.json(), "iterations": fit.iters, "max_iter": max_iter}));
        match &fit.outcome {
            Ok(true) => {
                let coef = fit.glm.as_ref().and_then(|g| g.coef().ok().map(|c| c.to_vec())).unwrap_or_default();
                rep.check("C06.nonconv.reports_err", regime, false, || json!({"problem": pr.json(), "max_iter": max_iter, "iterations": fit.iters, "returned": "Ok", "coef": jf(&coef), "note": "separable data: no finite MLE exists"}));
            }
            Ok(false) => {
                rep.check("C06.nonconv.reports_err", regime, true, || json!(null));
                rep.seen("nonconv:separable:err", 1);
            }
            Err(_) => {
                // a panic is not a wrong answer; separable data are outside the quantifier, so only counted
                rep.seen("nonconv:separable:panic", 1);
            }
        }
        return;
    }
    let fam = FAMS[(i / 4) % 6];
    let alpha = *rng.choose(&[0.0, 1.0]);
    let tol = *rng.choose(&TOLS);
    let pr = match gen_problem(rng, fam, alpha, tol, false) {
        Some(pr) => pr,
        None => {
            rep.seen("excluded:no-mle-established-by-reference-fit", 1);
            return;
        }
    };
    let max_iter = 1 + i % 4; // 1, 2, 3
    let regime = format!("nonconv:max_iter={}", max_iter);
    rep.case(&regime);
    rep.distinct(Hasher::new().s(&regime).s(fam.name()).u(pr.n as u64).u(pr.p as u64).f(tol).fs(&pr.y[..4]).finish(), pr.p >= 2);
    let fit = lib_fit(&pr, max_iter);
    rep.check("C06.nonconv.budget_respected", &regime, fit.iters <= max_iter as u64, || json!({"problem": pr.json(), "iterations": fit.iters, "max_iter": max_iter}));
    match (&fit.outcome, &fit.glm) {
        (Ok(false), _) => {
            rep.check("C06.nonconv.reports_err", &regime, true, || json!(null));
            rep.seen(&format!("{}:err", regime), 1);
        }
        (Ok(true), Some(g)) => {
            // Ok at (or before) the budget is legitimate only if the result is converged
            rep.seen(&format!("{}:ok", regime), 1);
            let coef = g.coef().map(|c| c.to_vec()).unwrap_or_default();
            let ev = if coef.len() == pr.p { evaluate(&pr, &coef, pr.alpha) } else { None };
            let ok = ev.as_ref().map(|e| e.dec <= K * pr.tol * e.dev.max(1.0)).unwrap_or(false);
            rep.check("C06.nonconv.reports_err", &regime, ok, || {
                json!({"problem": pr.json(), "max_iter": max_iter, "iterations": fit.iters, "returned": "Ok", "coef": jf(&coef),
                       "newton_decrement": ev.as_ref().map(|e| e.dec), "threshold": ev.as_ref().map(|e| K * pr.tol * e.dev.max(1.0))})
            });
        }
        (Err(msg), _) => {
            rep.check("C06.fit.no_panic", fam.name(), false, || json!({"problem": pr.json(), "max_iter": max_iter, "panic": msg}));
        }
        _ => {}
    }
}

// ---------------------------------------------------------------------------------------------
// object-reuse histories
//
// The property speaks about "whenever fitting reports success": the success may be the second or third
// `fit` of one model object — the retry with a larger budget after `Err`, a refit on new data, a refit
// after `set_weights` / `set_offset` / `set_penalty` / `set_tolerance`. What the model was configured
// with at the time of the call is "the given design, weights and offsets ... the configured strength".
// Oracle: (a) the complete single-fit oracle (`check_success`: score equations, ridge LS, deviance,
// dispersion, covariance, standard errors, aic/bic, predict) on the reused object against the FINAL
// configuration; (b) a fresh twin configured with the final settings and fitted once: two successful
// fits of the same problem both lie within the decrement threshold of the unique (penalised) MLE, so
// their observables differ by at most the limits the permutation relation already uses. Nothing is
// compared bit-for-bit (a warm start from the previous coefficients would be a legitimate implementation).

/// fresh model configured like `lib_fit` does
fn new_model(pr: &Prob) -> GLM {
    let mut glm = GLM::new(pr.fam.lib());
    glm.set_penalty(pr.alpha).set_tolerance(pr.tol);
    if let Some(w) = &pr.w {
        glm.set_weights(w);
    }
    if let Some(o) = &pr.off {
        glm.set_offset(o);
    }
    glm
}

/// one `fit` on an existing object: (Ok(returned Ok?) | Err(panic), Fisher iterations)
fn fit_on(glm: &mut GLM, pr: &Prob, max_iter: usize) -> (Result<bool, String>, u64) {
    let before = count(Site::GlmIter);
    let r = guard(|| glm.fit(&pr.x, &pr.y, max_iter).is_ok());
    (r, count(Site::GlmIter) - before)
}

/// the setter calls that turn a model configured for `from` into one configured for `to`
fn apply_change(glm: &mut GLM, from: &Prob, to: &Prob) -> Vec<&'static str> {
    let mut called = Vec::new();
    if to.alpha != from.alpha {
        glm.set_penalty(to.alpha);
        called.push("set_penalty");
    }
    if to.tol != from.tol {
        glm.set_tolerance(to.tol);
        called.push("set_tolerance");
    }
    if to.w != from.w {
        if let Some(w) = &to.w {
            glm.set_weights(w);
            called.push("set_weights");
        }
    }
    if to.off != from.off {
        if let Some(o) = &to.off {
            glm.set_offset(o);
            called.push("set_offset");
        }
    }
    called
}

/// |g⁻¹(η+δ) − g⁻¹(η)| for |δ| ≤ deta, given μ = g⁻¹(η)
fn mu_shift_bound(fam: Fam, mu: f64, deta: f64) -> f64 {
    match fam {
        Fam::Gaussian => deta,
        Fam::Bernoulli => (0.25 * deta).min(1.0),
        _ => mu.abs() * deta.exp_m1(),
    }
}

/// see `c14.rs`: violations of the reused object that its fresh twin does not share are re-labelled
/// `assertion|reuse_regime` (and get the object's history attached); shared and twin-only ones keep the
/// single-fit signature.
fn merge_differential(rep: &mut Report, mut re: Report, fr: Report, reuse_regime: &str, history: &dyn Fn() -> Value) {
    fn put(rep: &mut Report, v: Violation) {
        let key = format!("{}|{}", v.assertion, v.regime);
        match rep.violations.get_mut(&key) {
            Some(e) => e.count += v.count,
            None => {
                rep.violations.insert(key, v);
            }
        }
    }
    let vs = std::mem::take(&mut re.violations);
    rep.merge(re);
    for (sig, v) in &fr.violations {
        if !vs.contains_key(sig) {
            let st = rep.assert_stat(&v.assertion);
            st.checked += v.count;
            st.failed += v.count;
            put(rep, v.clone());
        }
    }
    for (sig, mut v) in vs {
        if !fr.violations.contains_key(&sig) {
            if let Value::Object(m) = &mut v.first {
                m.insert("single_fit_regime".into(), json!(v.regime));
                m.insert("object_history".into(), history());
            }
            v.regime = reuse_regime.to_string();
        }
        put(rep, v);
    }
}

/// Verdict on the last `fit` of a reused object (`outcome`, `iters`) for the final configuration `pr`.
fn judge_reuse(rep: &mut Report, hist: &str, change: &str, pr: &Prob, glm: &GLM, outcome: Result<bool, String>, iters: u64, history: &dyn Fn() -> Value) {
    let fam = pr.fam.name();
    rep.case(hist);
    rep.seen(&format!("refit:change={}", change), 1);
    rep.seen(&format!("refit:{}", fam), 1);
    rep.seen(&format!("refit:w={}", pr.wkind), 1);
    rep.seen(&format!("refit:offsets={}", pr.off.is_some()), 1);
    rep.distinct(
        Hasher::new().s(hist).s(change).s(fam).u(pr.n as u64).u(pr.p as u64).f(pr.alpha).f(pr.tol).s(pr.wkind).u(pr.off.is_some() as u64).fs(&pr.y[..4]).finish(),
        pr.p >= 2 && iters >= 2,
    );
    rep.check("C06.nonconv.budget_respected", hist, iters <= MAX_ITER as u64, || json!({"problem": pr.json(), "object_history": history(), "iterations": iters, "max_iter": MAX_ITER}));
    let fresh = lib_fit(pr, MAX_ITER);
    let fresh_ok = matches!(fresh.outcome, Ok(true));
    match outcome {
        Err(msg) => {
            // single-fit finding if a fresh model panics on this problem as well
            let regime = if fresh.outcome.is_err() { fam } else { hist };
            rep.check("C06.fit.no_panic", regime, false, || json!({"problem": pr.json(), "object_history": history(), "panic": msg, "fresh_twin": format!("{:?}", fresh.outcome)}));
        }
        Ok(false) => {
            // an error is never a wrong answer; counted so that the run is inconclusive if nothing was compared
            rep.check("C06.fit.no_panic", hist, true, || json!(null));
            rep.seen(if fresh_ok { "refit:err-where-fresh-ok" } else { "refit:err-like-fresh" }, 1);
        }
        Ok(true) => {
            rep.check("C06.fit.no_panic", hist, true, || json!(null));
            rep.seen(&format!("{}:ok", hist), 1);
            let mut s_re = Report::new();
            s_re.case_seed = rep.case_seed;
            let re = check_success(&mut s_re, pr, glm, iters);
            let mut s_fr = Report::new();
            s_fr.case_seed = rep.case_seed;
            let fr = match (&fresh.outcome, &fresh.glm) {
                (Ok(true), Some(g)) => check_success(&mut s_fr, pr, g, fresh.iters).map(|v| (g, v)),
                (Ok(false), _) => {
                    rep.seen("refit:ok-where-fresh-err", 1);
                    None
                }
                (Err(msg), _) => {
                    rep.check("C06.fit.no_panic", fam, false, || json!({"problem": pr.json(), "panic": msg}));
                    None
                }
                _ => None,
            };
            merge_differential(rep, s_re, s_fr, hist, history);
            if let (Some((coef, _, _)), Some((g, (fcoef, fev, lims)))) = (re, fr) {
                compare_twin(rep, hist, pr, glm, &coef, g, &fcoef, &fev, &lims, history);
            }
        }
    }
}

/// reused object vs fresh twin, both fitted successfully on `pr`
#[allow(clippy::too_many_arguments)]
fn compare_twin(rep: &mut Report, hist: &str, pr: &Prob, glm: &GLM, coef: &[f64], fresh: &GLM, fcoef: &[f64], fev: &Eval, lims: &Limits, history: &dyn Fn() -> Value) {
    let (n, p) = (pr.n, pr.p);
    rep.seen("refit:compared-with-fresh", 1);
    let ctx = |extra: Value| json!({"problem": pr.json(), "object_history": history(), "coef_reused_object": jf(coef), "coef_fresh_object": jf(fcoef), "detail": extra});
    // coefficients: both within the decrement threshold of the same fixed point
    let err = coef.iter().zip(fcoef).map(|(a, b)| (a - b).abs()).fold(0.0, f64::max);
    let err = if err.is_nan() { f64::INFINITY } else { err };
    rep.note_max("worst_ratio.reuse_coef_over_limit", err / lims.coef);
    rep.check("C06.reuse.coef", hist, err <= lims.coef, || ctx(json!({"max_abs_diff": jnum(err), "limit": lims.coef})));
    let se_re = guard(|| glm.coef_standard_error().map(|v| v.to_vec()).unwrap_or_default()).unwrap_or_default();
    let se_fr = guard(|| fresh.coef_standard_error().map(|v| v.to_vec()).unwrap_or_default()).unwrap_or_default();
    let pred_re = guard(|| glm.predict(&pr.x).map(|v| v.to_vec()).unwrap_or_default()).unwrap_or_default();
    let pred_fr = guard(|| fresh.predict(&pr.x).map(|v| v.to_vec()).unwrap_or_default()).unwrap_or_default();
    let (d1, d2) = (glm.deviance().unwrap_or(f64::NAN), fresh.deviance().unwrap_or(f64::NAN));
    let (f1, f2) = (glm.dispersion().unwrap_or(f64::NAN), fresh.dispersion().unwrap_or(f64::NAN));
    let identical = coef.iter().zip(fcoef).all(|(a, b)| a.to_bits() == b.to_bits()) && d1.to_bits() == d2.to_bits() && f1.to_bits() == f2.to_bits()
        && se_re.len() == se_fr.len() && se_re.iter().zip(&se_fr).all(|(a, b)| a.to_bits() == b.to_bits())
        && pred_re.len() == pred_fr.len() && pred_re.iter().zip(&pred_fr).all(|(a, b)| a.to_bits() == b.to_bits());
    if identical {
        rep.seen("refit:bitwise-identical-to-fresh", 1);
    }
    // deviance: each report is within lims.dev of the deviance at its own fitted means, and the two
    // deviances at the fitted means differ by at most the threshold
    let dl = 3.0 * lims.dev * (1.0f64).max(1.0 / fev.dev.max(f64::MIN_POSITIVE));
    rep.note_max("worst_ratio.reuse_deviance_over_limit", rel_err(d1, d2) / dl);
    rep.check("C06.reuse.deviance", hist, rel_err(d1, d2) <= dl, || ctx(json!({"deviance_reused_object": jnum(d1), "deviance_fresh_object": jnum(d2), "relative_limit": dl})));
    rep.check("C06.reuse.dispersion", hist, rel_err(f1, f2) <= dl + 8.0 * EPS, || ctx(json!({"dispersion_reused_object": jnum(f1), "dispersion_fresh_object": jnum(f2), "relative_limit": dl})));
    let (a1, a2) = (glm.aic().unwrap_or(f64::NAN), fresh.aic().unwrap_or(f64::NAN));
    let (b1, b2) = (glm.bic().unwrap_or(f64::NAN), fresh.bic().unwrap_or(f64::NAN));
    let il = dl * d2.abs() + 16.0 * EPS * a2.abs().max(b2.abs());
    rep.check("C06.reuse.aic_bic", hist, (a1 - a2).abs() <= il && (b1 - b2).abs() <= il, || ctx(json!({"aic": [jnum(a1), jnum(a2)], "bic": [jnum(b1), jnum(b2)], "absolute_limit": il})));
    // standard errors
    let sl = 2.0 * lims.cov + if pr.fam.has_dispersion() { dl } else { 0.0 };
    let worst = if se_re.len() == p && se_fr.len() == p { (0..p).map(|j| rel_err(se_re[j], se_fr[j])).fold(0.0, f64::max) } else { f64::INFINITY };
    rep.note_max("worst_ratio.reuse_stderr_over_limit", worst / sl);
    rep.check("C06.reuse.stderr", hist, worst <= sl, || ctx(json!({"stderr_reused_object": jf(&se_re), "stderr_fresh_object": jf(&se_fr), "worst_relative_diff": jnum(worst), "limit": sl})));
    // predictions on the training design (with the offsets the model holds)
    let mut worst = if pred_re.len() == n && pred_fr.len() == n { 0.0f64 } else { f64::INFINITY };
    let mut at = 0;
    if worst == 0.0 {
        for i in 0..n {
            let l1: f64 = pr.x[i * p..(i + 1) * p].iter().map(|v| v.abs()).sum();
            let lim = mu_shift_bound(pr.fam, fev.mu[i], l1 * lims.coef) + 16.0 * fev.mu_bound[i] + f64::MIN_POSITIVE;
            let r = (pred_re[i] - pred_fr[i]).abs() / lim;
            let r = if r.is_nan() { f64::INFINITY } else { r };
            if r > worst {
                worst = r;
                at = i;
            }
        }
    }
    rep.note_max("worst_ratio.reuse_predict_over_limit", worst);
    rep.check("C06.reuse.predict", hist, worst <= 1.0, || ctx(json!({"row": at, "predict_reused_object": pred_re.get(at).map(|v| jnum(*v)), "predict_fresh_object": pred_fr.get(at).map(|v| jnum(*v)), "diff_over_limit": jnum(worst)})));
}

const CHANGES: [&str; 8] = ["retry", "retry", "retry+set_tolerance", "data", "data+n", "weights", "offsets+data", "penalty|tolerance"];

fn reuse_case(i: usize, small: bool, rng: &mut Rng, rep: &mut Report) {
    let mode = i % 9;
    let q = i / 9;
    let fam = FAMS[q % 6];
    let alpha = ALPHAS[(q / 6) % 4];
    let tol = TOLS[rng.usize(0, 3)];
    // weights are what a history is most likely to lose: imposed in two thirds of the cases
    let force_w = [Some("random"), Some("integer"), None][(q % 6 + q / 6) % 3];
    let p1 = match gen_problem_opt(rng, fam, alpha, tol, small, force_w, None) {
        Some(pr) => pr,
        None => {
            rep.seen("excluded:no-mle-established-by-reference-fit", 1);
            return;
        }
    };
    let mut glm = match guard(|| new_model(&p1)) {
        Ok(g) => g,
        Err(msg) => {
            rep.check("C06.fit.no_panic", fam.name(), false, || json!({"problem": p1.json(), "panic": msg, "note": "while configuring a new model"}));
            return;
        }
    };
    if mode == 8 {
        // the caller has put coefficients into the model (public setter) before fitting it
        let scale = *rng.choose(&[1.0, 30.0, 1e-3]);
        let preset: Vec<f64> = (0..p1.p).map(|_| scale * rng.range(-1.5, 1.5)).collect();
        glm.set_coef(&preset);
        let (r, it) = fit_on(&mut glm, &p1, MAX_ITER);
        let history = || json!({"setters_called_before_final_fit": ["set_coef"], "set_coef": jf(&preset), "final_fit_max_iter": MAX_ITER});
        judge_reuse(rep, "refit:after-set-coef", "set_coef", &p1, &glm, r, it, &history);
        return;
    }
    // ---- first fit: too small a budget (modes 0..2) or a generous one
    let first_budget = if mode <= 2 { rng.usize(1, 3) } else { MAX_ITER };
    let (r1, it1) = fit_on(&mut glm, &p1, first_budget);
    let hist = match &r1 {
        Err(msg) => {
            rep.check("C06.fit.no_panic", fam.name(), false, || json!({"problem": p1.json(), "max_iter": first_budget, "panic": msg}));
            return;
        }
        Ok(true) => "refit:after-ok",
        Ok(false) => "refit:after-err",
    };
    // ---- what the caller does next
    let mut change = CHANGES[mode];
    let p2: Option<Prob> = match mode {
        0 | 1 => Some(p1.clone()),
        2 => {
            // loosen or tighten the tolerance, then retry
            let mut q2 = p1.clone();
            q2.tol = *rng.choose(&TOLS.iter().copied().filter(|t| *t != p1.tol).collect::<Vec<_>>());
            Some(q2)
        }
        3 | 6 => {
            // new responses and design of the same length; the model keeps its weights (and, mode 3, its offsets)
            let mut found = None;
            for _ in 0..6 {
                let p = rng.usize(1, 6);
                let design = if p == 1 { "intercept-only" } else { *rng.choose(&["normal", "polynomial", "indicator"]) };
                let given_off = if mode == 3 { Some(&p1.off) } else { None };
                if let Some(pr) = try_build(rng, fam, p1.n, p, design, p1.wkind, true, Some(&p1.w), given_off, alpha, tol) {
                    found = Some(pr);
                    break;
                }
            }
            found
        }
        4 => {
            // another number of rows: weights / offsets the model holds must be replaced, others may be added
            let fw = if p1.w.is_some() { Some(*rng.choose(&["random", "integer"])) } else { None };
            let fo = if p1.off.is_some() { Some(true) } else { None };
            let mut found = None;
            for _ in 0..4 {
                match gen_problem_opt(rng, fam, alpha, tol, small, fw, fo) {
                    Some(pr) if pr.n != p1.n => {
                        found = Some(pr);
                        break;
                    }
                    _ => {}
                }
            }
            found
        }
        5 => {
            let mut found = None;
            for _ in 0..4 {
                let mut q2 = p1.clone();
                q2.wkind = *rng.choose(&["random", "integer"]);
                q2.w = draw_weights(rng, q2.wkind, q2.n);
                if mle_established(&q2) {
                    found = Some(q2);
                    break;
                }
            }
            found
        }
        _ => {
            let mut q2 = p1.clone();
            if q % 2 == 0 {
                change = "penalty";
                q2.alpha = *rng.choose(&ALPHAS.iter().copied().filter(|a| *a != p1.alpha).collect::<Vec<_>>());
            } else {
                change = "tolerance";
                q2.tol = *rng.choose(&TOLS.iter().copied().filter(|t| *t != p1.tol).collect::<Vec<_>>());
            }
            if mle_established(&q2) {
                Some(q2)
            } else {
                None
            }
        }
    };
    let p2 = match p2 {
        Some(pr) => pr,
        None => {
            rep.seen("excluded:no-mle-established-by-reference-fit", 1);
            return;
        }
    };
    let setters = match guard(|| apply_change(&mut glm, &p1, &p2)) {
        Ok(s) => s,
        Err(msg) => {
            rep.check("C06.fit.no_panic", hist, false, || json!({"problem": p2.json(), "panic": msg, "note": "in a setter"}));
            return;
        }
    };
    let (r2, it2) = fit_on(&mut glm, &p2, MAX_ITER);
    let history = || {
        json!({"first_fit": {"problem": if mode <= 2 || mode == 5 || mode == 7 { json!({"same_data_as_final_problem": true, "alpha": p1.alpha, "tolerance": p1.tol, "weights": p1.w.as_ref().map(|w| jf(w)), "offsets": p1.off.as_ref().map(|o| jf(o))}) } else { p1.json() },
                             "max_iter": first_budget, "returned": if matches!(r1, Ok(true)) { "Ok" } else { "Err" }, "iterations": it1},
               "setters_called_before_final_fit": setters, "final_fit_max_iter": MAX_ITER})
    };
    judge_reuse(rep, hist, change, &p2, &glm, r2, it2, &history);
    rep.sample(|| json!({"history": hist, "change": change, "family": fam.name(), "n": p2.n, "p": p2.p, "alpha": p2.alpha, "tolerance": p2.tol, "weights": p2.wkind, "offsets": p2.off.is_some(),
                         "first_fit_max_iter": first_budget, "first_fit_iterations": it1, "final_fit_iterations": it2, "setters": setters}));
}


// ---------------------------------------------------------------------------------------------
// non-integer responses (stream 4)
//
// "The reported deviance is the family's deviance at the fitted means": the (quasi-)Poisson and gamma
// deviances are defined for every non-negative (positive) real response, and the two standard uses of
// the quasi family have such responses: rates y = events / exposure with prior weights = exposure (the
// textbook equivalent of counts with offset ln(exposure)), and count-like data on another scale
// (φ·Poisson(μ/φ): E y = μ, Var y = φ μ exactly, under-dispersed for φ < 1, with values strictly between
// 0 and 1). Integer counts never reach the part of the unit deviance between 0 and 1.
// Oracle: the whole single-fit oracle (textbook unit deviance) under regimes `fractional:*`, and three
// textbook equivalences, each against a fit whose responses are ordinary:
//   rate y=c/e, weights e            ≡ counts c, offset +ln e : same β, same deviance, same I (so same
//                                      unit-dispersion SE; for the quasi family SE/sqrt(dispersion))
//   quasi-Poisson on y = φ z, α       ≡ on the counts z, α/φ   : slopes equal, intercept + ln φ, deviance × φ,
//                                      dispersion × φ, SE equal
//   gamma / exponential on y = s z   ≡ on z                   : slopes equal, intercept + ln s, deviance,
//                                      dispersion and SE equal
// The two fits of a pair converge separately, so they are compared within the sum of their convergence-scaled limits.

/// move the violations of a scratch report into `rep` under one regime of the new family
fn merge_relabel(rep: &mut Report, mut scratch: Report, regime: &str) {
    let vs = std::mem::take(&mut scratch.violations);
    rep.merge(scratch);
    for (_, mut v) in vs {
        if let Value::Object(m) = &mut v.first {
            m.insert("single_fit_regime".into(), json!(v.regime));
        }
        v.regime = regime.to_string();
        let key = format!("{}|{}", v.assertion, v.regime);
        match rep.violations.get_mut(&key) {
            Some(e) => e.count += v.count,
            None => {
                rep.violations.insert(key, v);
            }
        }
    }
}

struct Fitted {
    glm: GLM,
    coef: Vec<f64>,
    ev: Eval,
    lims: Limits,
}

/// fit `pr` on a fresh model and run the single-fit oracle; its violations are signed `|regime` if given
fn fit_and_check(rep: &mut Report, pr: &Prob, relabel: Option<&str>) -> Option<Fitted> {
    let fit = lib_fit(pr, MAX_ITER);
    let fam = pr.fam.name();
    let regime = relabel.unwrap_or(fam);
    match (fit.outcome, fit.glm) {
        (Err(msg), _) => {
            rep.check("C06.fit.no_panic", regime, false, || json!({"problem": pr.json(), "panic": msg}));
            None
        }
        (Ok(false), _) => {
            rep.check("C06.fit.no_panic", regime, true, || json!(null));
            rep.seen("fractional:fit-returned-err", 1);
            None
        }
        (Ok(true), Some(glm)) => {
            rep.check("C06.fit.no_panic", regime, true, || json!(null));
            let mut scratch = Report::new();
            scratch.case_seed = rep.case_seed;
            let r = check_success(&mut scratch, pr, &glm, fit.iters);
            match relabel {
                Some(rg) => merge_relabel(rep, scratch, rg),
                None => rep.merge(scratch),
            }
            r.map(|(coef, ev, lims)| Fitted { glm, coef, ev, lims })
        }
        _ => None,
    }
}

fn stderr_of(g: &GLM) -> Vec<f64> {
    guard(|| g.coef_standard_error().map(|v| v.to_vec()).unwrap_or_default()).unwrap_or_default()
}

/// `a` (the fit with fractional responses) against its ordinary twin `b`: β_a = β_b + shift·e₀,
/// D_a = dev_factor·D_b, SE_a/sqrt(φ_a)·se_norm = SE_b/sqrt(φ_b)·se_norm (se_norm: compare SE / sqrt(dispersion)
/// instead of SE, for pairs whose residual degrees of freedom are counted differently)
#[allow(clippy::too_many_arguments)]
fn compare_equivalent(rep: &mut Report, regime: &str, relation: &str, pa: &Prob, a: &Fitted, pb: &Prob, b: &Fitted, shift: f64, dev_factor: f64, se_normalised: bool) {
    compare_equivalent_se(rep, regime, relation, pa, a, pb, b, shift, dev_factor, se_normalised, 1.0)
}

/// non-integer weights that sum to no more than p: the library's dispersion is not judged (see `check_success`)
fn dispersion_judged(pr: &Prob) -> bool {
    let sum_w: f64 = (0..pr.n).map(|i| pr.wi(i)).sum();
    let all_integer = pr.w.as_ref().map(|w| w.iter().all(|v| v.fract() == 0.0)).unwrap_or(true);
    !pr.fam.has_dispersion() || all_integer || (sum_w * (1.0 - 1e-12)).round() > pr.p as f64
}

/// as `compare_equivalent`, with SE_a (after the normalisation, if any) = se_factor · SE_b
#[allow(clippy::too_many_arguments)]
fn compare_equivalent_se(rep: &mut Report, regime: &str, relation: &str, pa: &Prob, a: &Fitted, pb: &Prob, b: &Fitted, shift: f64, dev_factor: f64, se_normalised: bool, se_factor: f64) {
    rep.seen(&format!("{}:compared", regime), 1);
    let p = pa.p;
    let ctx = |extra: Value| json!({"relation": relation, "problem_fractional": pa.json(), "problem_twin": pb.json(), "coef_fractional": jf(&a.coef), "coef_twin": jf(&b.coef), "detail": extra});
    let lim = a.lims.coef + b.lims.coef + 8.0 * EPS * shift.abs();
    let mut err = 0.0f64;
    for j in 0..p {
        let e = (a.coef[j] - (b.coef[j] + if j == 0 { shift } else { 0.0 })).abs();
        err = if e.is_nan() { f64::INFINITY } else { err.max(e) };
    }
    rep.note_max("worst_ratio.equivalence_coef_over_limit", err / lim);
    rep.check("C06.equivalence.coef", regime, err <= lim, || ctx(json!({"intercept_shift_expected": shift, "max_abs_diff": jnum(err), "limit": lim})));
    let (da, db) = (a.glm.deviance().unwrap_or(f64::NAN), b.glm.deviance().unwrap_or(f64::NAN));
    let dl = 3.0 * (a.lims.dev * (1.0f64).max(1.0 / a.ev.dev.max(f64::MIN_POSITIVE)) + b.lims.dev * (1.0f64).max(1.0 / b.ev.dev.max(f64::MIN_POSITIVE)));
    let e = rel_err(da, dev_factor * db);
    rep.note_max("worst_ratio.equivalence_deviance_over_limit", e / dl);
    rep.check("C06.equivalence.deviance", regime, e <= dl, || ctx(json!({"deviance_fractional": jnum(da), "deviance_twin": jnum(db), "expected_factor": dev_factor, "relative_error": jnum(e), "relative_limit": dl})));
    if !(dispersion_judged(pa) && dispersion_judged(pb)) {
        rep.seen(&format!("{}:stderr-not-compared(dispersion not judged)", regime), 1);
        return;
    }
    let (sa, sb) = (stderr_of(&a.glm), stderr_of(&b.glm));
    if sa.len() == p && sb.len() == p {
        let (fa, fb) = if se_normalised { (a.glm.dispersion().unwrap_or(f64::NAN).sqrt(), b.glm.dispersion().unwrap_or(f64::NAN).sqrt()) } else { (1.0, 1.0) };
        let sl = 2.0 * (a.lims.cov + b.lims.cov) + if pa.fam.has_dispersion() && !se_normalised { dl } else { 0.0 };
        let worst = (0..p).map(|j| rel_err(sa[j] / fa, se_factor * sb[j] / fb)).fold(0.0, f64::max);
        rep.note_max("worst_ratio.equivalence_stderr_over_limit", worst / sl);
        rep.check("C06.equivalence.stderr", regime, worst <= sl, || ctx(json!({"stderr_fractional": jf(&sa), "stderr_twin": jf(&sb), "divided_by_sqrt_dispersion": se_normalised, "expected_factor": se_factor, "worst_relative_diff": jnum(worst), "limit": sl})));
    } else {
        rep.check("C06.accessors.available", regime, false, || ctx(json!({"stderr_lengths": [sa.len(), sb.len()]})));
    }
    if !se_normalised && pa.fam.has_dispersion() {
        let (fa, fb) = (a.glm.dispersion().unwrap_or(f64::NAN), b.glm.dispersion().unwrap_or(f64::NAN));
        rep.check("C06.equivalence.dispersion", regime, rel_err(fa, dev_factor * fb) <= dl + 8.0 * EPS, || ctx(json!({"dispersion_fractional": jnum(fa), "dispersion_twin": jnum(fb), "expected_factor": dev_factor, "relative_limit": dl})));
    }
}

const FRACTIONAL: [&str; 5] = ["rate:poisson", "rate:quasipoisson", "scaled-counts:quasipoisson", "small-positive:gamma", "small-positive:exponential"];

fn fractional_case(i: usize, small: bool, rng: &mut Rng, rep: &mut Report) {
    let kind = FRACTIONAL[i % 5];
    let alpha = ALPHAS[(i / 5) % 4];
    let tol = TOLS[(i / 20) % 4];
    let regime = format!("fractional:{}", kind);
    let fam = match kind {
        "rate:poisson" => Fam::Poisson,
        "small-positive:gamma" => Fam::Gamma,
        "small-positive:exponential" => Fam::Exponential,
        _ => Fam::QuasiPoisson,
    };
    // ---- the pair (fractional problem, ordinary twin)
    let mut pair: Option<(Prob, Prob, f64, f64, bool, &'static str)> = None;
    for _attempt in 0..6 {
        let n = if small { rng.usize(20, 24) } else { rng.log_range(20.0, 300.99).floor() as usize };
        let p = if small { 2 } else { rng.usize(1, 5) };
        let design = if p == 1 { "intercept-only" } else { *rng.choose(&["normal", "polynomial", "indicator"]) };
        let Some(x) = gen_design(rng, design, n, p) else { continue };
        let mut beta: Vec<f64> = (0..p).map(|_| rng.range(-1.5, 1.5)).collect();
        let nb = beta[1..].iter().map(|b| b * b).sum::<f64>().sqrt();
        if nb > 1.5 {
            let r = 1.5 * rng.range(0.3, 1.0) / nb;
            beta[1..].iter_mut().for_each(|b| *b *= r);
        }
        let off: Option<Vec<f64>> = if rng.chance(0.4) { Some((0..n).map(|_| rng.range(-0.5, 0.5)).collect()) } else { None };
        let lin = |beta: &[f64]| -> Vec<f64> { (0..n).map(|r| off.as_ref().map(|o| o[r]).unwrap_or(0.0) + (0..p).map(|j| x[r * p + j] * beta[j]).sum::<f64>()).collect() };
        let built = match kind {
            "rate:poisson" | "rate:quasipoisson" => {
                // events per unit of exposure; mean rates around and below one
                beta[0] = rng.range(-1.5, 0.5);
                let eta = lin(&beta);
                let integer = rng.chance(0.67);
                let e: Vec<f64> = (0..n).map(|_| if integer { rng.int(1, 12) as f64 } else { rng.range(0.5, 8.0) }).collect();
                let k = rng.range(2.0, 10.0);
                let counts: Vec<f64> = (0..n).map(|r| { let g = if fam == Fam::QuasiPoisson { rng.gamma(k) / k } else { 1.0 }; rng.poisson(e[r] * eta[r].exp() * g) }).collect();
                let y: Vec<f64> = (0..n).map(|r| counts[r] / e[r]).collect();
                let off_counts: Vec<f64> = (0..n).map(|r| off.as_ref().map(|o| o[r]).unwrap_or(0.0) + e[r].ln()).collect();
                let wkind = if integer { "integer" } else { "random" };
                let a = Prob { fam, n, p, x: x.clone(), y, w: Some(e), off: off.clone(), alpha, tol, design, wkind };
                let b = Prob { fam, n, p, x: x.clone(), y: counts, w: None, off: Some(off_counts), alpha, tol, design, wkind: "none" };
                // residual degrees of freedom are counted from the weight sum in one and from the rows in the other
                (a, b, 0.0, 1.0, fam.has_dispersion(), "rate y = c/e with weights e  ==  counts c with offset + ln e")
            }
            "scaled-counts:quasipoisson" => {
                beta[0] = rng.range(-1.0, 1.5);
                let eta = lin(&beta);
                let phi = if rng.chance(0.75) { rng.log_range(0.05, 0.9) } else { rng.range(1.1, 3.0) };
                let z: Vec<f64> = eta.iter().map(|e| rng.poisson(e.exp() / phi)).collect();
                let y: Vec<f64> = z.iter().map(|v| phi * v).collect();
                let wkind = *rng.choose(&["none", "none", "integer", "random"]);
                let w = draw_weights(rng, wkind, n);
                let a = Prob { fam, n, p, x: x.clone(), y, w: w.clone(), off: off.clone(), alpha, tol, design, wkind };
                // the quasi-likelihood of y = phi z is phi times that of z, the ridge term is not scaled: strength alpha / phi for the twin
                let b = Prob { fam, n, p, x: x.clone(), y: z, w, off: off.clone(), alpha: alpha / phi, tol, design, wkind };
                (a, b, phi.ln(), phi, false, "quasi-Poisson on y = phi*z with strength alpha  ==  on the counts z with strength alpha/phi: intercept + ln phi, deviance and dispersion * phi, same standard errors")
            }
            _ => {
                // positive responses far below one
                beta[0] = rng.range(-6.0, -1.5);
                let eta = lin(&beta);
                let y = simulate(rng, fam, &eta);
                let s = (2.0f64).powi(rng.int(4, 14) as i32);
                let z: Vec<f64> = y.iter().map(|v| v * s).collect();
                let wkind = *rng.choose(&["none", "none", "integer", "random"]);
                let w = draw_weights(rng, wkind, n);
                let a = Prob { fam, n, p, x: x.clone(), y, w: w.clone(), off: off.clone(), alpha, tol, design, wkind };
                let b = Prob { fam, n, p, x: x.clone(), y: z, w, off: off.clone(), alpha, tol, design, wkind };
                (a, b, -s.ln(), 1.0, false, "gamma / exponential on y  ==  on s*y (s a power of two): intercept - ln s, same deviance, dispersion and standard errors")
            }
        };
        if mle_established(&built.0) && mle_established(&built.1) {
            pair = Some(built);
            break;
        }
    }
    let Some((pa, pb, shift, dev_factor, se_norm, relation)) = pair else {
        rep.seen("excluded:no-mle-established-by-reference-fit", 1);
        return;
    };
    rep.case(&regime);
    let below_one = pa.y.iter().filter(|v| **v > 0.0 && **v < 1.0).count();
    let non_integer = pa.y.iter().filter(|v| v.fract() != 0.0).count();
    if below_one > 0 {
        rep.seen("fractional:responses-in-(0,1)", 1);
    }
    rep.seen(&format!("fractional:w={}", pa.wkind), 1);
    rep.seen(&format!("fractional:alpha={}", alpha), 1);
    rep.distinct(Hasher::new().s(&regime).u(pa.n as u64).u(pa.p as u64).f(alpha).f(tol).s(pa.wkind).fs(&pa.y[..4]).finish(), pa.p >= 2 && non_integer > 0);
    let a = fit_and_check(rep, &pa, Some(&regime));
    // the twin is an ordinary problem of the main workload's kind: its findings keep their single-fit signature
    let b = fit_and_check(rep, &pb, None);
    if let (Some(a), Some(b)) = (&a, &b) {
        compare_equivalent(rep, &regime, relation, &pa, a, &pb, b, shift, dev_factor, se_norm);
        rep.sample(|| json!({"family": fam.name(), "kind": kind, "n": pa.n, "p": pa.p, "alpha": alpha, "tolerance": tol, "weights": pa.wkind, "responses_in_(0,1)": below_one, "non_integer_responses": non_integer,
                             "deviance_fractional": jnum(a.glm.deviance().unwrap_or(f64::NAN)), "deviance_twin": jnum(b.glm.deviance().unwrap_or(f64::NAN)), "expected_factor": dev_factor}));
    }
}

// ---------------------------------------------------------------------------------------------
// configuration routes (stream 5)
//
// "for the given design, weights and offsets ... with the configured strength": `family`, `alpha`,
// `tolerance` and `weights` are public fields of `GLM` next to the setters `set_penalty`, `set_tolerance`,
// `set_weights`; a model is also `Clone`. Every route the public API offers to the same configuration must
// give the same fit and the same inference. Each route is judged like an object history: the whole
// single-fit oracle on the route's object, and a comparison with the twin configured by the setters alone
// (`judge_reuse`: what only the route's object fails is signed `assertion|route:*`).

const ROUTES: [&str; 6] = ["route:public-fields", "route:fields-over-setters", "route:setters-over-fields", "route:family-field", "route:clone", "route:fields-between-fits"];

/// a configuration that differs from `pr`'s in everything a route may overwrite (same shapes)
fn other_config(rng: &mut Rng, pr: &Prob) -> (f64, f64, Option<Vec<f64>>) {
    let alpha = *rng.choose(&ALPHAS.iter().copied().filter(|a| *a != pr.alpha).collect::<Vec<_>>());
    let tol = *rng.choose(&TOLS.iter().copied().filter(|t| *t != pr.tol).collect::<Vec<_>>());
    // other weights of the same length with another sum; also when the final configuration has none
    let w: Vec<f64> = if rng.bool() { (0..pr.n).map(|_| rng.int(2, 6) as f64).collect() } else { (0..pr.n).map(|_| rng.range(1.5, 4.0)).collect() };
    (alpha, tol, if pr.w.is_some() || rng.chance(0.7) { Some(w) } else { None })
}

fn route_case(i: usize, small: bool, rng: &mut Rng, rep: &mut Report) {
    let route = ROUTES[i % ROUTES.len()];
    let q = i / ROUTES.len();
    let fam = FAMS[q % 6];
    let alpha = ALPHAS[(q / 6) % 4];
    let tol = TOLS[rng.usize(0, 3)];
    // weights are what a route is most likely to lose: imposed in two thirds of the cases
    let force_w = [Some("integer"), Some("random"), None][(q % 6 + q / 6) % 3];
    let pr = match gen_problem_opt(rng, fam, alpha, tol, small, force_w, None) {
        Some(pr) => pr,
        None => {
            rep.seen("excluded:no-mle-established-by-reference-fit", 1);
            return;
        }
    };
    let (oa, ot, ow) = other_config(rng, &pr);
    let other_fam = FAMS[(q % 6 + rng.usize(1, 5)) % 6];
    let mut steps: Vec<&'static str> = Vec::new();
    let mut first: Option<(Result<bool, String>, u64)> = None;
    let built = guard(|| {
        let mut glm = GLM::new(if route == "route:family-field" { other_fam.lib() } else { pr.fam.lib() });
        let by_setters = |glm: &mut GLM, a: f64, t: f64, w: &Option<Vec<f64>>, steps: &mut Vec<&'static str>| {
            glm.set_penalty(a).set_tolerance(t);
            steps.push("set_penalty");
            steps.push("set_tolerance");
            if let Some(w) = w {
                glm.set_weights(w);
                steps.push("set_weights");
            }
        };
        let by_fields = |glm: &mut GLM, a: f64, t: f64, w: &Option<Vec<f64>>, steps: &mut Vec<&'static str>| {
            glm.alpha = a;
            glm.tolerance = t;
            glm.weights = w.clone();
            steps.push("alpha =");
            steps.push("tolerance =");
            steps.push(if w.is_some() { "weights = Some(..)" } else { "weights = None" });
        };
        match route {
            "route:public-fields" => by_fields(&mut glm, pr.alpha, pr.tol, &pr.w, &mut steps),
            "route:fields-over-setters" => {
                by_setters(&mut glm, oa, ot, &ow, &mut steps);
                by_fields(&mut glm, pr.alpha, pr.tol, &pr.w, &mut steps);
            }
            "route:setters-over-fields" => {
                by_fields(&mut glm, oa, ot, &ow, &mut steps);
                by_setters(&mut glm, pr.alpha, pr.tol, &pr.w, &mut steps);
                if pr.w.is_none() {
                    glm.weights = None; // there is no setter that removes weights
                    steps.push("weights = None");
                }
            }
            "route:family-field" => {
                by_setters(&mut glm, pr.alpha, pr.tol, &pr.w, &mut steps);
                glm.family = pr.fam.lib();
                steps.push("family =");
            }
            "route:clone" => by_setters(&mut glm, pr.alpha, pr.tol, &pr.w, &mut steps),
            _ => {
                // a first fit under another configuration (through the setters), then the fields are re-assigned
                by_setters(&mut glm, oa, ot, &ow, &mut steps);
            }
        }
        if let Some(o) = &pr.off {
            glm.set_offset(o);
            steps.push("set_offset");
        }
        if route == "route:clone" {
            let c = glm.clone();
            steps.push("clone()");
            return c;
        }
        if route == "route:fields-between-fits" {
            first = Some(fit_on(&mut glm, &pr, MAX_ITER));
            steps.push("fit");
            by_fields(&mut glm, pr.alpha, pr.tol, &pr.w, &mut steps);
        }
        glm
    });
    let mut glm = match built {
        Ok(g) => g,
        Err(msg) => {
            rep.check("C06.fit.no_panic", route, false, || json!({"problem": pr.json(), "panic": msg, "note": "while configuring the model", "steps": steps}));
            return;
        }
    };
    if let Some((Err(msg), _)) = &first {
        // the first fit ran under the other configuration; a panic there is a single-fit matter
        rep.check("C06.fit.no_panic", fam.name(), false, || json!({"problem": pr.json(), "alpha": oa, "tolerance": ot, "weights": ow.as_ref().map(|w| jf(w)), "panic": msg}));
        return;
    }
    let (r, it) = fit_on(&mut glm, &pr, MAX_ITER);
    let history = || {
        json!({"configuration_route": route, "steps_before_final_fit": steps, "other_configuration_overwritten": {"alpha": oa, "tolerance": ot, "weights": ow.as_ref().map(|w| jf(w))},
               "family_at_construction": if route == "route:family-field" { other_fam.name() } else { pr.fam.name() }, "twin": "GLM::new(family) configured by set_penalty / set_tolerance / set_weights / set_offset only"})
    };
    rep.seen(&format!("route:w={}", pr.wkind), 1);
    rep.seen(&format!("route:{}", fam.name()), 1);
    judge_reuse(rep, route, &route[6..], &pr, &glm, r, it, &history);
}


// ---------------------------------------------------------------------------------------------
// structured weight vectors and weight relations (stream 6)
//
// "for the given design, weights and offsets": the weights people give are rarely a generic random vector.
// Inverse-variance weights with a common sigma are a CONSTANT vector c·1 (c anywhere in 1e-6..1e6), "every row
// counted k times" is a constant integer, two measurement campaigns give a two-valued vector, masked rows
// have weight exactly zero. A case is a pair: the base problem B (structured weights w0 of ordinary size,
// strength a0) for which the MLE is established, and A = (c·w0, c·a0) — the same penalised likelihood
// multiplied by c, with c·a0 again one of the quantifier's strengths (a0 = 0: any c in 1e-6..1e6; otherwise
// c in {0.01, 0.1, 10, 100} as far as the product stays in {0.1, 1, 10}).
// Oracle: the whole single-fit oracle on A and on B (textbook weighted deviance; dispersion, standard errors
// and BIC by value whenever the weights are integer-valued, n = weight sum), signed `|weights:<structure>:<integer|real>`,
// and three textbook relations within the sum of the two fits' convergence-scaled limits:
//   rescaling       A = (c·w0, c·a0) vs B = (w0, a0): same coefficients, deviance × c, inverse information / c
//                   (standard errors / sqrt(dispersion) × 1/sqrt(c); for unit-dispersion families the standard errors themselves)
//   replication     integer-valued weights (zeros: row absent) vs the rows written out, for weight sums <= 1500:
//                   same coefficients, deviance, dispersion, standard errors
//   dropping        rows of weight zero vs the data set without them (kept weights unchanged): the same
// A constant vector c·1 is thus compared with explicit unit weights (rescaling) and, for integer c, with
// every row written c times (replication).

const WSTRUCT: [&str; 4] = ["constant", "two-valued", "zeros", "generic"];

fn structured_base_weights(rng: &mut Rng, structure: &str, integer: bool, n: usize) -> Vec<f64> {
    let generic = |rng: &mut Rng| if integer { rng.int(1, 3) as f64 } else { rng.range(0.5, 3.0) };
    let mut w: Vec<f64> = match structure {
        "constant" => vec![1.0; n],
        "two-valued" => {
            let (a, b) = if integer { *rng.choose(&[(1.0, 2.0), (1.0, 3.0), (2.0, 5.0), (1.0, 10.0)]) } else { (rng.range(0.2, 1.0), rng.range(1.0, 5.0)) };
            let q = rng.range(0.2, 0.8);
            let mut w: Vec<f64> = (0..n).map(|_| if rng.chance(q) { a } else { b }).collect();
            w[0] = a;
            w[1] = b;
            w
        }
        "zeros" => {
            let q = rng.range(0.1, 0.4);
            let mut w: Vec<f64> = (0..n).map(|_| if rng.chance(q) { 0.0 } else { generic(rng) }).collect();
            w[0] = 0.0;
            w[1] = generic(rng);
            w
        }
        _ => (0..n).map(|_| generic(rng)).collect(),
    };
    rng.shuffle(&mut w);
    w
}

impl Prob {
    fn weights_all_integer(&self) -> bool {
        self.w.as_ref().map(|w| w.iter().all(|v| v.fract() == 0.0)).unwrap_or(true)
    }
    fn weight_sum(&self) -> f64 {
        (0..self.n).map(|i| self.wi(i)).sum()
    }
    /// the data set without its rows of weight zero (the other weights kept)
    fn without_zero_weight_rows(&self) -> Prob {
        let w = self.w.as_ref().unwrap();
        let mut q = self.clone();
        q.x.clear();
        q.y.clear();
        let (mut w2, mut off) = (Vec::new(), Vec::new());
        for i in 0..self.n {
            if w[i] != 0.0 {
                q.x.extend_from_slice(&self.x[i * self.p..(i + 1) * self.p]);
                q.y.push(self.y[i]);
                w2.push(w[i]);
                if let Some(o) = &self.off {
                    off.push(o[i]);
                }
            }
        }
        q.n = q.y.len();
        q.w = Some(w2);
        q.off = self.off.as_ref().map(|_| off);
        q
    }
}

fn weights_case(i: usize, small: bool, rng: &mut Rng, rep: &mut Report) {
    let structure = WSTRUCT[i % 4];
    let integer = (i / 4) % 2 == 0;
    let fam = FAMS[(i / 8) % 6];
    // half of the cases unpenalised (any factor c), the others with a pair of strengths from the quantifier
    let alpha0 = [0.0, 0.1, 0.0, 1.0, 0.0, 10.0][(i / 48) % 6];
    let tol = TOLS[(i / 8 + i / 48) % 4];
    let c: f64 = if alpha0 == 0.0 {
        if integer {
            *rng.choose(&[2.0, 3.0, 4.0, 5.0, 7.0, 10.0, 100.0, 1000.0, 1e6])
        } else {
            rng.log_range(1e-6, 1e6)
        }
    } else if alpha0 == 0.1 {
        *rng.choose(&[10.0, 100.0])
    } else if alpha0 == 1.0 {
        *rng.choose(&[0.1, 10.0])
    } else {
        *rng.choose(&[0.1, 0.01])
    };
    let alpha_a = if alpha0 == 0.0 { 0.0 } else { *ALPHAS.iter().min_by(|a, b| (*a - c * alpha0).abs().partial_cmp(&(*b - c * alpha0).abs()).unwrap()).unwrap() };
    // ---- the base problem (weights of ordinary size): the MLE is established for it
    let mut base: Option<Prob> = None;
    for _attempt in 0..6 {
        let lo = if structure == "zeros" { 40.0 } else { 20.0 };
        let n = if small { lo as usize + rng.usize(0, 4) } else { rng.log_range(lo, 500.99).floor() as usize };
        let p = if small { 2 } else { rng.usize(1, 6) };
        let design = if p == 1 { "intercept-only" } else { *rng.choose(&["normal", "polynomial", "indicator"]) };
        let w0 = Some(structured_base_weights(rng, structure, integer, n));
        let with_off = rng.chance(0.3);
        if let Some(pr) = try_build(rng, fam, n, p, design, "structured", with_off, Some(&w0), None, alpha0, tol) {
            base = Some(pr);
            break;
        }
    }
    let Some(pb) = base else {
        rep.seen("excluded:no-mle-established-by-reference-fit", 1);
        return;
    };
    let mut pa = pb.clone();
    pa.w = Some(pb.w.as_ref().unwrap().iter().map(|v| c * v).collect());
    pa.alpha = alpha_a;
    let regime = format!("weights:{}:{}", structure, if pa.weights_all_integer() { "integer" } else { "real" });
    rep.case(&regime);
    rep.seen(&format!("weights:{}", fam.name()), 1);
    rep.seen(&format!("weights:alpha={}", alpha_a), 1);
    let lc = c.log10();
    rep.seen(if lc < -3.0 { "weights:factor<1e-3" } else if lc < 0.0 { "weights:factor=1e-3..1" } else if lc <= 3.0 { "weights:factor=1..1e3" } else { "weights:factor>1e3" }, 1);
    rep.distinct(Hasher::new().s(&regime).s(fam.name()).u(pa.n as u64).u(pa.p as u64).f(alpha_a).f(tol).f(c).fs(&pa.y[..4]).fs(&pa.w.as_ref().unwrap()[..4]).finish(), pa.p >= 2);
    let a = fit_and_check(rep, &pa, Some(&regime));
    let b = fit_and_check(rep, &pb, Some(&regime));
    // ---- rescaling
    if let (Some(a), Some(b)) = (&a, &b) {
        rep.seen("weights:relation=rescaling:compared", 1);
        compare_equivalent_se(rep, &regime, "weights c*w with strength c*alpha  ==  weights w with strength alpha: same coefficients, deviance * c, standard errors / sqrt(dispersion) * 1/sqrt(c)",
            &pa, a, &pb, b, 0.0, c, fam.has_dispersion(), 1.0 / c.sqrt());
        rep.sample(|| json!({"family": fam.name(), "weights": regime, "factor": c, "n": pa.n, "p": pa.p, "alpha_scaled": alpha_a, "alpha_base": alpha0, "tolerance": tol,
                             "deviance_scaled_weights": jnum(a.glm.deviance().unwrap_or(f64::NAN)), "deviance_base_weights": jnum(b.glm.deviance().unwrap_or(f64::NAN))}));
    }
    // ---- replication: whichever of the two has integer-valued weights of moderate sum
    let pick = [(&pa, &a), (&pb, &b)].into_iter().find(|(q, f)| f.is_some() && q.weights_all_integer() && q.weight_sum() <= 1500.0 && q.weight_sum() > q.n as f64);
    if let Some((q, Some(fq))) = pick {
        let r = q.replicated();
        if let Some(fr) = fit_and_check(rep, &r, None) {
            rep.seen("weights:relation=replication:compared", 1);
            if q.w.as_ref().unwrap().windows(2).all(|v| v[0] == v[1]) {
                rep.seen("weights:relation=replication:constant-weights:compared", 1);
            }
            compare_equivalent_se(rep, &regime, "integer weights k  ==  the row written k times (k = 0: row absent), no weights: same coefficients, deviance, dispersion, standard errors", q, fq, &r, &fr, 0.0, 1.0, false, 1.0);
        }
    }
    // ---- rows of weight zero vs the data set without them
    if structure == "zeros" {
        if let Some(fa) = &a {
            let r = pa.without_zero_weight_rows();
            // signed with the family's regime: the twin is a member of it (its weights are the kept ones)
            if let Some(fr) = fit_and_check(rep, &r, Some(&regime)) {
                rep.seen("weights:relation=drop-zero-rows:compared", 1);
                // non-integer weights: the library's n is its rounded floating-point weight sum, which a tie (sum = k + 1/2)
                // resolves by summation order — n is not fixed by the property there, so the standard errors are compared
                // after division by sqrt(dispersion) and the dispersion itself is not compared
                let normalise = fam.has_dispersion() && !pa.weights_all_integer();
                compare_equivalent_se(rep, &regime, "rows of weight zero  ==  the data set without those rows (other weights kept): same coefficients, deviance, dispersion, standard errors", &pa, fa, &r, &fr, 0.0, 1.0, normalise, 1.0);
            }
        }
    }
}


// ---------------------------------------------------------------------------------------------
// configuration histories that return to the neutral value (stream 7)
//
// "for the given design, weights and offsets ... with the configured strength": what is given is what the model
// was LAST configured with. Every configurable part of a model has a neutral value — offsets of zero, weights
// of one (or `weights = None`), strength 0, the default tolerance 1e-5 — and the public API has no way to
// "unset" offsets other than `set_offset(&zeros)`: a caller who fitted a rate model with log-exposure offsets
// and wants the same object without them does exactly that. Histories, for each part in
// {offsets, weights, penalty, tolerance, family, max_iter}:
//   value -> neutral      a non-neutral value, then the neutral one, then the judged fit
//   neutral -> value      the reverse
//   A -> B                two different non-neutral values
//   same-again            the same non-neutral value given twice (family / max_iter: the same setting, fitted twice)
// each with and without a `fit` of the same data between the two steps (the first fit's result is not judged: its
// configuration is not the one the responses were simulated from). Judged like every reuse history by
// `judge_reuse`: the whole single-fit oracle against the FINAL configuration and the comparison with a fresh
// twin configured directly with the final setting (neutral values given explicitly: `set_offset(&zeros)`,
// `set_weights(&ones)`); what only the history's object fails is signed `assertion|history:<part>:<pattern>`.

const HPARTS: [&str; 6] = ["offsets", "weights", "penalty", "tolerance", "family", "max_iter"];
const HPATTERNS: [&str; 4] = ["value->neutral", "neutral->value", "A->B", "same-again"];

/// non-neutral offsets of the kinds users attach: noise around 0, log-exposure, a common shift
fn draw_offsets(rng: &mut Rng, n: usize) -> Vec<f64> {
    match rng.usize(0, 3) {
        0 => (0..n).map(|_| rng.range(-0.5, 0.5)).collect(),
        1 | 2 => (0..n).map(|_| (rng.int(1, 12) as f64).ln()).collect(),
        _ => {
            let c = rng.range(0.3, 1.5) * if rng.bool() { 1.0 } else { -1.0 };
            (0..n).map(|_| c + rng.range(-0.1, 0.1)).collect()
        }
    }
}

/// a family the responses of `fam` are admissible for (other than `fam` itself)
fn other_family_for(rng: &mut Rng, fam: Fam) -> Fam {
    match fam {
        Fam::Gaussian => Fam::Gaussian, // real responses: no other family takes them
        Fam::Bernoulli => *rng.choose(&[Fam::Gaussian, Fam::Poisson, Fam::QuasiPoisson]),
        Fam::Poisson => *rng.choose(&[Fam::Gaussian, Fam::QuasiPoisson]),
        Fam::QuasiPoisson => *rng.choose(&[Fam::Gaussian, Fam::Poisson]),
        Fam::Gamma => *rng.choose(&[Fam::Gaussian, Fam::Exponential]),
        Fam::Exponential => *rng.choose(&[Fam::Gaussian, Fam::Gamma]),
    }
}

fn history_case(i: usize, small: bool, rng: &mut Rng, rep: &mut Report) {
    let part = HPARTS[i % 6];
    let pattern = HPATTERNS[(i / 6) % 4];
    let refit_between = (i / 24) % 2 == 0;
    let q = i / 48;
    let fam = FAMS[(q + i % 6) % 6];
    let tol_final = TOLS[rng.usize(0, 3)];
    let alpha_final = ALPHAS[rng.usize(0, 3)];
    // patterns that do not exist for a part: family and max_iter have no neutral value
    let pattern = if (part == "family" || part == "max_iter") && pattern.contains("neutral") { if pattern == "value->neutral" { "A->B" } else { "same-again" } } else { pattern };
    if part == "family" && fam == Fam::Gaussian && pattern == "A->B" {
        rep.seen("history:skipped(no other family admits real responses)", 1);
        return;
    }
    let neutral_final = pattern == "value->neutral";
    // ---- the final problem: responses simulated from the final configuration, MLE established
    let mut fin: Option<Prob> = None;
    for _attempt in 0..6 {
        let n = if small { rng.usize(20, 24) } else { rng.log_range(20.0, 300.99).floor() as usize };
        let p = if small { 2 } else { rng.usize(1, 5) };
        let design = if p == 1 { "intercept-only" } else { *rng.choose(&["normal", "polynomial", "indicator"]) };
        let (alpha, tol) = match part {
            "penalty" => (if neutral_final { 0.0 } else { *rng.choose(&[0.1, 1.0, 10.0]) }, tol_final),
            "tolerance" => (alpha_final, if neutral_final { 1e-5 } else { *rng.choose(&[1e-8, 1e-10, 1e-14]) }),
            _ => (alpha_final, tol_final),
        };
        // the part under test is always configured explicitly; the other parts are drawn as in the main workload
        let (wkind, given_w): (&'static str, Option<Option<Vec<f64>>>) = if part == "weights" {
            if neutral_final {
                ("ones", Some(Some(vec![1.0; n])))
            } else {
                let k = *rng.choose(&["random", "integer"]);
                (k, None)
            }
        } else {
            (*rng.choose(&["none", "none", "random", "integer"]), None)
        };
        let given_off: Option<Option<Vec<f64>>> = if part == "offsets" { Some(Some(if neutral_final { vec![if rng.chance(0.2) { -0.0 } else { 0.0 }; n] } else { draw_offsets(rng, n) })) } else { None };
        let with_off = rng.chance(0.4);
        if let Some(pr) = try_build(rng, fam, n, p, design, wkind, with_off, given_w.as_ref(), given_off.as_ref(), alpha, tol) {
            fin = Some(pr);
            break;
        }
    }
    let Some(pf) = fin else {
        rep.seen("excluded:no-mle-established-by-reference-fit", 1);
        return;
    };
    let n = pf.n;
    // ---- the configuration the object holds first
    let mut p0 = pf.clone();
    let mut first_budget = MAX_ITER;
    let mut first_family = fam;
    match (part, pattern) {
        ("offsets", "neutral->value") => p0.off = Some(vec![0.0; n]),
        ("offsets", "same-again") => {}
        ("offsets", _) => p0.off = Some(draw_offsets(rng, n)),
        ("weights", "neutral->value") => p0.w = Some(vec![1.0; n]),
        ("weights", "same-again") => {}
        ("weights", _) => p0.w = if rng.bool() { Some((0..n).map(|_| rng.int(2, 6) as f64).collect()) } else { Some((0..n).map(|_| rng.range(0.2, 4.0)).collect()) },
        ("penalty", "neutral->value") => p0.alpha = 0.0,
        ("penalty", "same-again") => {}
        ("penalty", _) => p0.alpha = *rng.choose(&[0.1, 1.0, 10.0].iter().copied().filter(|a| *a != pf.alpha).collect::<Vec<_>>()),
        ("tolerance", "neutral->value") => p0.tol = 1e-5,
        ("tolerance", "same-again") => {}
        ("tolerance", _) => p0.tol = *rng.choose(&[1e-8, 1e-10, 1e-14].iter().copied().filter(|t| *t != pf.tol).collect::<Vec<_>>()),
        ("family", "A->B") => first_family = other_family_for(rng, fam),
        ("max_iter", "A->B") => first_budget = rng.usize(1, 3),
        _ => {}
    }
    let hist = format!("history:{}:{}", part, pattern);
    let mut steps: Vec<String> = Vec::new();
    let mut first: Option<(Result<bool, String>, u64)> = None;
    let built = guard(|| {
        let mut glm = GLM::new(first_family.lib());
        glm.set_penalty(p0.alpha).set_tolerance(p0.tol);
        steps.push(format!("set_penalty({})", p0.alpha));
        steps.push(format!("set_tolerance({:e})", p0.tol));
        if let Some(w) = &p0.w {
            glm.set_weights(w);
            steps.push("set_weights(first)".into());
        }
        if let Some(o) = &p0.off {
            glm.set_offset(o);
            steps.push(if o.iter().all(|v| *v == 0.0) { "set_offset(zeros)".into() } else { "set_offset(first)".into() });
        }
        // family and max_iter are exercised by a first fit in any case
        if refit_between || part == "family" || part == "max_iter" {
            first = Some(fit_on(&mut glm, &p0, first_budget));
            steps.push(format!("fit(max_iter = {})", first_budget));
        }
        // the second step: the setter of the part under test is called whatever the value
        match part {
            "offsets" => {
                let o = pf.off.as_ref().unwrap();
                glm.set_offset(o);
                steps.push(if o.iter().all(|v| *v == 0.0) { "set_offset(zeros)".into() } else { "set_offset(final)".into() });
            }
            "weights" => {
                glm.set_weights(pf.w.as_ref().unwrap());
                steps.push(if neutral_final { "set_weights(ones)".into() } else { "set_weights(final)".into() });
            }
            "penalty" => {
                glm.set_penalty(pf.alpha);
                steps.push(format!("set_penalty({})", pf.alpha));
            }
            "tolerance" => {
                glm.set_tolerance(pf.tol);
                steps.push(format!("set_tolerance({:e})", pf.tol));
            }
            "family" => {
                glm.family = pf.fam.lib();
                steps.push("family = (final)".into());
            }
            _ => {}
        }
        glm
    });
    let mut glm = match built {
        Ok(g) => g,
        Err(msg) => {
            // a panic while the object held the FIRST configuration (whose responses were not simulated from it) is
            // not a finding about the final one: counted
            rep.seen("history:first-step-panicked", 1);
            let _ = msg;
            return;
        }
    };
    if let Some((Err(_), _)) = &first {
        rep.seen("history:first-step-panicked", 1);
        return;
    }
    let (r, it) = fit_on(&mut glm, &pf, MAX_ITER);
    let history = || {
        json!({"history": hist, "steps_before_final_fit": steps, "first_configuration": {"family": first_family.name(), "alpha": p0.alpha, "tolerance": p0.tol, "weights": p0.w.as_ref().map(|w| jf(w)), "offsets": p0.off.as_ref().map(|o| jf(o))},
               "first_fit": first.as_ref().map(|(r, it)| json!({"returned": format!("{:?}", r), "iterations": it})), "twin": "GLM::new(final family) configured once by set_penalty / set_tolerance / set_weights / set_offset with the final values"})
    };
    rep.seen(&format!("history:{}", part), 1);
    rep.seen(&format!("history:pattern={}", pattern), 1);
    rep.seen(if refit_between { "history:fit-between-steps" } else { "history:no-fit-between-steps" }, 1);
    rep.seen(&format!("history:{}", fam.name()), 1);
    judge_reuse(rep, &hist, &format!("history:{}", part), &pf, &glm, r, it, &history);
}

// ---------------------------------------------------------------------------------------------
// responses with a large level relative to the noise (stream 8)
//
// "The reported deviance is the family's deviance at the fitted means (the residual sum of squares for Gaussian)":
// nothing in the property ties the size of the response to the size of its scatter. Calibration-grade and
// synthetic data are near-exact (noise 1e-3..1e-9 of the signal); a response may ride on a large known baseline
// given as offset (epoch seconds, counters, elevations) with ordinary noise; counts are large when the exposure
// is; a gamma response with a large shape scatters by a fraction of a per cent. In all of these the deviance is
// many orders of magnitude smaller than the squared responses.
//   gaussian:near-exact           |β| <= 1.5, sigma = max|η| / ratio, ratio log-uniform 1e3..1e9 (alpha = 0: with a
//                                 penalty the fit is no longer near the data)
//   gaussian:offset-baseline      offsets of size ratio·sigma (constant, constant + drift, ±10 %), sigma in 0.3..2
//   poisson / quasipoisson:large-exposure   offsets ln(exposure), exposure 1e2..1e5 (|η| <= 15 as everywhere)
//   gamma:high-shape              shape 1e2..1e6 (alpha = 0)
// Oracle: the whole single-fit oracle (signed `|level:<kind>`), whose deviance limit now carries the rounding
// term of `deviance_rounding`; and for the Gaussian kinds the reported deviance against the residual sum of
// squares at the returned coefficients with linear predictor, residuals and sum in double-double
// (`C06.deviance.gaussian_rss`), within the same limit.

const LEVELS: [&str; 5] = ["gaussian:near-exact", "gaussian:offset-baseline", "poisson:large-exposure", "quasipoisson:large-exposure", "gamma:high-shape"];

/// harness-side simulation only: Poisson(λ), by the normal approximation for λ > 400
fn poisson_any(rng: &mut Rng, lambda: f64) -> f64 {
    if lambda <= 400.0 {
        rng.poisson(lambda)
    } else {
        (lambda + lambda.sqrt() * rng.normal()).round().max(0.0)
    }
}

fn level_case(i: usize, small: bool, rng: &mut Rng, rep: &mut Report) {
    let kind = LEVELS[[0usize, 1, 0, 1, 2, 3, 4][i % 7]];
    let tol = TOLS[(i / 7) % 4];
    let fam = match kind {
        "poisson:large-exposure" => Fam::Poisson,
        "quasipoisson:large-exposure" => Fam::QuasiPoisson,
        "gamma:high-shape" => Fam::Gamma,
        _ => Fam::Gaussian,
    };
    let alpha = if kind == "gaussian:near-exact" || kind == "gamma:high-shape" { 0.0 } else { ALPHAS[(i / 28) % 4] };
    let mut found: Option<(Prob, f64)> = None;
    for _attempt in 0..6 {
        let n = if small { rng.usize(20, 24) } else { rng.log_range(20.0, 500.99).floor() as usize };
        let p = if small { 2 } else { rng.usize(1, 6) };
        let design = if p == 1 { "intercept-only" } else { *rng.choose(&["normal", "polynomial", "indicator"]) };
        let Some(x) = gen_design(rng, design, n, p) else { continue };
        let mut beta: Vec<f64> = (0..p).map(|_| rng.range(-1.5, 1.5)).collect();
        let nb = beta[1..].iter().map(|b| b * b).sum::<f64>().sqrt();
        if nb > 1.5 {
            let r = 1.5 * rng.range(0.3, 1.0) / nb;
            beta[1..].iter_mut().for_each(|b| *b *= r);
        }
        let wkind = *rng.choose(&["none", "none", "random", "integer"]);
        let w = draw_weights(rng, wkind, n);
        let lin = |beta: &[f64], off: &Option<Vec<f64>>| -> Vec<f64> { (0..n).map(|r| off.as_ref().map(|o| o[r]).unwrap_or(0.0) + (0..p).map(|j| x[r * p + j] * beta[j]).sum::<f64>()).collect() };
        let ratio = rng.log_range(1e3, 1e9);
        let (off, y, level): (Option<Vec<f64>>, Vec<f64>, f64) = match kind {
            "gaussian:near-exact" => {
                beta[0] = rng.range(0.5, 1.5) * if rng.bool() { 1.0 } else { -1.0 };
                let off: Option<Vec<f64>> = if rng.chance(0.3) { Some((0..n).map(|_| rng.range(-0.5, 0.5)).collect()) } else { None };
                let eta = lin(&beta, &off);
                let sigma = eta.iter().fold(0.0f64, |m, v| m.max(v.abs())) / ratio;
                let y = eta.iter().map(|e| e + sigma * rng.normal()).collect();
                (off, y, ratio)
            }
            "gaussian:offset-baseline" => {
                beta[0] = rng.range(-1.5, 1.5);
                let sigma = rng.range(0.3, 2.0);
                let l = ratio * sigma * if rng.chance(0.25) { -1.0 } else { 1.0 };
                let off: Vec<f64> = match rng.usize(0, 2) {
                    0 => vec![l; n],
                    1 => {
                        let step = rng.range(1.0, 60.0);
                        (0..n).map(|r| l.round() + (r as f64) * step).collect()
                    }
                    _ => (0..n).map(|_| l * rng.range(0.9, 1.1)).collect(),
                };
                let off = Some(off);
                let eta = lin(&beta, &off);
                let y = eta.iter().map(|e| e + sigma * rng.normal()).collect();
                (off, y, ratio)
            }
            "poisson:large-exposure" | "quasipoisson:large-exposure" => {
                beta[0] = rng.range(0.0, 1.5);
                let e0 = rng.log_range(1e1, 1e4);
                let vary = rng.bool();
                let off: Vec<f64> = (0..n).map(|_| (e0 * if vary { rng.log_range(0.3, 3.0) } else { 1.0 }).ln()).collect();
                let off = Some(off);
                let eta = lin(&beta, &off);
                let k = rng.range(2.0, 10.0);
                let y = eta.iter().map(|e| { let g = if fam == Fam::QuasiPoisson { rng.gamma(k) / k } else { 1.0 }; poisson_any(rng, e.exp() * g) }).collect();
                (off, y, e0.sqrt())
            }
            _ => {
                beta[0] = rng.range(-1.0, 1.5);
                let off: Option<Vec<f64>> = if rng.chance(0.3) { Some((0..n).map(|_| rng.range(-0.5, 0.5)).collect()) } else { None };
                let eta = lin(&beta, &off);
                let k = rng.log_range(1e2, 1e6);
                let y = eta.iter().map(|e| (e.exp() * rng.gamma(k) / k).max(1e-300)).collect();
                (off, y, k.sqrt())
            }
        };
        let pr = Prob { fam, n, p, x, y, w, off, alpha, tol, design, wkind };
        if mle_established(&pr) {
            found = Some((pr, level));
            break;
        }
    }
    let Some((pr, level)) = found else {
        rep.seen("excluded:no-mle-established-by-reference-fit", 1);
        return;
    };
    let mut regime = format!("level:{}", kind);
    rep.case(&regime);
    // Found on the unmodified library by this family: the scoring loop starts every family at intercept = mean(y).
    // For a log link that is a linear predictor of mean(y) + offset; when exp of it is finite but its square is
    // not (mean(y) + offset in about 355..709) the working weights mu^2/mu are infinite, the Newton step is 0,
    // the deviance does not change and `fit` reported success with the START VALUE as coefficients (since repaired
    // in the library: a non-finite score or information matrix is an Err). That mechanism keeps its own regime label.
    if matches!(fam, Fam::Poisson | Fam::QuasiPoisson | Fam::Gamma | Fam::Exponential) {
        let ybar = pr.y.iter().sum::<f64>() / pr.n as f64;
        // Σ w_i mu_i² over the observations whose start mean is finite
        let t: f64 = (0..pr.n).map(|i| { let m = (ybar + pr.oi(i)).exp(); if m.is_finite() { pr.wi(i) * m * m } else { 0.0 } }).sum();
        if !t.is_finite() {
            regime = "level:log-link:start-mu-squared-overflows".to_string();
            rep.case(&regime);
        }
    }
    let decade = if level < 1e2 { "level/sd<1e2" } else if level < 1e3 { "level/sd=1e2..1e3" } else if level < 1e5 { "level/sd=1e3..1e5" } else if level < 1e7 { "level/sd=1e5..1e7" } else { "level/sd=1e7..1e9" };
    rep.seen(&format!("level:{}", decade), 1);
    rep.seen(&format!("level:w={}", pr.wkind), 1);
    rep.seen(&format!("level:tol={:e}", tol), 1);
    rep.distinct(Hasher::new().s(&regime).u(pr.n as u64).u(pr.p as u64).f(alpha).f(tol).s(pr.wkind).f(level).fs(&pr.y[..4]).finish(), pr.p >= 2);
    let Some(f) = fit_and_check(rep, &pr, Some(&regime)) else {
        rep.seen("level:fit-returned-err-or-not-judged", 1);
        return;
    };
    rep.seen(&format!("{}:judged", regime), 1);
    rep.seen(&format!("level:{}:judged", decade), 1);
    let dev_lib = f.glm.deviance().unwrap_or(f64::NAN);
    if fam == Fam::Gaussian {
        let rss = gaussian_rss_dd(&pr, &f.coef);
        let lim = f.lims.dev + 8.0 * pr.n as f64 * EPS;
        let e = rel_err(dev_lib, rss);
        let rounding = deviance_rounding(&pr, &f.ev, &f.coef);
        rep.note_max("worst_ratio.level.gaussian_deviance_vs_dd_rss_over_limit", e / lim);
        if alpha == 0.0 {
            // unpenalised Gaussian fits have no first-order lag: the rounding term is what the library is measured against
            rep.note_max(&format!("worst_ratio.level.gaussian_deviance_vs_dd_rss_over_rounding_term_alone.alpha=0.tol={:e}", tol), e / (rounding + 8.0 * pr.n as f64 * EPS));
        }
        rep.check("C06.deviance.gaussian_rss", &regime, e <= lim, || {
            let sum_y2: f64 = (0..pr.n).map(|i| pr.wi(i) * pr.y[i] * pr.y[i]).sum();
            json!({"problem": pr.json(), "coef": jf(&f.coef), "deviance_reported": jnum(dev_lib), "residual_sum_of_squares_double_double": rss, "relative_error": jnum(e), "limit": lim,
                   "limit_parts": {"K_tol_plus_1e-10_plus_lag": f.lims.dev - rounding, "rounding_of_residuals(eps*|y|*|r| term)": rounding}, "level_over_sd": level,
                   "diagnosis": {"eps_times_weighted_sum_of_squared_responses_over_rss": EPS * sum_y2 / rss}})
        });
    }
    rep.sample(|| json!({"regime": regime, "n": pr.n, "p": pr.p, "alpha": alpha, "tolerance": tol, "weights": pr.wkind, "level_over_sd": level, "deviance_reported": jnum(dev_lib), "deviance_oracle": f.ev.dev}));
}

pub fn run(cfg: &Cfg, rep: &mut Report) {
    rep.rule = "case i: family = i mod 6, alpha = {0,0.1,1,10}[(i/6) mod 4], tol in {1e-5,1e-8,1e-10,1e-14}; n log-uniform in 20..500 (first 96 cases outside lite mode: n in 20..24, p = 2, so that replay records are small), p in 1..6 columns incl. intercept, design in {standardised normal, raw powers of t in [-1,1], 0/1 indicators mixed with normal}, weights {none, U(0.5,3), integer 1..3 (also fitted as replicated rows)}, offsets {none, U(-0.5,0.5)}; slopes in the ball of radius 1.5, responses simulated by the harness's own samplers (quasi-Poisson: gamma-mixed Poisson); half of the cases refitted on permuted rows; max_iter = 300. Then directed cases: max_iter in {1,2,3} and perfectly separable logistic data. Then object-reuse histories (case i: mode = i mod 9, family = (i/9) mod 6, alpha by (i/54) mod 4, weights imposed in 2/3 of the cases): one model object is fitted with max_iter in {1,2,3} (Err) and retried with max_iter = 300, as is or after set_tolerance; or fitted with max_iter = 300 and then refitted on new data of the same length (keeping its weights/offsets), on data with another n and p, after set_weights, after set_offset with new data, after set_penalty or set_tolerance; or set_coef on a new model and then fitted; the final fit gets the whole single-fit oracle and is compared with a fresh twin. Then non-integer responses (case i: kind = i mod 5 of {Poisson rates c/e with weights e (integer 1..12 or U(0.5,8)), quasi-Poisson rates, quasi-Poisson phi*Poisson(mu/phi) with phi in 0.05..0.9 or 1.1..3, gamma and exponential responses with intercept in -6..-1.5}, alpha by (i/5) mod 4, tol by (i/20) mod 4): single-fit oracle plus the equivalence with the ordinary twin (counts with offset ln e; the counts z = y/phi; the responses scaled by a power of two). Then configuration routes (case i: route = i mod 6 of {public fields, fields over setters, setters over fields, family field, clone, fields re-assigned between two fits}, family = (i/6) mod 6, weights imposed in 2/3 of the cases): single-fit oracle and comparison with the setters-only twin. Then structured weight vectors (case i: structure = i mod 4 of {constant, two-valued, with exact zeros (10-40 % of the rows), generic}, integer-valued / real by (i/4) mod 2, family = (i/8) mod 6, base strength a0 = {0,0.1,0,1,0,10}[(i/48) mod 6]): base weights w0 of ordinary size (ones; {1,2},{1,3},{2,5},{1,10} or U(0.2,1)/U(1,5); integers 1..3 or U(0.5,3)), the fitted pair (c*w0, c*a0) and (w0, a0) with c in {2,3,4,5,7,10,100,1000,1e6} or log-uniform 1e-6..1e6 (a0 = 0) resp. c in {0.01,0.1,10,100} such that c*a0 is again 0.1, 1 or 10: single-fit oracle on both, rescaling relation, replication relation for integer-valued weights of sum <= 1500, dropped-rows relation for zero weights. Then configuration histories (case i: part = i mod 6 of {offsets, weights, penalty, tolerance, family, max_iter}, pattern = (i/6) mod 4 of {value -> neutral, neutral -> value, A -> B, the same value again}, a fit between the two steps for (i/24) mod 2 = 0; offsets U(-0.5,0.5), ln(1..12) or a common shift; neutral = zeros / ones / 0 / 1e-5): single-fit oracle on the history's object against the final configuration and comparison with the fresh twin. Then responses with a large level relative to the noise (case i: kind by i mod 7 of {near-exact Gaussian, Gaussian on an offset baseline (x2 each), Poisson and quasi-Poisson with exposures 1e2..1e5, gamma with shape 1e2..1e6}, level/sd log-uniform 1e3..1e9 for the Gaussian kinds, tol by (i/7) mod 4): single-fit oracle and, for Gaussian, the reported deviance against the double-double residual sum of squares. non-trivial = p >= 2 and >= 2 Fisher iterations observed through the glm.iter hook; distinct by (family, n, p, alpha, tol, weights, design, offsets, first responses)".into();
    rep.assume("the MLE exists: a case is used only if the harness's own damped Fisher scoring converges (for the configured strength and for strength 1) with max |eta| <= 15; others are counted under excluded:*");
    rep.assume("designs with scaled Gram condition number > 1e6 are re-drawn");
    rep.assume("deviance / dispersion-based standard errors / BIC are checked by value only for unweighted and integer-weighted fits (n = rows resp. weight sum); for non-integer weights the property does not fix n, only internal consistency is checked");
    rep.assume("Gaussian closed-form comparison only without offsets");
    rep.assume("a panic on perfectly separable data (no MLE, outside the quantifier) is counted, not judged; Ok is a violation there");
    rep.assume("alpha added to the intercept's information entry changes only the iteration path (see notes iterations_max.*), which the property does not constrain");
    let n = cfg.pick(400, 10000, 25);
    // sanitizer layers want native sizes from the first case on; otherwise the first 96 cases are small
    let small_until = if cfg.lite { 0 } else { 96 };
    par_cases(cfg, rep, 1, n, |i, rng: &mut Rng, rep| main_case(i, small_until, rng, rep));
    let m = cfg.pick(80, 2000, 6);
    par_cases(cfg, rep, 2, m, nonconv_case);

    // object-reuse histories (stream 3)
    rep.assume("a model object that has been fitted before (Ok or Err) and possibly re-configured through the setters is inside the quantifier: the property speaks of every fit that reports success and of the configuration in force at that call; the reused object is compared with a fresh twin within the convergence-scaled limits of the permutation relation, never bit-for-bit");
    rep.assume("an Err from the last fit of a reused object is counted (refit:err-where-fresh-ok), not judged: an error is never a wrong answer");
    let r = cfg.pick(1080, 13500, 9);
    // interpreter layers (Miri): small problems (n in 20..24, p = 2) — the history matters there, not the size
    par_cases(cfg, rep, 3, r, |i, rng: &mut Rng, rep| reuse_case(i, cfg.miri(), rng, rep));
    rep.require("refit:after-err", 1);
    rep.require("refit:after-ok", 1);
    rep.require("refit:after-err:ok", 1);
    rep.require("refit:after-ok:ok", 1);
    rep.require("refit:compared-with-fresh", 1);
    if !cfg.lite {
        rep.require("refit:after-set-coef", 1);
        for c in ["retry", "retry+set_tolerance", "data", "data+n", "weights", "offsets+data", "penalty", "tolerance", "set_coef"] {
            rep.require(&format!("refit:change={}", c), 1);
        }
        for f in FAMS {
            rep.require(&format!("refit:{}", f.name()), 1);
        }
        for w in ["none", "random", "integer"] {
            rep.require(&format!("refit:w={}", w), 1);
        }
        rep.require("refit:offsets=true", 1);
        rep.require("refit:offsets=false", 1);
    }

    // non-integer responses (stream 4)
    rep.assume("non-integer responses are inside the quantifier where the family's deviance is defined for them and a textbook model produces them: rates = Poisson counts / exposure with prior weights = exposure (Poisson and quasi-Poisson), phi * Poisson(mu / phi) for the quasi-Poisson family (E y = mu, Var y = phi mu), small positive gamma / exponential responses; the rate formulation counts its residual degrees of freedom from the weight sum (the library's convention for weights, as in the integer-weights regime), so rate vs count+offset standard errors of the quasi family are compared after division by sqrt(dispersion)");
    let nf = cfg.pick(300, 6000, 10);
    par_cases(cfg, rep, 4, nf, |i, rng: &mut Rng, rep| fractional_case(i, cfg.miri(), rng, rep));
    for k in FRACTIONAL {
        rep.require(&format!("fractional:{}", k), 1);
        // two cases per kind in a lite run: a fit that returns Err (never a wrong answer) may leave a kind uncompared there
        if !cfg.lite || k.starts_with("rate:") {
            rep.require(&format!("fractional:{}:compared", k), 1);
        }
    }
    rep.require("fractional:responses-in-(0,1)", 1);
    if !cfg.lite {
        for w in ["none", "random", "integer"] {
            rep.require(&format!("fractional:w={}", w), 1);
        }
        for a in ALPHAS {
            rep.require(&format!("fractional:alpha={}", a), 1);
        }
    }
    // configuration routes (stream 5)
    rep.assume("every route the public API offers to one configuration (setters; the public fields family / alpha / tolerance / weights; fields over setters and setters over fields; Clone; fields re-assigned between two fits) is inside the quantifier: the property speaks of the given weights and the configured strength, not of how they were given; each route's fit gets the single-fit oracle and is compared with the setters-only twin within the convergence-scaled limits");
    let nr = cfg.pick(432, 8640, 12);
    par_cases(cfg, rep, 5, nr, |i, rng: &mut Rng, rep| route_case(i, cfg.miri(), rng, rep));
    for r in ROUTES {
        rep.require(r, 1);
        if !cfg.lite {
            rep.require(&format!("{}:ok", r), 1);
        }
    }
    if !cfg.lite {
        for w in ["none", "random", "integer"] {
            rep.require(&format!("route:w={}", w), 1);
        }
        for f in FAMS {
            rep.require(&format!("route:{}", f.name()), 1);
        }
    }

    // structured weight vectors and weight relations (stream 6)
    rep.assume("structured weight vectors are inside 'with and without weights': constant c*1 with c in 1e-6..1e6, two-valued, with exact zeros (a row of weight zero is a row that is absent), integer frequencies; weights c*w with strength c*alpha describe the same penalised likelihood as (w, alpha) multiplied by c. Dispersion-based quantities are judged by value for integer-valued weights only (n = weight sum, the convention of the integer-weights regime); for non-integer weights whose rounded sum does not exceed p the library's dispersion (which divides by round(sum w) - p) is not judged at all");
    let nw = cfg.pick(576, 5760, 16);
    par_cases(cfg, rep, 6, nw, |i, rng: &mut Rng, rep| weights_case(i, cfg.miri(), rng, rep));
    rep.require("weights:relation=rescaling:compared", 1);
    rep.require("weights:relation=replication:compared", 1);
    rep.require("weights:relation=drop-zero-rows:compared", 1);
    for st in WSTRUCT {
        rep.require(&format!("weights:{}:integer", st), 1);
        rep.require(&format!("weights:{}:real", st), 1);
    }
    if !cfg.lite {
        rep.require("weights:relation=replication:constant-weights:compared", 1);
        for f in FAMS {
            rep.require(&format!("weights:{}", f.name()), 1);
        }
        for a in ALPHAS {
            rep.require(&format!("weights:alpha={}", a), 1);
        }
        for l in ["weights:factor<1e-3", "weights:factor=1e-3..1", "weights:factor=1..1e3", "weights:factor>1e3"] {
            rep.require(l, 1);
        }
    }

    // configuration histories back to the neutral value (stream 7)
    rep.assume("the configuration in force at a fit is the one given last: a history value -> neutral (set_offset(&zeros) — the only way the API offers to remove offsets —, set_weights(&ones), set_penalty(0), set_tolerance(1e-5)), neutral -> value, A -> B, or the same value twice, with or without a fit between the steps, is inside the quantifier; the history's object gets the single-fit oracle against the final configuration and is compared with a fresh twin that was given the final values once (neutral values explicitly); a panic or Err of the first fit (whose configuration the responses were not simulated from) is counted, not judged");
    // interpreter layer: one case per part (pattern value -> neutral resp. A -> B), small problems
    let nh = if cfg.miri() { 6 } else { cfg.pick(576, 6912, 12) };
    par_cases(cfg, rep, 7, nh, |i, rng: &mut Rng, rep| history_case(i, cfg.miri(), rng, rep));
    // (a lite run has 12 cases: the first two patterns of every part)
    for part in ["offsets", "weights", "penalty", "tolerance"] {
        for pat in if cfg.miri() { &HPATTERNS[..1] } else if cfg.lite { &HPATTERNS[..2] } else { &HPATTERNS[..] } {
            rep.require(&format!("history:{}:{}", part, pat), 1);
            if !cfg.lite {
                rep.require(&format!("history:{}:{}:ok", part, pat), 1);
            }
        }
    }
    for part in ["family", "max_iter"] {
        for pat in if cfg.miri() { &["A->B"][..] } else { &["A->B", "same-again"][..] } {
            rep.require(&format!("history:{}:{}", part, pat), 1);
        }
    }
    if !cfg.lite {
        rep.require("history:fit-between-steps", 1);
        rep.require("history:no-fit-between-steps", 1);
        for f in FAMS {
            rep.require(&format!("history:{}", f.name()), 1);
        }
    }

    // responses with a large level relative to the noise (stream 8)
    rep.assume("responses whose level is 1e3..1e9 residual standard deviations (near-exact Gaussian data with |beta| <= 1.5 and sigma down to 1e-9 of the signal; a Gaussian response on an offset baseline of that size), counts with exposures 1e2..1e5 given as log-offset, gamma responses of shape 1e2..1e6 are inside the quantifier; the deviance limit carries the rounding term of the textbook formula: Gaussian 4(2 sqrt(RSS) E + E^2)/RSS with E^2 = sum w_i ((p+3) eps (|y_i| + |o_i| + sum_j |x_ij b_j|))^2 — the rounding of the residuals themselves, of size eps |y| |r|, not eps |y|^2 —, (quasi-)Poisson 8 eps sum w (|eta|+2)(|y ln y| + |y ln mu| + y + mu)/D");
    // interpreter layer: the two Gaussian kinds only
    let nl = if cfg.miri() { 2 } else { cfg.pick(336, 5040, 7) };
    par_cases(cfg, rep, 8, nl, |i, rng: &mut Rng, rep| level_case(i, cfg.miri(), rng, rep));
    for k in if cfg.miri() { &LEVELS[..2] } else { &LEVELS[..] } {
        rep.require(&format!("level:{}", k), 1);
        if !cfg.lite {
            rep.require(&format!("level:{}:judged", k), 1);
        }
    }
    if !cfg.lite {
        for d in ["level/sd=1e3..1e5", "level/sd=1e5..1e7", "level/sd=1e7..1e9"] {
            rep.require(&format!("level:{}:judged", d), 1);
        }
        for t in TOLS {
            rep.require(&format!("level:tol={:e}", t), 1);
        }
    }

    rep.expect_site("glm.iter", 1);
    rep.require("result:ok", 1);
    for f in FAMS {
        rep.require(&format!("fit:{}:alpha=0", f.name()), 1);
        rep.require(&format!("fit:{}:alpha=1", f.name()), 1);
        rep.require(&format!("fit:{}:alpha!=0,1", f.name()), 1);
    }
    rep.require("nonconv:max_iter=1", 1);
    rep.require("nonconv:max_iter=2", 1);
    rep.require("nonconv:separable-logistic", 1);
    if !cfg.lite {
        for a in ALPHAS {
            rep.require(&format!("alpha={}", a), 1);
        }
        for t in TOLS {
            rep.require(&format!("tol={:e}", t), 1);
            rep.require(&format!("ok:alpha=0:tol={:e}", t), 1);
        }
        for w in ["none", "random", "integer"] {
            rep.require(&format!("w={}", w), 1);
        }
        for d in ["normal", "polynomial", "indicator"] {
            rep.require(&format!("design={}", d), 1);
        }
        rep.require("offsets=true", 1);
        rep.require("offsets=false", 1);
        rep.require("replication:compared", 1);
        for p in 1..=6 {
            rep.require(&format!("p={}", p), 1);
        }
    }
}
