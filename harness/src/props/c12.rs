//! C12 — broadcast arithmetic follows NumPy semantics (DESIGN §3 C12).
//!
//! Events: every `Matrix ∘ Matrix`, `Matrix ∘ Vector`, `Vector ∘ Matrix` call (value or panic).
//! Oracle: a ten-line NumPy broadcasting model; entries compared bitwise on operands whose entries
//! are pairwise distinct, so a swapped operand or a row/column mix-up changes the bits.
use crate::gen::Rng;
use crate::report::{guard, jf, par_cases, same_bits_slice, Cfg, Hasher, Report};
use compute::linalg::{Matrix, Vector};
use serde_json::json;

const OPS: [char; 4] = ['+', '-', '*', '/'];

fn scalar(op: char, a: f64, b: f64) -> f64 {
    match op {
        '+' => a + b,
        '-' => a - b,
        '*' => a * b,
        _ => a / b,
    }
}

/// NumPy model: None = incompatible, Some((rows, cols, data)).
fn model(op: char, a: &[f64], ar: usize, ac: usize, b: &[f64], br: usize, bc: usize) -> Option<(usize, usize, Vec<f64>)> {
    let dim = |x: usize, y: usize| -> Option<usize> {
        if x == y {
            Some(x)
        } else if x == 1 {
            Some(y)
        } else if y == 1 {
            Some(x)
        } else {
            None
        }
    };
    let r = dim(ar, br)?;
    let c = dim(ac, bc)?;
    let mut out = Vec::with_capacity(r * c);
    for i in 0..r {
        for j in 0..c {
            let x = a[(if ar == 1 { 0 } else { i }) * ac + if ac == 1 { 0 } else { j }];
            let y = b[(if br == 1 { 0 } else { i }) * bc + if bc == 1 { 0 } else { j }];
            out.push(scalar(op, x, y));
        }
    }
    Some((r, c, out))
}

fn left_data(r: usize, c: usize, salt: f64) -> Vec<f64> {
    (0..r * c).map(|k| 1.0 + k as f64 + salt).collect()
}
fn right_data(r: usize, c: usize, salt: f64) -> Vec<f64> {
    (0..r * c).map(|k| 100.0 + 3.0 * k as f64 + salt).collect()
}

#[derive(Clone, Copy, Debug)]
enum Kind {
    MM(u8), // ownership form 0..4: (owned,owned) (owned,&) (&,owned) (&,&)
    MV(u8),
    VM(u8),
}

fn apply(op: char, kind: Kind, a: &Matrix, b: &Matrix) -> Matrix {
    macro_rules! forms {
        ($l:expr, $r:expr, $lo:expr, $ro:expr, $f:expr) => {
            match ($f, op) {
                (0, '+') => $lo + $ro,
                (0, '-') => $lo - $ro,
                (0, '*') => $lo * $ro,
                (0, _) => $lo / $ro,
                (1, '+') => $lo + $r,
                (1, '-') => $lo - $r,
                (1, '*') => $lo * $r,
                (1, _) => $lo / $r,
                (2, '+') => $l + $ro,
                (2, '-') => $l - $ro,
                (2, '*') => $l * $ro,
                (2, _) => $l / $ro,
                (_, '+') => $l + $r,
                (_, '-') => $l - $r,
                (_, '*') => $l * $r,
                (_, _) => $l / $r,
            }
        };
    }
    match kind {
        Kind::MM(f) => forms!(a, b, a.clone(), b.clone(), f),
        Kind::MV(f) => {
            let v: Vector = b.data.clone();
            forms!(a, &v, a.clone(), v.clone(), f)
        }
        Kind::VM(f) => {
            let v: Vector = a.data.clone();
            forms!(&v, b, v.clone(), b.clone(), f)
        }
    }
}

fn classify(ar: usize, ac: usize, br: usize, bc: usize) -> &'static str {
    if ar == br && ac == bc {
        "same"
    } else if (ar == 1 && ac == 1) || (br == 1 && bc == 1) {
        "scalar"
    } else {
        let rows_ok = ar == br || ar == 1 || br == 1;
        let cols_ok = ac == bc || ac == 1 || bc == 1;
        if !(rows_ok && cols_ok) {
            "incompatible"
        } else if (ar == 1 && bc == 1 && ac != 1 && br != 1) || (ac == 1 && br == 1 && ar != 1 && bc != 1) {
            "outer"
        } else if ar == br {
            "col-stretch"
        } else if ac == bc {
            "row-stretch"
        } else {
            "mixed"
        }
    }
}

fn one(rep: &mut Report, op: char, kind: Kind, ar: usize, ac: usize, br: usize, bc: usize, salt: f64) {
    one_with(rep, op, kind, ar, ac, br, bc, left_data(ar, ac, salt), right_data(br, bc, salt), "");
}

/// One call on the given operand data; `suffix` (empty or ":<family>") extends the regime label.
fn one_with(rep: &mut Report, op: char, kind: Kind, ar: usize, ac: usize, br: usize, bc: usize, ad: Vec<f64>, bd: Vec<f64>, suffix: &str) {
    let a = Matrix::new(ad.clone(), ar as i32, ac as i32);
    let b = Matrix::new(bd.clone(), br as i32, bc as i32);
    let kname = match kind {
        Kind::MM(_) => "MM",
        Kind::MV(_) => "MV",
        Kind::VM(_) => "VM",
    };
    let cls = classify(ar, ac, br, bc);
    let regime = format!("{}:{}:{}{}", kname, cls, op, suffix);
    rep.case(&regime);
    let expect = model(op, &ad, ar, ac, &bd, br, bc);
    let got = guard(|| apply(op, kind, &a, &b));
    let detail = |obs: serde_json::Value| {
        json!({"op": op.to_string(), "kind": format!("{:?}", kind), "left_shape": [ar, ac], "right_shape": [br, bc],
               "left": jf(&ad), "right": jf(&bd), "observed": obs,
               "expected": match &expect { Some((r,c,d)) => json!({"shape":[r,c],"data":jf(d)}), None => json!("panic") }})
    };
    rep.distinct(
        Hasher::new().s(&regime).fs(if suffix.is_empty() { &[] } else { &ad }).fs(if suffix.is_empty() { &[] } else { &bd }).u(ar as u64).u(ac as u64).u(br as u64).u(bc as u64).u(match kind { Kind::MM(f) | Kind::MV(f) | Kind::VM(f) => f as u64 }).finish(),
        ar * ac > 1 || br * bc > 1,
    );
    match (&expect, &got) {
        (None, Err(_)) => {
            rep.check("C12.incompatible.panics", &regime, true, || json!(null));
        }
        (None, Ok(m)) => {
            rep.check("C12.incompatible.panics", &regime, false, || detail(json!({"shape": [m.nrows, m.ncols], "data": jf(&m.data)})));
        }
        (Some(_), Err(msg)) => {
            rep.check("C12.compatible.no_panic", &regime, false, || detail(json!({"panic": msg})));
        }
        (Some((r, c, d)), Ok(m)) => {
            rep.check("C12.compatible.no_panic", &regime, true, || json!(null));
            let shape_ok = m.nrows == *r && m.ncols == *c && m.data.len() == r * c;
            rep.check("C12.shape", &regime, shape_ok, || detail(json!({"shape": [m.nrows, m.ncols], "len": m.data.len()})));
            if shape_ok {
                rep.check("C12.entries", &regime, same_bits_slice(&m.data, d), || detail(json!({"shape": [m.nrows, m.ncols], "data": jf(&m.data)})));
            }
            // operands unchanged (borrowed forms share `a`/`b`)
            rep.check("C12.operands_unchanged", &regime, same_bits_slice(&a.data, &ad) && same_bits_slice(&b.data, &bd) && a.nrows == ar && b.nrows == br, || detail(json!("operand modified")));
        }
    }
    rep.sample(|| json!({"op": op.to_string(), "kind": format!("{:?}", kind), "left_shape": [ar, ac], "right_shape": [br, bc], "class": cls,
                         "outcome": match &got { Ok(m) => json!({"shape":[m.nrows, m.ncols]}), Err(e) => json!({"panic": e}) }}));
}

// ---------------------------------------------------------------------------------------------
// constant-valued operands: the shape logic and the entry rule do not depend on the values, in
// particular not on an operand being made of the operator's neutral element

const PATTERNS: [&str; 6] = ["all-0", "all-1", "all--1", "signed-zeros", "neutral-but-one", "constant"];
const SIDES: [&str; 3] = ["left", "right", "both"];

fn pattern_data(rng: &mut Rng, pattern: usize, op: char, len: usize) -> Vec<f64> {
    let neutral = if op == '+' || op == '-' { 0.0 } else { 1.0 };
    match pattern {
        0 => vec![0.0; len],
        1 => vec![1.0; len],
        2 => vec![-1.0; len],
        3 => (0..len).map(|_| if rng.bool() { 0.0 } else { -0.0 }).collect(),
        4 => {
            let mut v = vec![neutral; len];
            let k = rng.usize(0, len - 1);
            v[k] = *rng.choose(&[7.5, -3.0, 0.5, 2.0, if neutral == 0.0 { 1.0 } else { 0.0 }]);
            v
        }
        _ => vec![*rng.choose(&[2.5, -0.75, 3.0, 1e-3, 2.0]); len],
    }
}

fn constant_case(rng: &mut Rng, rep: &mut Report, op: char, f: u8, ar: usize, ac: usize, br: usize, bc: usize, pattern: usize, side: usize) {
    let ad = if side != 1 { pattern_data(rng, pattern, op, ar * ac) } else { left_data(ar, ac, 0.0) };
    let bd = if side != 0 { pattern_data(rng, pattern, op, br * bc) } else { right_data(br, bc, 0.0) };
    let suffix = format!(":const-{}", SIDES[side]);
    rep.seen(&format!("const:{}:{}", PATTERNS[pattern], SIDES[side]), 1);
    one_with(rep, op, Kind::MM(f), ar, ac, br, bc, ad.clone(), bd.clone(), &suffix);
    if br == 1 {
        one_with(rep, op, Kind::MV(f), ar, ac, br, bc, ad.clone(), bd.clone(), &suffix);
    }
    if ar == 1 {
        one_with(rep, op, Kind::VM(f), ar, ac, br, bc, ad, bd, &suffix);
    }
}

pub fn run(cfg: &Cfg, rep: &mut Report) {
    rep.rule = "exhaustive: all shape pairs (rows, cols in 1..=D) x {+,-,*,/} x {Matrix∘Matrix, Matrix∘Vector, Vector∘Matrix} x 4 ownership forms, distinct-valued entries; then random shapes up to 40x40. non-trivial = at least one operand has more than one element; distinct by (kind, class, op, shapes, ownership form); plus constant-valued operands (all 0 / 1 / -1, mixed signed zeros, neutral element everywhere but one position, other constants) on either or both sides over all shape pairs up to 5x5 (thorough 6x6) in every ownership form and random shapes up to 40x40 (regimes *:const-left|right|both)".into();
    rep.assume("entries are finite, non-zero and pairwise distinct (1+k, 100+3k): the property is about shape logic, C04 covers special values; the const-* regimes use constant operands (0, 1, -1, +-0, ...) whose results (including inf / NaN from division by zero, NaNs identified) are compared with the same scalar operation");
    let d = if cfg.lite { if cfg.miri() { 3 } else { 4 } } else { 6 };
    rep.exhaustive = Some(!cfg.lite);
    // exhaustive cube, parallel over the left shape
    let shapes: Vec<(usize, usize)> = (1..=d).flat_map(|r| (1..=d).map(move |c| (r, c))).collect();
    par_cases(cfg, rep, 1, shapes.len(), |i, _rng, rep| {
        let (ar, ac) = shapes[i];
        for &(br, bc) in &shapes {
            // Miri smoke: panics cost ~0.1 s each there, so one order-sensitive operator and two forms
            let ops: &[char] = if cfg.miri() { &['-'] } else { &OPS };
            for &op in ops {
                for f in 0..4u8 {
                    if cfg.miri() && (f == 1 || f == 2) {
                        continue;
                    }
                    one(rep, op, Kind::MM(f), ar, ac, br, bc, 0.0);
                    if br == 1 {
                        one(rep, op, Kind::MV(f), ar, ac, br, bc, 0.0);
                    }
                    if ar == 1 {
                        one(rep, op, Kind::VM(f), ar, ac, br, bc, 0.0);
                    }
                }
            }
        }
    });
    // random larger shapes, biased towards compatible pairs
    let n = cfg.pick(500, 20000, 6);
    let maxd = if cfg.miri() { 6 } else { 40 };
    par_cases(cfg, rep, 2, n, |_i, rng: &mut Rng, rep| {
        let (ar, ac) = (rng.usize(1, maxd), rng.usize(1, maxd));
        let pickdim = |rng: &mut Rng, x: usize| -> usize {
            match rng.usize(0, 9) {
                0..=3 => x,
                4..=6 => 1,
                _ => rng.usize(1, maxd),
            }
        };
        let (mut ar, mut ac) = (ar, ac);
        if rng.chance(0.3) {
            ar = 1;
        }
        if rng.chance(0.2) {
            ac = 1;
        }
        let br = pickdim(rng, ar);
        let bc = pickdim(rng, ac);
        let op = *rng.choose(&OPS);
        let f = rng.usize(0, 3) as u8;
        let salt = rng.usize(0, 1000) as f64 * 0.125;
        let kind = match rng.usize(0, 2) {
            1 if br == 1 => Kind::MV(f),
            2 if ar == 1 => Kind::VM(f),
            _ => Kind::MM(f),
        };
        one(rep, op, kind, ar, ac, br, bc, salt);
    });
    // every compatible class at larger shapes: all row widths that are multiples of the unroll width
    // (8..=40), sizes on both sides of 1024 elements, both operand orders, all four operators
    if !cfg.miri() {
        let large: Vec<(usize, usize)> = vec![(5, 8), (3, 16), (7, 24), (2, 32), (9, 40), (32, 32), (40, 40), (40, 30), (26, 40), (33, 31), (40, 25), (64, 17), (17, 64), (128, 9)];
        par_cases(cfg, rep, 3, large.len(), |i, rng, rep| {
            let (r, c) = large[i];
            let pairs = [
                ((r, c), (r, c)),
                ((r, 1), (r, c)),
                ((r, c), (r, 1)),
                ((1, c), (r, c)),
                ((r, c), (1, c)),
                ((1, 1), (r, c)),
                ((r, c), (1, 1)),
                ((r, 1), (1, c)),
                ((1, c), (r, 1)),
            ];
            for &((ar, ac), (br, bc)) in &pairs {
                for &op in &OPS {
                    let f = rng.usize(0, 3) as u8;
                    let salt = rng.usize(0, 1000) as f64 * 0.125;
                    one(rep, op, Kind::MM(f), ar, ac, br, bc, salt);
                    if br == 1 {
                        one(rep, op, Kind::MV(f), ar, ac, br, bc, salt);
                    }
                    if ar == 1 {
                        one(rep, op, Kind::VM(f), ar, ac, br, bc, salt);
                    }
                }
            }
        });
    }
    // constant-valued operands (all 0, all 1, all -1, mixed signed zeros, the operator's neutral element
    // everywhere but one position, another constant) on the left, the right or both sides: every shape
    // pair up to DxD in every ownership form (incompatible pairs must still panic), then random larger shapes
    if !cfg.miri() {
        let dc = if cfg.lite { 3 } else if cfg.thorough() { 6 } else { 5 };
        let cshapes: Vec<(usize, usize)> = (1..=dc).flat_map(|r| (1..=dc).map(move |c| (r, c))).collect();
        par_cases(cfg, rep, 4, cshapes.len() * cshapes.len(), |i, rng, rep| {
            let (ar, ac) = cshapes[i / cshapes.len()];
            let (br, bc) = cshapes[i % cshapes.len()];
            for &op in &OPS {
                for pattern in 0..PATTERNS.len() {
                    for side in 0..SIDES.len() {
                        for f in 0..4u8 {
                            constant_case(rng, rep, op, f, ar, ac, br, bc, pattern, side);
                        }
                    }
                }
            }
        });
        let nc = cfg.pick(1500, 30000, 100);
        par_cases(cfg, rep, 5, nc, |i, rng, rep| {
            let (mut ar, mut ac) = (rng.usize(1, 40), rng.usize(1, 40));
            if rng.chance(0.25) {
                ar = 1;
            }
            if rng.chance(0.25) {
                ac = 1;
            }
            let pickdim = |rng: &mut Rng, x: usize| -> usize {
                match rng.usize(0, 9) {
                    0..=3 => x,
                    4..=6 => 1,
                    7 => rng.usize(1, x),
                    _ => rng.usize(1, 40),
                }
            };
            let (br, bc) = (pickdim(rng, ar), pickdim(rng, ac));
            let ((ar, ac), (br, bc)) = if rng.bool() { ((ar, ac), (br, bc)) } else { ((br, bc), (ar, ac)) };
            let op = OPS[i % 4];
            let f = rng.usize(0, 3) as u8;
            constant_case(rng, rep, op, f, ar, ac, br, bc, (i / 4) % PATTERNS.len(), (i / 24) % SIDES.len());
        });
        for p in PATTERNS {
            for sd in SIDES {
                rep.require(&format!("const:{}:{}", p, sd), 1);
            }
        }
        for k in ["MM", "MV", "VM"] {
            for cls in ["same", "scalar", "incompatible", "col-stretch", "row-stretch", "outer"] {
                if (k == "MV" || k == "VM") && cls == "col-stretch" {
                    continue;
                }
                for op in OPS {
                    for sd in SIDES {
                        rep.require(&format!("{}:{}:{}:const-{}", k, cls, op, sd), 1);
                    }
                }
            }
        }
    }
    for k in ["MM", "MV", "VM"] {
        for cls in ["same", "scalar", "incompatible", "col-stretch", "row-stretch"] {
            if (k == "MV" || k == "VM") && cls == "col-stretch" {
                continue; // a 1-row operand makes every column stretch a scalar case
            }
            for op in OPS {
                if cfg.miri() && op != '-' {
                    continue;
                }
                rep.require(&format!("{}:{}:{}", k, cls, op), 1);
            }
        }
    }
    for k in ["MM", "MV", "VM"] {
        for op in OPS {
            if cfg.miri() && op != '-' {
                continue;
            }
            rep.require(&format!("{}:outer:{}", k, op), 1);
        }
    }
}
